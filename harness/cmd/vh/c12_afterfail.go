package main

// C12 — a File method FAILS; then every other method is called; finally Close.
//
// "A File's implicit offset evolves like an os.File's … After Close every method returns os.ErrClosed, exactly one close
// request has been sent …", for all sequences of File method calls. On an os.File a call that fails is just a failed
// call: the offset is where the failed call left it (a refused Stat, Chmod, Truncate, Seek: where it was; a transfer
// that broke off: advanced by the bytes transferred), the file is still open, every later call works or fails on its
// own merits, and Close closes it. A File method that fails leaves through another path than one that succeeds - the
// path on which a lock is given back, a handle kept, an offset written back may be a different one.
//
// One case (xfAfterFail), on a scripted peer of its own (afPeer: one in-memory file; it can refuse the k-th request of
// a given type after it was armed):
//
//	open; the offset is made non-zero (pre: Seek / Read / Write) or left at 0;
//	the FAILING call m1 - Stat, Chmod, Chown, Truncate, Sync, SetExtendedData (one request), Seek(-1, io.SeekEnd) (its
//	FSTAT), ReadAt, WriteAt, Read, Write, ReadFrom (opaque and sized source), ReadFromWithConcurrency, WriteTo (one
//	packet or three; the request of chunk k of the call's plan is hit, WriteTo also at its size query), and the calls
//	that fail without asking the server: Seek to a negative position, Seek with an unknown whence, Sync without the
//	fsync@openssh.com extension - fails in one of these ways: the server REFUSES the request with a status code
//	(1 … 8, 9, 255, 256, 2^32-1), answers it with a MALFORMED reply (a HANDLE / NAME / EXTENDED_REPLY frame, a STATUS
//	frame that ends after the id, an ATTRS frame shorter than its flags say, a DATA frame shorter than its length word,
//	SSH_FX_OK where attributes were asked for), or CUTS the connection instead of answering;
//	then, with no call in between, the method m2, then every other method once (rotating order), each followed by
//	Seek(0, io.SeekCurrent); then Close; then every method once more.
//
// Reference: the File as the property describes it (afModel: offset, content, permission bits, open/closed) - each
// call's count, data and error, the offset after it, the served file after every mutation. For the failing call: the
// error is the server's status (io.EOF / os.ErrNotExist / os.ErrPermission for codes 1/2/3; a malformed reply or a cut
// connection: some error other than os.ErrClosed), count and data are the intact prefix below the failing chunk, the
// offset advances by that prefix (Read, Write, ReadFrom, WriteTo) or stays (everything else), ReadFrom's count is what
// it took from its source. After a cut connection every call that needs the server must fail (and move nothing), the
// calls that need none (start/current-relative Seek) go on working, Close returns an error of its own. In every case:
// Close RETURNS, exactly one CLOSE request carrying the handle was sent (cut connection: at most one), nothing naming
// the handle follows it, and afterwards every method answers os.ErrClosed.
// Every call on the File has the hang deadline (hang budget, class c12/after-failed/<m1>): a call that does not come
// back is reported under after-failed-<m1>/<the call that hung>/hang with the history up to it.

import (
	"bytes"
	"errors"
	"fmt"
	"io"
	"os"
	"strings"
	"sync"
	"time"

	"github.com/pkg/sftp"

	"verifharness/lib"
	"verifharness/peers"
	"verifharness/wire"
)

// ---------- the case ----------

type xfAFault struct {
	Kind  string `json:"kind"`            // status | malformed | cut | local (the call fails without asking the server)
	Code  uint32 `json:"code,omitempty"`  // status: the code
	Shape string `json:"shape,omitempty"` // malformed: handle-reply name-reply extended-reply short-status short-attrs short-data status-ok
	Site  string `json:"site,omitempty"`  // "": the requests of the call's own type; "size-query": the STAT/FSTAT a concurrent WriteTo begins with
	K     int    `json:"k,omitempty"`     // which of the call's requests of that type is hit (0: the first = chunk 0)
}

func (f xfAFault) String() string {
	s := f.Kind
	switch f.Kind {
	case "status":
		s += fmt.Sprintf("=%d", f.Code)
	case "malformed":
		s += "=" + f.Shape
	}
	if f.Site != "" {
		s += "@" + f.Site
	}
	if f.K != 0 {
		s += fmt.Sprintf("#%d", f.K)
	}
	return s
}

type xfAfterFail struct {
	Pre      string   `json:"pre,omitempty"` // how the offset became non-zero before the failing call: "" (it is 0) | seek | read | write
	M1       string   `json:"failing"`
	Fault    xfAFault `json:"fault"`
	Then     []string `json:"then"`      // the calls that follow, in order (Close ends the open part; what follows it must answer os.ErrClosed)
	N        int      `json:"n"`         // bytes a data call moves
	Off      int64    `json:"off"`       // offset of ReadAt/WriteAt, target of Seek(off, io.SeekStart)
	FsyncExt bool     `json:"fsync_ext"` // the server announces fsync@openssh.com = 1 (without it Sync fails without asking)
}

func (a *xfAfterFail) text() string {
	return fmt.Sprintf("pre=%s %s!%s n%d o%d ext%d then %s", a.Pre, a.M1, a.Fault, a.N, a.Off, xfB(a.FsyncExt), strings.Join(a.Then, ","))
}

const afRefusedMsg = "refused (injected)"

// the methods that can follow (m2 and the tail), and those that can be made to fail
// (Close first: the pair (failing call, Close) is the first history of its job)
var afThen = []string{"Close", "Read", "Stat", "Chmod", "Write", "SeekEnd", "ReadAt", "Truncate", "ReadFrom", "SeekCur", "WriteAt", "Sync", "WriteTo", "Chown",
	"SeekStart", "ReadFromSized", "SetExtendedData", "SeekNeg", "ReadFromWithConcurrency", "SeekBad"}
var afFailing = []string{"Stat", "Chmod", "Chown", "Truncate", "Sync", "SetExtendedData", "SeekEnd", "ReadAt", "WriteAt", "Read", "Write", "ReadFrom",
	"ReadFromSized", "ReadFromWithConcurrency", "WriteTo", "SeekNeg", "SeekBad"}

// the request type a method's own requests have (0: it asks the server nothing)
func afReqType(name string) byte {
	switch name {
	case "Stat", "SeekEnd":
		return wire.Fstat
	case "Chmod", "Chown", "Truncate", "SetExtendedData":
		return wire.Fsetstat
	case "Sync":
		return wire.Extended
	case "ReadAt", "Read", "WriteTo":
		return wire.Read
	case "WriteAt", "Write", "ReadFrom", "ReadFromSized", "ReadFromWithConcurrency":
		return wire.Write
	case "Close":
		return wire.Close
	}
	return 0
}

func afIsData(name string) bool { t := afReqType(name); return t == wire.Read || t == wire.Write }

var afStatusCodes = []uint32{4, 3, 2, 8, 1, 5, 6, 7, 9, 255, 256, 4294967295}

func afShapes(typ byte) []string {
	switch typ {
	case wire.Fstat, wire.Stat:
		return []string{"handle-reply", "short-status", "short-attrs", "status-ok", "name-reply", "extended-reply"}
	case wire.Read:
		return []string{"handle-reply", "short-status", "short-data", "name-reply", "extended-reply"}
	}
	return []string{"handle-reply", "short-status", "name-reply", "extended-reply"}
}

// afFaults lists every way the call m1 can be made to fail (nchunks: requests of its own type a successful call sends).
func afFaults(m1 string, cfg xfCfg, ext bool, nchunks int) (out []xfAFault) {
	typ := afReqType(m1)
	if typ == 0 || (m1 == "Sync" && !ext) {
		return []xfAFault{{Kind: "local"}}
	}
	ks := []int{0}
	if afIsData(m1) && nchunks > 1 {
		ks = []int{0, 1, nchunks - 1}
	}
	for i, code := range afStatusCodes {
		out = append(out, xfAFault{Kind: "status", Code: code, K: ks[i%len(ks)]})
	}
	for i, sh := range afShapes(typ) {
		out = append(out, xfAFault{Kind: "malformed", Shape: sh, K: ks[(i+1)%len(ks)]})
	}
	for _, k := range ks {
		out = append(out, xfAFault{Kind: "cut", K: k})
	}
	if m1 == "WriteTo" && cfg.CR {
		for _, code := range []uint32{4, 2, 3, 1, 8} {
			out = append(out, xfAFault{Kind: "status", Code: code, Site: "size-query"})
		}
		for _, sh := range afShapes(wire.Stat) {
			out = append(out, xfAFault{Kind: "malformed", Shape: sh, Site: "size-query"})
		}
		out = append(out, xfAFault{Kind: "cut", Site: "size-query"})
	}
	return out
}

// ---------- the scripted peer ----------

type afReq struct {
	Typ    byte
	Handle string
	Stale  bool // carries a handle that is not open (closed, or never issued)
}

type afPeer struct {
	Cli *sftp.Client
	SS  *peers.ScriptedServer

	mu    sync.Mutex
	file  []byte
	perm  uint32
	open  map[string]bool
	nextH int
	log   []afReq
	// the armed fault: the k-th request (from arming on) whose type is in types gets it
	fault *xfAFault
	types []byte
	seen  int
	hit   bool
	cut   bool
	done  chan struct{}
}

func afNewPeer(cfg xfCfg, ext bool) (*afPeer, error) {
	var exts [][2]string
	if ext {
		exts = [][2]string{{"fsync@openssh.com", "1"}}
	}
	cli, ss, err := peers.NewClient(wire.VersionFrame(3, exts), cfg.Opts()...)
	if err != nil {
		return nil, err
	}
	p := &afPeer{Cli: cli, SS: ss, open: map[string]bool{}, perm: 0o644, done: make(chan struct{})}
	go p.run()
	return p, nil
}

func (p *afPeer) Shutdown() {
	go p.Cli.Close()
	lib.WaitCleanup(xfProp+"/peer", 5*time.Second, p.done)
	p.SS.Shutdown()
}

func (p *afPeer) Reset(file []byte) {
	p.mu.Lock()
	p.file, p.perm, p.log = append([]byte(nil), file...), 0o644, nil
	p.fault, p.types, p.seen, p.hit = nil, nil, 0, false
	p.mu.Unlock()
}

func (p *afPeer) Get() []byte {
	p.mu.Lock()
	defer p.mu.Unlock()
	return append([]byte(nil), p.file...)
}

func (p *afPeer) Arm(f xfAFault, types ...byte) {
	p.mu.Lock()
	p.fault, p.types, p.seen, p.hit = &f, types, 0, false
	p.mu.Unlock()
}

// Disarm takes the fault away and tells whether it was met.
func (p *afPeer) Disarm() bool {
	p.mu.Lock()
	defer p.mu.Unlock()
	p.fault = nil
	return p.hit
}

func (p *afPeer) Log() []afReq {
	p.mu.Lock()
	defer p.mu.Unlock()
	return append([]afReq(nil), p.log...)
}

func (p *afPeer) run() {
	defer close(p.done)
	for pk := range p.SS.Reqs {
		reply, cut := p.answer(pk)
		if cut {
			p.SS.CutOutput() // the connection goes away; what the client still writes is read and recorded
			continue
		}
		if reply != nil && p.SS.Reply(reply) != nil {
			p.mu.Lock()
			p.cut = true
			p.mu.Unlock()
		}
	}
}

func afFaultReply(id uint32, f xfAFault) []byte {
	switch f.Kind {
	case "status":
		return wire.StatusFrame(id, f.Code, afRefusedMsg)
	case "malformed":
		switch f.Shape {
		case "handle-reply":
			return wire.HandleFrame(id, "x")
		case "name-reply":
			return wire.NameFrame(id, nil)
		case "extended-reply":
			return wire.Frame(wire.ExtendedReply, wire.B{}.U32(id).Raw([]byte("zz")))
		case "short-status":
			return wire.Frame(wire.Status, wire.B{}.U32(id))
		case "short-attrs":
			return wire.Frame(wire.Attrs, wire.B{}.U32(id).U32(wire.ASize).Raw([]byte{0, 0, 1}))
		case "short-data":
			return wire.Frame(wire.Data, wire.B{}.U32(id).U32(100).Raw([]byte{1, 2}))
		case "status-ok":
			return wire.StatusFrame(id, wire.OK, "")
		}
	}
	return wire.StatusFrame(id, wire.Failure, "unknown fault")
}

func (p *afPeer) answer(pk wire.Pkt) (reply []byte, cut bool) {
	p.mu.Lock()
	defer p.mu.Unlock()
	id := pk.ID()
	if len(pk.Body) < 4 {
		return nil, false
	}
	d := wire.D{B: pk.Body[4:]}
	q := afReq{Typ: pk.Typ}
	var extName string
	var off int64
	var n int
	var data []byte
	var st wire.St
	var pflags uint32
	switch pk.Typ {
	case wire.Open:
		d.Str()
		pflags = d.U32()
		d.St()
	case wire.Close, wire.Fstat:
		q.Handle = d.Str()
	case wire.Read:
		q.Handle = d.Str()
		off = int64(d.U64())
		n = int(d.U32())
	case wire.Write:
		q.Handle = d.Str()
		off = int64(d.U64())
		data = append([]byte(nil), d.Bytes()...)
	case wire.Fsetstat:
		q.Handle = d.Str()
		st = d.St()
	case wire.Stat, wire.Lstat:
		d.Str()
	case wire.Extended:
		extName = d.Str()
		if extName == "fsync@openssh.com" {
			q.Handle = d.Str()
		} else {
			d.B = nil
		}
	default:
		d.B = nil
	}
	needsHandle := pk.Typ == wire.Close || pk.Typ == wire.Fstat || pk.Typ == wire.Read || pk.Typ == wire.Write || pk.Typ == wire.Fsetstat || (pk.Typ == wire.Extended && extName == "fsync@openssh.com")
	if needsHandle {
		q.Stale = !p.open[q.Handle]
	}
	if pk.Typ == wire.Close && !q.Stale {
		delete(p.open, q.Handle) // a server releases the handle when the request arrives, whatever it answers
	}
	if len(p.log) < 1<<16 || q.Stale || pk.Typ == wire.Close {
		p.log = append(p.log, q)
	}
	if p.cut {
		return nil, false
	}
	if d.Err != nil || len(d.B) != 0 {
		return wire.StatusFrame(id, wire.BadMessage, "malformed request"), false
	}
	if f := p.fault; f != nil && !p.hit && bytes.IndexByte(p.types, pk.Typ) >= 0 {
		if p.seen == f.K {
			p.hit = true
			if f.Kind == "cut" {
				p.cut = true
				return nil, true
			}
			return afFaultReply(id, *f), false
		}
		p.seen++
	}
	if needsHandle && q.Stale {
		return wire.StatusFrame(id, wire.Failure, "stale handle"), false
	}
	switch pk.Typ {
	case wire.Open:
		if pflags&wire.FTrunc != 0 {
			p.file = nil
		}
		p.nextH++
		h := fmt.Sprintf("\xfeA%d\xff", p.nextH)
		p.open[h] = true
		return wire.HandleFrame(id, h), false
	case wire.Close:
		return wire.StatusFrame(id, wire.OK, ""), false
	case wire.Stat, wire.Lstat, wire.Fstat:
		return wire.AttrsFrame(id, wire.St{Flags: wire.ASize | wire.APerm, Size: uint64(len(p.file)), Perm: 0o100000 | p.perm}), false
	case wire.Fsetstat:
		if st.Flags&wire.ASize != 0 {
			sz := int(st.Size)
			if sz <= len(p.file) {
				p.file = p.file[:sz:sz]
			} else {
				p.file = append(append([]byte(nil), p.file...), make([]byte, sz-len(p.file))...)
			}
		}
		if st.Flags&wire.APerm != 0 {
			p.perm = st.Perm & 0o777
		}
		return wire.StatusFrame(id, wire.OK, ""), false
	case wire.Read:
		if off >= int64(len(p.file)) {
			return wire.StatusFrame(id, wire.EOF, "EOF"), false
		}
		return wire.DataFrame(id, xfSlice(p.file, off, n)), false
	case wire.Write:
		p.file = xfOverwrite(p.file, off, data)
		return wire.StatusFrame(id, wire.OK, ""), false
	case wire.Extended:
		if extName == "fsync@openssh.com" {
			return wire.StatusFrame(id, wire.OK, ""), false
		}
	}
	return wire.StatusFrame(id, wire.OpUnsupported, "unsupported"), false
}

// afHold keeps one peer and its client alive across the cases of a job.
type afHold struct {
	p    *afPeer
	cfg  xfCfg
	ext  bool
	used int
}

func (h *afHold) get(cfg xfCfg, ext bool, cost int) (*afPeer, error) {
	if h.p != nil && (h.cfg != cfg || h.ext != ext || h.used > 24<<20) {
		h.Close()
	}
	if h.p == nil {
		p, err := afNewPeer(cfg, ext)
		if err != nil {
			return nil, err
		}
		h.p, h.cfg, h.ext, h.used = p, cfg, ext, 0
	}
	h.used += cost
	return h.p, nil
}

func (h *afHold) Close() {
	if h.p != nil {
		h.p.Shutdown()
		h.p = nil
	}
}

// drop lets go of a connection that is not fit for another case (cut, or a call still hanging on it).
func (h *afHold) drop() {
	if h.p != nil {
		go h.p.Shutdown()
		h.p = nil
	}
}

// ---------- the File as the property describes it ----------

var errAfAny = errors.New("some error other than os.ErrClosed")
var errAfUnsupported = errors.New("status 8 (operation unsupported)")

type afArgs struct {
	N    int
	Off  int64
	Seed int
	T    int64
	Perm uint32
	Conc int
}

type afRes struct {
	n        int64 // -1 in an expectation: not prescribed
	err      error
	data     []byte
	perm     uint32
	hasPerm  bool
	consumed int64 // ReadFrom*: bytes taken from the source (-1: not a ReadFrom)
}

func (r afRes) String() string {
	s := fmt.Sprintf("(%d, %v", r.n, r.err)
	if r.n < 0 {
		s = fmt.Sprintf("(any, %v", r.err)
	}
	if r.data != nil {
		s += ", " + xfShort(r.data)
	}
	if r.hasPerm {
		s += fmt.Sprintf(", mode %o", r.perm)
	}
	if r.consumed >= 0 {
		s += fmt.Sprintf(", %d bytes taken from the source", r.consumed)
	}
	return s + ")"
}

type afModel struct {
	off    int64
	file   []byte
	perm   uint32
	ext    bool
	mp     int
	lost   bool // the connection is gone
	closed bool
}

func (m *afModel) args(name string, i int, af *xfAfterFail) afArgs {
	a := afArgs{N: af.N, Off: af.Off, Seed: 11 + 7*i, Perm: []uint32{0o600, 0o640, 0o444}[i%3], Conc: 2 + i%2}
	if i%2 == 0 {
		a.T = int64(len(m.file)) + 2
	} else {
		a.T = max(int64(len(m.file))-1, 0)
	}
	return a
}

func afWire(name string, ext bool) bool {
	return afReqType(name) != 0 && !(name == "Sync" && !ext)
}

// do is the call on the File of the property: what it returns and what it does to (offset, content, mode).
func (m *afModel) do(name string, a afArgs) afRes {
	r := afRes{consumed: -1}
	if m.closed {
		r.n, r.err = -1, os.ErrClosed
		return r
	}
	if m.lost && afWire(name, m.ext) {
		// nothing reaches the server any more: the call fails, nothing moves
		r.n, r.err = -1, errAfAny
		if strings.HasPrefix(name, "ReadFrom") {
			r.consumed = 0 // (not prescribed; the count must still be what was taken from the source)
		}
		if name == "Close" {
			m.closed = true
		}
		return r
	}
	seek := func(target int64) {
		if target < 0 {
			r.n, r.err = -1, os.ErrInvalid
			return
		}
		m.off, r.n = target, target
	}
	switch name {
	case "Stat":
		r.n, r.perm, r.hasPerm = int64(len(m.file)), m.perm, true
	case "Chmod":
		m.perm = a.Perm
	case "Chown", "SetExtendedData":
	case "Truncate":
		if a.T <= int64(len(m.file)) {
			m.file = m.file[:a.T:a.T]
		} else {
			m.file = append(append([]byte(nil), m.file...), make([]byte, a.T-int64(len(m.file)))...)
		}
	case "Sync":
		if !m.ext {
			r.err = errAfUnsupported
		}
	case "ReadAt", "Read":
		at := a.Off
		if name == "Read" {
			at = m.off
		}
		d := xfSlice(m.file, at, a.N)
		r.n, r.data = int64(len(d)), append([]byte{}, d...)
		if len(d) < a.N {
			r.err = io.EOF
		}
		if name == "Read" {
			m.off += r.n
		}
	case "WriteAt":
		m.file = xfOverwrite(m.file, a.Off, xfPat(a.Seed, a.N))
		r.n = int64(a.N)
	case "Write", "ReadFrom", "ReadFromSized", "ReadFromWithConcurrency":
		m.file = xfOverwrite(m.file, m.off, xfPat(a.Seed, a.N))
		m.off += int64(a.N)
		r.n = int64(a.N)
		if name != "Write" {
			r.consumed = r.n
		}
	case "WriteTo":
		d := xfSlice(m.file, m.off, len(m.file))
		r.n, r.data = int64(len(d)), append([]byte{}, d...)
		m.off += r.n
	case "SeekStart":
		seek(a.Off)
	case "SeekCur":
		seek(m.off + 1)
	case "SeekEnd":
		seek(int64(len(m.file)) - 1)
	case "SeekNeg":
		seek(-1)
	case "SeekBad":
		r.n, r.err = -1, errAfAny
	case "Close":
		m.closed = true
	default:
		r.err = errors.New("unknown call " + name)
	}
	return r
}

// faultErr is the error the failing call must return.
func afFaultErr(f xfAFault) error {
	switch f.Kind {
	case "status":
		return afStatusErr{f.Code}
	}
	return errAfAny
}

type afStatusErr struct{ code uint32 }

func (e afStatusErr) Error() string {
	switch e.code {
	case wire.EOF:
		return "io.EOF (status 1)"
	case wire.NoSuchFile:
		return "os.ErrNotExist (status 2)"
	case wire.PermissionDenied:
		return "os.ErrPermission (status 3)"
	}
	return fmt.Sprintf("status %d %q", e.code, afRefusedMsg)
}

// fail is the call m1 with the fault: what it returns, what it does to the File. window: a write-type call may have
// stored chunks of [window[0], window[1]) beyond the failing one (which of them depends on the schedule).
func (m *afModel) fail(name string, a afArgs, f xfAFault) (r afRes, window [2]int64) {
	if f.Kind == "local" {
		return m.do(name, a), window // SeekNeg, SeekBad, Sync without the extension fail by themselves
	}
	r = afRes{n: -1, consumed: -1, err: afFaultErr(f)}
	if f.Kind == "cut" {
		defer func() { m.lost = true }()
	}
	if !afIsData(name) || f.Site == "size-query" {
		if name == "WriteTo" {
			r.n, r.data = 0, []byte{}
		}
		return // one request, refused: nothing happened
	}
	start := m.off
	if name == "ReadAt" || name == "WriteAt" {
		start = a.Off
	}
	total := a.N
	if name == "WriteTo" {
		total = max(len(m.file)-int(start), 0)
	}
	plan := xfPlan(m.mp, start, total)
	prefix := 0
	for i := 0; i < f.K && i < len(plan); i++ {
		prefix += plan[i].Len
	}
	switch name {
	case "ReadAt", "Read", "WriteTo":
		d := xfSlice(m.file, start, prefix)
		r.n, r.data = int64(len(d)), append([]byte{}, d...)
		if name != "ReadAt" {
			m.off = start + r.n
		}
		if name == "WriteTo" && f.Kind == "status" && f.Code == wire.EOF {
			r.err = nil // the server says the file ends there: that is where a WriteTo ends
		}
	default:
		data := xfPat(a.Seed, a.N)
		m.file = xfOverwrite(m.file, start, data[:prefix])
		window = [2]int64{start + int64(prefix), start + int64(a.N)}
		if name == "WriteAt" || name == "Write" {
			r.n = int64(prefix)
		} else {
			r.consumed = 0 // the count is what was taken from the source, whatever that is
		}
		if name != "WriteAt" {
			m.off = start + int64(prefix)
		}
	}
	return
}

func afErrOK(got, want error) bool {
	switch {
	case want == nil:
		return got == nil
	case want == errAfAny:
		return got != nil && !errors.Is(got, os.ErrClosed)
	case want == errAfUnsupported:
		code, _, _, ok := sftp.VerifStatusFields(got)
		return ok && code == wire.OpUnsupported
	case want == io.EOF:
		return got == io.EOF
	case want == os.ErrInvalid || want == os.ErrClosed:
		return errors.Is(got, want)
	}
	var se afStatusErr
	if errors.As(want, &se) {
		return xfErrIs(got, xfFail{Code: se.code, Msg: afRefusedMsg})
	}
	return false
}

func afSame(got, want afRes) bool {
	if !afErrOK(got.err, want.err) {
		return false
	}
	if want.n >= 0 && got.n != want.n {
		return false
	}
	if want.data != nil && !bytes.Equal(got.data, want.data) {
		return false
	}
	if want.hasPerm && (!got.hasPerm || got.perm != want.perm) {
		return false
	}
	if want.consumed >= 0 && got.n != got.consumed {
		return false
	}
	return true
}

// ---------- the call on the real File ----------

type afSource struct {
	data []byte
	pos  int
	mu   sync.Mutex
}

func (s *afSource) Read(p []byte) (int, error) {
	s.mu.Lock()
	defer s.mu.Unlock()
	if s.pos >= len(s.data) {
		return 0, io.EOF
	}
	n := copy(p, s.data[s.pos:])
	s.pos += n
	return n, nil
}

func (s *afSource) taken() int64 { s.mu.Lock(); defer s.mu.Unlock(); return int64(s.pos) }

type afSized struct{ *afSource }

func (s afSized) Len() int { s.mu.Lock(); defer s.mu.Unlock(); return len(s.data) - s.pos }

func afCall(f *sftp.File, name string, a afArgs) afRes {
	r := afRes{consumed: -1}
	switch name {
	case "Stat":
		fi, err := f.Stat()
		r.err = err
		if err == nil {
			r.n, r.perm, r.hasPerm = fi.Size(), uint32(fi.Mode().Perm()), true
		}
	case "Chmod":
		r.err = f.Chmod(os.FileMode(a.Perm))
	case "Chown":
		r.err = f.Chown(0, 0)
	case "SetExtendedData":
		r.err = f.SetExtendedData(f.Name(), []sftp.StatExtended{{ExtType: "note@verif", ExtData: "x"}})
	case "Truncate":
		r.err = f.Truncate(a.T)
	case "Sync":
		r.err = f.Sync()
	case "ReadAt":
		b := make([]byte, a.N)
		n, err := f.ReadAt(b, a.Off)
		r.n, r.err, r.data = int64(n), err, b[:max(n, 0)]
	case "Read":
		b := make([]byte, a.N)
		n, err := f.Read(b)
		r.n, r.err, r.data = int64(n), err, b[:max(n, 0)]
	case "WriteAt":
		n, err := f.WriteAt(xfPat(a.Seed, a.N), a.Off)
		r.n, r.err = int64(n), err
	case "Write":
		n, err := f.Write(xfPat(a.Seed, a.N))
		r.n, r.err = int64(n), err
	case "ReadFrom", "ReadFromSized", "ReadFromWithConcurrency":
		src := &afSource{data: xfPat(a.Seed, a.N)}
		switch name {
		case "ReadFrom":
			r.n, r.err = f.ReadFrom(struct{ io.Reader }{src})
		case "ReadFromSized":
			r.n, r.err = f.ReadFrom(afSized{src})
		default:
			r.n, r.err = f.ReadFromWithConcurrency(struct{ io.Reader }{src}, a.Conc)
		}
		r.consumed = src.taken()
	case "WriteTo":
		var sink bytes.Buffer
		r.n, r.err = f.WriteTo(&sink)
		r.data = append([]byte{}, sink.Bytes()...)
	case "SeekStart":
		r.n, r.err = f.Seek(a.Off, io.SeekStart)
	case "SeekCur":
		r.n, r.err = f.Seek(1, io.SeekCurrent)
	case "SeekEnd":
		r.n, r.err = f.Seek(-1, io.SeekEnd)
	case "SeekNeg":
		cur, err := f.Seek(0, io.SeekCurrent)
		if err != nil {
			r.err = err
			break
		}
		r.n, r.err = f.Seek(-cur-1, io.SeekCurrent)
	case "SeekBad":
		r.n, r.err = f.Seek(0, 7)
	case "Close":
		r.err = f.Close()
	default:
		r.err = errors.New("unknown call " + name)
	}
	return r
}

// ---------- one case ----------

func afSite(sc xfSeqCase, name string) string {
	switch name {
	case "WriteTo":
		return xfWriteToPath(sc.Cfg, sc.FileLen)
	case "ReadAt", "Read":
		return xfCase{Cfg: sc.Cfg, API: "ReadAt", Len: sc.After.N}.Path()
	case "WriteAt", "Write":
		return xfCase{Cfg: sc.Cfg, API: "WriteAt", Len: sc.After.N}.Path()
	case "ReadFrom":
		return "sequential"
	case "ReadFromSized":
		if xfReadFromConcurrent(sc.Cfg, "len", sc.After.N) {
			return "concurrent"
		}
		return "sequential"
	case "ReadFromWithConcurrency":
		return "concurrent"
	}
	return ""
}

// xfRunAfterFail runs one case. marks: histogram buckets.
func xfRunAfterFail(sc xfSeqCase, hold *afHold) (fails []xfSeqFailure, marks []string) {
	af := sc.After
	m1 := af.M1
	fail := func(at int, key, what string, exp, act any) {
		fails = append(fails, xfSeqFailure{Key: key, What: what, At: at, Expected: exp, Actual: act})
	}
	mark := func(f string, a ...any) { marks = append(marks, "after-fail|"+fmt.Sprintf(f, a...)) }
	kase := lib.NewCase(xfProp + "/after-failed/" + m1)
	own := hold == nil
	if own {
		hold = &afHold{}
	}
	mp := sc.Cfg.MP
	file := xfFilePat(sc.FileLen)
	peer, err := hold.get(sc.Cfg, af.FsyncExt, 8*(sc.FileLen+af.N)+4096)
	if err != nil {
		fail(-1, "after-fail/setup", err.Error(), nil, nil)
		return
	}
	peer.Reset(file)
	if own {
		defer hold.Close()
	}
	model := &afModel{file: append([]byte(nil), file...), perm: 0o644, ext: af.FsyncExt, mp: mp}
	var f *sftp.File
	if ok, _ := xfGuardK(kase, func() { f, err = peer.Cli.OpenFile("/f", os.O_RDWR) }); !ok || err != nil {
		fail(-1, "after-fail/setup", fmt.Sprintf("open: %v (returned=%v)", err, ok), nil, nil)
		hold.drop()
		return
	}
	closeCalled := false
	hung := false
	lastFailed := m1 // the most recent call that failed (by the server's doing, the connection's, or its own): what a call that hangs is behind
	defer func() {
		switch {
		case hung:
			go f.Close() // (a call that never returned may hold the File's lock: Close would wait for it forever)
			hold.drop()
		case !closeCalled:
			if ok, _ := xfGuardK(kase, func() { f.Close() }); !ok {
				hold.drop()
			}
		}
		if model.lost && hold.p == peer {
			hold.drop()
		}
	}()
	history := func(upTo int) string {
		h := []string{m1 + " (failed: " + af.Fault.String() + ")"}
		if af.Pre != "" {
			h = []string{af.Pre, h[0]}
		}
		for i := 0; i <= upTo && i < len(af.Then); i++ {
			h = append(h, af.Then[i])
		}
		return strings.Join(h, "; ")
	}
	// call runs one method under the hang deadline; step -1 is the failing call, -2 a call before it
	call := func(step int, name string, a afArgs) (r afRes, ok bool) {
		okc, pn := xfGuardK(kase, func() { r = afCall(f, name, a) })
		if name == "Close" {
			closeCalled = true
		}
		switch {
		case !okc:
			hung = true
			switch {
			case step >= 0:
				fail(step, "after-failed-"+lastFailed+"/"+name+"/hang", fmt.Sprintf("%s did not return within 20 s (the last call that failed before it: %s); history on this File: %s", name, lastFailed, history(step)), "return", "hang")
			case step == -1:
				fail(step, "failed-"+m1+"/"+af.Fault.Kind+"/hang", fmt.Sprintf("%s whose request was answered with %s did not return within 20 s", name, af.Fault), "return", "hang")
			default:
				fail(step, "after-fail/before/"+name+"/hang", name+" on the freshly opened File did not return within 20 s", "return", "hang")
			}
			return r, false
		case pn != nil:
			fail(step, "after-failed-"+lastFailed+"/"+name+"/panic", name+" panicked", nil, fmt.Sprint(pn))
			return r, false
		}
		return r, true
	}
	// ctx names the place of a disagreement after the call `after`: behind a call that failed itself (by its own doing, or
	// because the connection is gone) it is that call's; otherwise it is the pair (last call that failed, this call)
	ctx := "after-failed-" + m1 + "/"
	offsetIs := func(step int, after string) bool {
		var cur int64
		var e error
		if okc, _ := xfGuardK(kase, func() { cur, e = f.Seek(0, io.SeekCurrent) }); !okc {
			hung = true
			fail(step, "after-failed-"+lastFailed+"/SeekCur/hang", fmt.Sprintf("Seek(0, io.SeekCurrent) did not return within 20 s (the last call that failed before it: %s); history on this File: %s", lastFailed, history(step)), "return", "hang")
			return false
		}
		if e != nil || cur != model.off {
			fail(step, ctx+"offset", fmt.Sprintf("the File offset after %s is not where the calls so far leave an os.File; history: %s", after, history(step)),
				model.off, fmt.Sprintf("%d (%v)", cur, e))
			return false
		}
		return true
	}
	contentIs := func(step int, after string) bool {
		if model.lost {
			return true
		}
		if got := peer.Get(); !bytes.Equal(got, model.file) {
			fail(step, ctx+"content", fmt.Sprintf("the served file after %s differs from what the calls so far leave behind (sizes %d vs %d, first difference at %d); history: %s", after, len(got), len(model.file), xfFirstDiff(got, model.file), history(step)),
				xfShort(model.file), xfShort(got))
			return false
		}
		return true
	}

	// --- before: the offset is made non-zero ---
	pre := ""
	preArgs := model.args("", 0, af)
	switch af.Pre {
	case "seek":
		pre = "SeekStart"
	case "read":
		pre, preArgs.N = "Read", 1
	case "write":
		pre, preArgs.N = "Write", 2
	}
	if pre != "" {
		want := model.do(pre, preArgs)
		got, ok := call(-2, pre, preArgs)
		if !ok {
			return
		}
		if !afSame(got, want) {
			fail(-2, "after-fail/before/"+pre+"/result", pre+" on the freshly opened File differs from the same call on an os.File", want.String(), got.String())
			return
		}
	}
	// --- the failing call ---
	a1 := model.args(m1, 0, af)
	offBefore := model.off
	if af.Fault.Kind != "local" {
		types := []byte{afReqType(m1)}
		if af.Fault.Site == "size-query" {
			types = []byte{wire.Stat, wire.Lstat, wire.Fstat}
		}
		peer.Arm(af.Fault, types...)
	}
	want1, window := model.fail(m1, a1, af.Fault)
	got1, ok := call(-1, m1, a1)
	hit := peer.Disarm()
	if !ok {
		return
	}
	if af.Fault.Kind != "local" && !hit {
		fail(-1, "after-fail/setup/fault-not-met", fmt.Sprintf("%s did not send the request the fault was set for (%s): the case says nothing", m1, af.Fault), "request met", got1.String())
		return
	}
	site := afSite(sc, m1)
	mark("failing=%s|fault=%s", m1, af.Fault.Kind)
	switch af.Fault.Kind {
	case "status":
		mark("status=%d", af.Fault.Code)
	case "malformed":
		mark("malformed=%s", af.Fault.Shape)
	}
	if site != "" {
		mark("failing=%s|path=%s", m1, site)
		if af.Fault.Site != "" {
			mark("failing=%s|site=%s", m1, af.Fault.Site)
		} else {
			mark("failing-chunk=%d", af.Fault.K)
		}
	}
	mark("offset-before-nonzero=%v", offBefore != 0)
	if !afSame(got1, want1) {
		what := fmt.Sprintf("%s whose request was answered with %s must return that failure", m1, af.Fault)
		if afIsData(m1) {
			what += ", count and data of the intact prefix below the failing chunk (ReadFrom: the bytes taken from its source)"
		}
		if af.Fault.Kind == "local" {
			what = m1 + " must fail (without moving anything)"
		}
		fail(-1, "failed-"+m1+"/"+af.Fault.Kind+"/result", what, want1.String(), got1.String())
		return
	}
	if afReqType(m1) == wire.Write && af.Fault.Kind != "local" {
		// (a concurrent transfer that is cancelled may have written one more request than it collected replies for: a round
		// trip on the connection - no File method - and the peer has seen everything the call wrote)
		if !model.lost {
			if ok, _ := xfGuardK(kase, func() { peer.Cli.Lstat("/f") }); !ok {
				fail(-1, "after-fail/settle/hang", "an LSTAT round trip on the connection did not return within 20 s", "return", "hang")
				hung = true
				return
			}
		}
		// a write-type call that broke off: below the failing chunk everything is stored, outside the call's range nothing
		// changed, inside the rest of the range each byte is the old one or the call's (later chunks may have got through)
		got := peer.Get()
		base := model.file
		data := xfPat(a1.Seed, a1.N)
		start := window[1] - int64(a1.N)
		bad := int64(-1)
		if int64(len(got)) < int64(len(base)) || int64(len(got)) > max(int64(len(base)), window[1]) {
			bad = int64(min(len(got), len(base)))
		}
		for i := int64(0); i < int64(len(got)) && bad < 0; i++ {
			old := byte(0)
			if i < int64(len(base)) {
				old = base[i]
			}
			if got[i] == old {
				continue
			}
			if i >= window[0] && i < window[1] && got[i] == data[i-start] {
				continue
			}
			bad = i
		}
		if bad >= 0 {
			fail(-1, "failed-"+m1+"/"+af.Fault.Kind+"/content", fmt.Sprintf("after the broken-off %s the served file is not: the prefix below the failing chunk stored, nothing changed outside the call's range (first offending byte at %d, sizes %d vs %d)", m1, bad, len(got), len(base)),
				xfShort(base), xfShort(got))
			return
		}
		model.file = got
	}
	// --- what follows ---
	for i, name := range af.Then {
		a := model.args(name, i+1, af)
		wasClosed, wasLost := model.closed, model.lost
		want := model.do(name, a)
		got, ok := call(i, name, a)
		if !ok {
			return
		}
		if i == 0 {
			mark("then-at-once=%s", name)
		}
		if !afSame(got, want) {
			key, what := "after-failed-"+lastFailed+"/"+name+"/result", fmt.Sprintf("%s after the failed %s differs from the same call on an os.File in that state (offset, content and open state as the calls so far leave them); history: %s", name, lastFailed, history(i))
			switch {
			case wasClosed:
				key, what = "after-failed-"+m1+"/after-close/"+name, fmt.Sprintf("%s after Close did not return os.ErrClosed; history: %s", name, history(i))
			case wasLost && name == "Close":
				key, what = "failed-Close/connection-gone/result", "Close on a File whose connection is gone must return an error of its own (the CLOSE request cannot be answered); history: "+history(i)
			case wasLost && afWire(name, af.FsyncExt):
				key, what = "failed-"+name+"/connection-gone/result", fmt.Sprintf("%s on a File whose connection is gone must fail; history: %s", name, history(i))
			}
			fail(i, key, what, want.String(), got.String())
			return
		}
		if wasClosed {
			continue
		}
		ctx = "after-failed-" + lastFailed + "/" + name + "/"
		if want.err != nil && want.err != io.EOF {
			lastFailed = name
			ctx = "failed-" + name + "/" + map[bool]string{true: "connection-gone", false: "by-itself"}[wasLost && afWire(name, af.FsyncExt)] + "/"
		}
		if name == "Close" {
			mark("close=%s", map[bool]string{true: "connection-gone", false: "answered"}[wasLost])
			continue
		}
		if !offsetIs(i, name) {
			return
		}
		switch afReqType(name) {
		case wire.Write, wire.Fsetstat:
			if !contentIs(i, name) {
				return
			}
		}
	}
	// --- the wire: one CLOSE, nothing naming the handle after it ---
	if !closeCalled {
		return
	}
	if !model.lost {
		// a round trip: everything written before it has arrived
		if ok, _ := xfGuardK(kase, func() { peer.Cli.Lstat("/f") }); !ok {
			fail(len(af.Then), "after-failed-"+m1+"/settle/hang", "an LSTAT round trip on the connection did not return within 20 s after the File was closed", "return", "hang")
			hold.drop()
			return
		}
	}
	ncl, stale := 0, ""
	for i, q := range peer.Log() {
		if q.Typ == wire.Close {
			ncl++
		}
		if q.Stale && stale == "" {
			stale = fmt.Sprintf("request #%d (%s)", i, xfReqName(q.Typ))
		}
	}
	if ncl > 1 || (ncl != 1 && !model.lost) {
		exp := "1"
		if model.lost {
			exp = "at most 1 (the connection was cut)"
		}
		fail(len(af.Then), "after-failed-"+m1+"/close-count", "not exactly one CLOSE request was sent for the File; history: "+history(len(af.Then)), exp, ncl)
	}
	if stale != "" {
		fail(len(af.Then), "after-failed-"+m1+"/use-after-close", "a request naming the closed handle reached the peer after the CLOSE; history: "+history(len(af.Then)), "none", stale)
	}
	return
}

// ---------- generation ----------

// afSizes: the served file and the length of the data calls for an option set: every read of the failing call lies inside
// the file, a transfer of three packets has a short last one.
func afFileLen(mp int) int { return 4*mp + 3 }

// afTail is the methods that follow the failing call: m2 first, then every other method once (rotated by k), Close, and
// every method once more (rotated) after it.
func afTail(m2 string, k int) []string {
	if m2 == "Close" {
		out := []string{"Close"}
		for i := range afThen {
			out = append(out, afThen[(i+k)%len(afThen)])
		}
		return out
	}
	out := []string{m2}
	n := len(afThen)
	for i := 0; i < n; i++ {
		if name := afThen[(i+k)%n]; name != m2 && name != "Close" {
			out = append(out, name)
		}
	}
	out = append(out, "Close")
	for i := 0; i < n; i++ {
		out = append(out, afThen[(i+2*k+1)%n])
	}
	return out
}

// xfGenAfterFail writes the case (m1, m2) number k of an option set.
func xfGenAfterFail(cfg xfCfg, ext bool, m1, m2 string, fault xfAFault, k int) xfSeqCase {
	mp := cfg.MP
	af := &xfAfterFail{M1: m1, Fault: fault, FsyncExt: ext, Pre: []string{"seek", "", "read", "write", "seek"}[k%5],
		N: []int{2*mp + 1, mp, 2*mp + 1, 3 * mp}[k%4], Off: int64([]int{1, mp, mp + 1}[k%3])}
	if afIsData(m1) {
		if fault.K > 0 || m1 == "WriteTo" {
			af.N = 2*mp + 1
		}
	}
	af.Then = afTail(m2, k)
	return xfSeqCase{Srv: xfSrvSpec{Kind: "peer"}, Cfg: cfg, FileLen: afFileLen(mp), Window: 1, After: af, Tag: "after-fail"}
}

// afChunks: how many requests of its own type the failing call of the case sends when nothing fails.
func afChunks(cfg xfCfg, m1 string, n int) int {
	if !afIsData(m1) {
		return 1
	}
	if m1 == "WriteTo" {
		return 3 // (at least: the file is longer than three packets beyond any start offset of a case)
	}
	return (n + cfg.MP - 1) / cfg.MP
}

// xfShrinkAfterFail drops calls of the history while the same key still fails.
func xfShrinkAfterFail(sc xfSeqCase, key string, at int, run func(xfSeqCase) []xfSeqFailure) xfSeqCase {
	has := func(t xfSeqCase) bool {
		for _, f := range run(t) {
			if f.Key == key {
				return true
			}
		}
		return false
	}
	with := func(edit func(a *xfAfterFail)) xfSeqCase {
		t := sc
		a := *sc.After
		a.Then = append([]string(nil), a.Then...)
		edit(&a)
		t.After = &a
		return t
	}
	if at >= 0 && at+1 < len(sc.After.Then) {
		// nothing after the call that disagreed - but the File is closed in the end
		t := with(func(a *xfAfterFail) {
			a.Then = a.Then[:at+1]
			closed := false
			for _, n := range a.Then {
				closed = closed || n == "Close"
			}
			if !closed {
				a.Then = append(a.Then, "Close")
			}
		})
		if has(t) {
			sc = t
		}
	}
	for j := len(sc.After.Then) - 2; j >= 0; j-- {
		if j >= len(sc.After.Then)-1 {
			continue
		}
		t := with(func(a *xfAfterFail) { a.Then = append(a.Then[:j], a.Then[j+1:]...) })
		if has(t) {
			sc = t
		}
	}
	if sc.After.Pre != "" {
		if t := with(func(a *xfAfterFail) { a.Pre = "" }); has(t) {
			sc = t
		}
	}
	return sc
}

// ---------- the part of the check ----------

const afHangLimit = 2 // after this many hangs behind one failing method the remaining histories in which it fails are not run (each hang is reported)

// afFailingCalls lists the methods that fail in the history of the case: the failing call itself and, once the
// connection is cut, every call that needs the server.
func afFailingCalls(sc xfSeqCase) []string {
	af := sc.After
	out := []string{af.M1}
	if af.Fault.Kind == "cut" {
		for _, n := range af.Then {
			if n == "Close" {
				break
			}
			if afWire(n, af.FsyncExt) {
				out = append(out, n)
			}
		}
	}
	return out
}

// afBlamed: the method a hang key after-failed-<m>/<call>/hang names.
func afBlamed(key string) string {
	k := strings.TrimPrefix(strings.TrimPrefix(key, "after-"), "failed-")
	if i := strings.IndexByte(k, '/'); i >= 0 {
		return k[:i]
	}
	return k
}

func xfCheckAfterFail(c *lib.Ctx, res *xfRes, report func(sc xfSeqCase, fs []xfSeqFailure), rot int) {
	thorough := c.Tier == "thorough"
	type job struct {
		m1    string
		cfg   xfCfg
		ext   bool
		cases []xfSeqCase
	}
	var jobs []job
	halves := 2
	if thorough {
		halves = 6
	}
	mps := []int{2, 3, 4, 7, 1, 2, 3, 32768}
	for i1, m1 := range afFailing {
		for h := 0; h < halves; h++ {
			t := i1 + h*3 + rot
			cfg := xfCfg{MP: mps[(i1*3+h*5+rot)%len(mps)], Unchecked: t%2 == 1, Conc: []int{2, 1, 3, 64}[(i1+h+rot)%4], CR: h%2 == 0, CW: (h+i1/8+rot)%2 == 0, Fstat: (t/2)%2 == 0}
			if h >= 2 {
				cfg.CR, cfg.CW = (h/2)%2 == 0 != (h%2 == 0), h%2 == 0
			}
			ext := m1 == "Sync" && h%2 == 0 || (m1 != "Sync" && (i1+h+rot)%3 != 0)
			j := job{m1: m1, cfg: cfg, ext: ext}
			// every ordered pair (m1, m2): the pairs of m1 are dealt to its option sets in turn, the faults rotate with them
			for i2, m2 := range afThen {
				if !thorough && (i2+rot)%halves != h {
					continue
				}
				probe := xfGenAfterFail(cfg, ext, m1, m2, xfAFault{}, i1*len(afThen)+i2+rot)
				faults := afFaults(m1, cfg, ext, afChunks(cfg, m1, probe.After.N))
				fs := []xfAFault{faults[(i2*5+i1+rot+h)%len(faults)]}
				if thorough {
					fs = faults
				}
				for _, fl := range fs {
					if fl.K > 0 {
						probe.After.N = 2*cfg.MP + 1
					}
					if fl.K >= afChunks(cfg, m1, probe.After.N) {
						fl.K = 0
					}
					j.cases = append(j.cases, xfGenAfterFail(cfg, ext, m1, m2, fl, i1*len(afThen)+i2+rot))
				}
			}
			// every fault of m1 at least once, the following method rotating
			if !thorough {
				faults := afFaults(m1, cfg, ext, 3)
				for fi, fl := range faults {
					if fi%halves != h && len(faults) > 1 {
						continue
					}
					m2 := afThen[(fi*7+i1*3+rot)%len(afThen)]
					j.cases = append(j.cases, xfGenAfterFail(cfg, ext, m1, m2, fl, fi+i1+rot+1))
				}
			}
			jobs = append(jobs, j)
		}
	}
	var mu sync.Mutex
	hangs := map[string]int{}
	notRun := map[string]int{}
	var ran, pairsSeen, stopped int
	pairs := map[string]bool{}
	sampled := 0
	// Two passes: first the histories on a connection that stays, then those whose connection is cut (behind the cut
	// EVERY method that needs the server fails: what pass one has learnt about hangs keeps pass two short).
	for pass := 0; pass < 2; pass++ {
		xfParallel(len(jobs), 16, func(w, ji int) {
			j := jobs[ji]
			hold := &afHold{}
			defer hold.Close()
			class := xfProp + "/after-failed/" + j.m1
			blamed := map[string]bool{} // calls of this job hung behind these
			for _, sc := range j.cases {
				if (sc.After.Fault.Kind == "cut") != (pass == 1) {
					continue
				}
				over := ""
				mu.Lock()
				for _, n := range afFailingCalls(sc) {
					if hangs[n] >= afHangLimit || blamed[n] {
						over = n
						break
					}
				}
				if over != "" {
					notRun[over]++
				}
				mu.Unlock()
				if over != "" {
					continue
				}
				if lib.Stop(class) {
					mu.Lock()
					stopped++
					mu.Unlock()
					continue
				}
				xfInflight(w, sc)
				fs, marks := xfRunAfterFail(sc, hold)
				res.Case(sc.Text(), true)
				res.Hist(marks...)
				mu.Lock()
				ran++
				if len(sc.After.Then) > 0 {
					if p := sc.After.M1 + ">" + sc.After.Then[0]; !pairs[p] {
						pairs[p] = true
						pairsSeen++
					}
				}
				sample := sampled < 2 && len(fs) == 0
				if sample {
					sampled++
				}
				mu.Unlock()
				if sample {
					res.Sample(sc)
				}
				if len(fs) == 0 {
					continue
				}
				f0 := fs[0]
				if strings.HasSuffix(f0.Key, "/hang") {
					// (every re-run of a hanging history costs a hang deadline: cut it after the call that hung, no further shrinking)
					small := sc
					a := *sc.After
					if f0.At >= 0 && f0.At+1 < len(a.Then) {
						a.Then = append([]string(nil), a.Then[:f0.At+1]...)
					}
					small.After = &a
					report(small, fs[:1])
					mu.Lock()
					hangs[afBlamed(f0.Key)]++
					mu.Unlock()
					blamed[afBlamed(f0.Key)] = true
					continue
				}
				if strings.Contains(f0.Key, "setup") {
					report(sc, fs[:1])
					continue
				}
				small := xfShrinkAfterFail(sc, f0.Key, f0.At, func(t xfSeqCase) []xfSeqFailure { fs, _ := xfRunAfterFail(t, hold); return fs })
				var again []xfSeqFailure
				for _, f := range func() []xfSeqFailure { fs, _ := xfRunAfterFail(small, hold); return fs }() {
					if f.Key == f0.Key {
						again = append(again, f)
					}
				}
				if len(again) == 0 {
					small, again = sc, fs[:1]
				}
				report(small, again[:1])
			}
		})
	}
	res.Note("failed methods: %d histories run (a File method fails - refused with a status code, answered with a malformed reply, the connection cut, or failing by itself - then every other method, Close, and every method again); %d of the %d ordered pairs (failing method, method that follows it at once) seen",
		ran, pairsSeen, len(afFailing)*len(afThen))
	for m, n := range notRun {
		res.Note("failed methods: %d calls hung behind a failed %s (each reported); the remaining %d histories in which %s fails were not run", hangs[m], m, n, m)
	}
	if stopped > 0 {
		res.Note("failed methods: %d histories not run, the run's budgets are used up", stopped)
	}
}
