package main

// C12 — the reply to the CLOSE request itself.
//
// "After Close every method returns os.ErrClosed, exactly one close request has been sent, and no request carrying the
// closed handle is written to the wire afterwards." A server releases a handle when the CLOSE request ARRIVES; what it
// answers (a failed flush, a quota hit on close, nothing at all because the connection went away) does not bring the
// handle back. So the closed state of the File must not depend on the answer. The sequences of the other generators
// always have their CLOSE answered SSH_FX_OK; here
//
//	scripted peer: the CLOSE is answered with a failure status (codes 2..8, 1, 255, 256, 257, 2^32-1: op cl, act
//	               "refuse"), or the connection is cut instead of an answer (act "cut");
//	request server: the file object the handler handed out fails its Close() with each error value of xfHandlerErrs
//	               (act "handler"), through opens served by OpenFile and (no OpenFileWriter) by Filewrite;
//
// after a few calls that leave the offset non-zero, and then EVERY File method is called once, in a PRNG order, a second
// Close among them and one more at the end: each must answer os.ErrClosed (the os.File twin agrees), the first Close
// must have returned the server's failure, exactly one CLOSE request was sent and nothing carrying the handle after it
// (the peer marks the handle released when the CLOSE arrives: whatever still names it is reported).

import (
	"math/rand"
)

var xfCloseCodes = []uint32{4, 3, 2, 256, 5, 6, 7, 8, 255, 1, 4294967295, 257}

// xfCloseReplySeq writes one such sequence; k rotates prefix, disposition and code.
func xfCloseReplySeq(rng *rand.Rand, spec xfSrvSpec, cfg xfCfg, k int) (S int, ops []xfOp) {
	mp := cfg.MP
	S = []int{3*mp + 2, 0, 1, mp + 1}[k%4]
	reads := !(spec.Kind == "rs" && spec.NoOFW)
	switch (k / 2) % 6 {
	case 1:
		ops = append(ops, xfOp{K: "sk", Off: int64(mp) + 1}, xfOp{K: "w", N: 1, Seed: 9})
	case 2:
		if reads {
			ops = append(ops, xfOp{K: "r", N: mp + 1})
		} else {
			ops = append(ops, xfOp{K: "w", N: mp + 1, Seed: 4})
		}
	case 3:
		ops = append(ops, xfOp{K: "wa", N: 2*mp + 1, Off: 1, Seed: 77}, xfOp{K: "st"})
	case 4:
		ops = append(ops, xfOp{K: "rfc", N: 2*mp + 1, Seed: 5, Conc: 2, Src: "opaque"}, xfOp{K: "sk", Wh: 2, Off: -1})
	case 5:
		ops = append(ops, xfOp{K: "tr", N: mp}, xfOp{K: "sk", Wh: 1, Off: 2})
		if reads {
			ops = append(ops, xfOp{K: "wt"})
		}
	}
	cl := xfOp{K: "cl"}
	switch {
	case spec.Kind == "peer" && k%5 == 4:
		cl.Act = "cut"
	case spec.Kind == "peer":
		cl.Act, cl.Code = "refuse", xfCloseCodes[(k/5*4+k%5)%len(xfCloseCodes)]
	default:
		cl.Act, cl.Src = "handler", xfHandlerErrs[k%len(xfHandlerErrs)].Name
	}
	ops = append(ops, cl)
	after := []xfOp{{K: "r", N: 1}, {K: "r"}, {K: "ra", N: 2}, {K: "ra", N: mp + 1, Off: 1}, {K: "w", N: 1}, {K: "w"}, {K: "wa", N: mp + 1}, {K: "wa", N: 1, Off: int64(mp)},
		{K: "rf", N: 3, Src: "len"}, {K: "rf", N: 0, Src: "opaque"}, {K: "rf", N: 2*mp + 1, Src: "size"}, {K: "rfc", N: 2, Conc: 1, Src: "opaque"}, {K: "wt"},
		{K: "sk", Wh: 0}, {K: "sk", Wh: 1}, {K: "sk", Wh: 2}, {K: "sk", Wh: 7}, {K: "sk", Off: -1}, {K: "st"}, {K: "tr", N: 1}, {K: "tr"}, {K: "cl"},
		{K: "cm"}, {K: "co"}, {K: "sy"}}
	rng.Shuffle(len(after), func(i, j int) { after[i], after[j] = after[j], after[i] })
	return S, append(append(ops, after...), xfOp{K: "cl"})
}
