package main

// C03, scenario family "names": the LENGTH of the names a request carries, as a dimension of the wire oracle.
//
// "Each request reaches the wire as one contiguous, well-framed packet" and "every client operation returns the result
// the server produced for that very request" are statements about every request, whatever the size of its parts.  A
// request is a header (length, type, id, then the PATH or the server-chosen HANDLE, …) and, for some kinds, a payload
// (attribute block, file data) that the package hands to the transport separately.  Paths may be as long as the server's
// PATH_MAX (and the client sets no limit at all), handles are opaque strings of up to 256 bytes chosen by the SERVER —
// this package's own servers hand out 1–2 byte handles, others (OpenSSH: 4, proftpd: 8/16, commercial ones: 32…256
// bytes, often binary) do not.  So the family enumerates
//
//	every request kind of the client API
//	  × the length of its path(s):      1 … 300 contiguous (thorough 1 … 4200), 2^k-1 / 2^k / 2^k+1 for k = 9 … 16
//	  × the length of its handle:       1 … 256 contiguous (the scripted peer hands out whatever the case says)
//	  × the size of its payload:        0, 1, 63, 64, 65, 255, 256, 257, MaxPacket, MaxPacket+1 bytes of file data; the
//	                                    4 / 8 byte attribute blocks of chmod / chown / chtimes / truncate; extended
//	                                    attribute blocks of 15 … 300 bytes
//	  × printable names with '/'-separated components / names of arbitrary bytes
//
// dealt over sessions of 1, 3, 8 or 16 callers sharing one Client, against a peer that builds every reply from the
// content of the request it answers and answers the requests outstanding at a quiescent moment in order, in a PRNG
// permutation, or reversed.
//
// Oracles (direct):
//   - the client→server byte stream, recorded by a transport that knows frame boundaries from the bytes alone, splits
//     into whole frames with no tail;
//   - every frame is, byte for byte (the id aside), a request that the INDEPENDENT codec (harness/wire) builds for the
//     arguments of some call, and every request of every completed call is on the wire exactly once;
//   - every call returns within the hang deadline and returns the result built for its own request (the reply is a
//     function of the request's bytes: sizes, names, verdicts are hashes of them);
//   - ids of requests outstanding at the same time are pairwise distinct.
//
// A failure that can be attributed to one call (the call that hung, the call whose request is torn or differs) is
// re-run alone in a fresh single-caller session; if it fails the same way, that one-call session is the failure's input.

import (
	"bytes"
	"encoding/binary"
	"fmt"
	"io"
	"math/rand"
	"os"
	"sort"
	"strings"
	"sync"
	"time"

	"github.com/pkg/sftp"

	"verifharness/lib"
	"verifharness/wire"
)

// c03NameCall is one API call of a session.
type c03NameCall struct {
	Op   string `json:"op"`
	L    int    `json:"len"`              // bytes of the path (path operations) / of the handle the peer hands out (handle operations)
	L2   int    `json:"len2,omitempty"`   // bytes of the second path (rename, symlink, link)
	Size int    `json:"size,omitempty"`   // bytes of file data written / read, or of extended attribute data
	N    int    `json:"n"`                // makes the names of the call unique within its session
	Bin  bool   `json:"binary,omitempty"` // names of arbitrary bytes (else printable, paths in components of at most 199 bytes)
}

const c03Digits = "0123456789ABCDEFGHIJKLMNOPQRSTUVWXYZabcdefghijklmnopqrstuvwxyz"

// c03Name is the name of L bytes with number n: its first (up to four) bytes spell n, the rest is a filler that is a
// function of (L, n, salt).
func c03Name(L, n int, salt byte, bin bool) string {
	b := make([]byte, L)
	x := n
	s := uint64(n)*0x9E3779B97F4A7C15 ^ uint64(L)<<32 ^ uint64(salt)*0x100000001B3
	for i := range b {
		if i < 4 {
			b[i] = c03Digits[x%62]
			x /= 62
			continue
		}
		s ^= s << 13
		s ^= s >> 7
		s ^= s << 17
		switch {
		case bin:
			b[i] = byte(s >> 24)
		case i%200 == 199 && i+1 < L:
			b[i] = '/'
		default:
			b[i] = c03Digits[(s>>24)%62]
		}
	}
	return string(b)
}

// c03Hash is what the peer's replies are functions of: the request's type and everything after its id.
func c03Hash(typ byte, afterID []byte) uint64 {
	h := uint64(14695981039346656037)
	h = (h ^ uint64(typ)) * 1099511628211
	for _, c := range afterID {
		h = (h ^ uint64(c)) * 1099511628211
	}
	return h
}

func c03FrameHash(frame []byte) uint64 { return c03Hash(frame[4], frame[9:]) } // frame = length, type, id, rest

func c03Verdict(h uint64) (code uint32, msg string) {
	if h%3 == 2 {
		return wire.Failure, fmt.Sprintf("v%016x", h)
	}
	return wire.OK, ""
}

func c03VerdictWant(h uint64) string {
	if code, msg := c03Verdict(h); code != wire.OK {
		return "failure " + msg
	}
	return "nil"
}

func c03VerdictGot(err error) string {
	if err == nil {
		return "nil"
	}
	if code, msg, _, ok := sftp.VerifStatusFields(err); ok && code == wire.Failure {
		return "failure " + msg
	}
	return "another error: " + cliTrim(err.Error(), 120)
}

// ---------- the peer ----------

type c03NamesPeer struct {
	mu       sync.Mutex
	handles  map[string]string // path of an OPEN / OPENDIR → the handle the case wants handed out
	dirReads map[string]int
}

func (s *c03NamesPeer) register(path, handle string) {
	s.mu.Lock()
	s.handles[path] = handle
	s.mu.Unlock()
}

func c03DefaultHandle(h uint64) string { return fmt.Sprintf("h:%016x", h) }

// reply builds the reply to a request from the request's bytes alone.
func (s *c03NamesPeer) reply(p wire.Pkt, q cliReq) []byte {
	id := q.ID
	h := c03Hash(p.Typ, p.Body[4:])
	verdict := func() []byte {
		code, msg := c03Verdict(h)
		return wire.StatusFrame(id, code, msg)
	}
	switch q.Typ {
	case wire.Open, wire.Opendir:
		s.mu.Lock()
		hd, ok := s.handles[q.Path]
		s.mu.Unlock()
		if !ok {
			hd = c03DefaultHandle(h)
		}
		return wire.HandleFrame(id, hd)
	case wire.Close, wire.Remove:
		return wire.StatusFrame(id, wire.OK, "")
	case wire.Stat, wire.Lstat, wire.Fstat:
		return wire.AttrsFrame(id, wire.St{Flags: wire.ASize | wire.APerm, Size: h & (1<<40 - 1), Perm: 0o100644})
	case wire.Setstat, wire.Fsetstat, wire.Mkdir, wire.Rmdir, wire.Rename, wire.Symlink:
		return verdict()
	case wire.Readlink, wire.Realpath:
		return wire.NameFrame(id, []wire.NameEnt{{Name: fmt.Sprintf("t%016x", h), Long: "x"}})
	case wire.Readdir:
		s.mu.Lock()
		s.dirReads[q.Handle]++
		n := s.dirReads[q.Handle]
		if n >= 2 {
			delete(s.dirReads, q.Handle)
		}
		s.mu.Unlock()
		if n == 1 {
			return wire.NameFrame(id, []wire.NameEnt{
				{Name: fmt.Sprintf("e%016x", h), Long: "l", A: wire.St{Flags: wire.ASize, Size: h & 0xffff}},
				{Name: "second", Long: "l", A: wire.St{Flags: wire.ASize, Size: 2}}})
		}
		return wire.StatusFrame(id, wire.EOF, "EOF")
	case wire.Read:
		return wire.DataFrame(id, cliPatternBytes(q.Handle, q.Off, int(q.Len)))
	case wire.Write:
		if !bytes.Equal(q.Data, cliPatternBytes(q.Handle, q.Off, len(q.Data))) {
			return wire.StatusFrame(id, wire.Failure, fmt.Sprintf("payload of the write at %d is not what any caller sent", q.Off))
		}
		return wire.StatusFrame(id, wire.OK, "")
	case wire.Extended:
		if q.Ext == "statvfs@openssh.com" {
			b := wire.B{}.U32(id).U64(h)
			for i := 0; i < 10; i++ {
				b = b.U64(uint64(i))
			}
			return wire.Frame(wire.ExtendedReply, b)
		}
		return verdict()
	}
	return wire.StatusFrame(id, wire.OpUnsupported, "unsupported")
}

// ---------- the operations ----------

type c03NameEnv struct {
	client *sftp.Client
	peer   *c03NamesPeer
	mp     int
	mu     sync.Mutex
	exp    [][]byte // the requests of the call as the independent codec builds them (id 0), in the order issued
}

func (e *c03NameEnv) expect(typ byte, body wire.B) []byte {
	f := wire.Req(typ, 0, body)
	e.mu.Lock()
	e.exp = append(e.exp, f)
	e.mu.Unlock()
	return f
}

func (e *c03NameEnv) expected() [][]byte {
	e.mu.Lock()
	defer e.mu.Unlock()
	return append([][]byte(nil), e.exp...)
}

func (e *c03NameEnv) expectWrites(h string, off uint64, n int) {
	if n == 0 {
		e.expect(wire.Write, wire.B{}.Str(h).U64(off).Bytes(nil))
	}
	for done := 0; done < n; done += e.mp {
		l := min(e.mp, n-done)
		e.expect(wire.Write, wire.B{}.Str(h).U64(off+uint64(done)).Bytes(cliPatternBytes(h, off+uint64(done), l)))
	}
}

func c03ExtData(n int) string { return strings.Repeat("x", n) }

// c03NameOps: every operation of the family with the payload sizes it is crossed with (nil: none); "mp" stands for
// MaxPacket of the session.  Kind: path | handle.
type c03NameOp struct {
	Name  string
	Group string // hang class and session group
	Kind  string
	Two   bool // takes a second path
}

var c03NameOps = []c03NameOp{
	{"stat", "path", "path", false}, {"lstat", "path", "path", false}, {"readlink", "path", "path", false}, {"realpath", "path", "path", false},
	{"mkdir", "path", "path", false}, {"rmdir", "path", "path", false}, {"remove", "path", "path", false}, {"statvfs", "path", "path", false},
	{"rename", "path", "path", true}, {"posixrename", "path", "path", true}, {"symlink", "path", "path", true}, {"link", "path", "path", true},
	{"open", "open", "path", false}, {"create", "open", "path", false}, {"openfile", "open", "path", false}, {"readdir", "open", "path", false},
	{"chmod", "setstat", "path", false}, {"chown", "setstat", "path", false}, {"chtimes", "setstat", "path", false}, {"truncate", "setstat", "path", false},
	{"setext", "setstat", "path", false},
	{"fstat", "handle", "handle", false}, {"readat", "handle", "handle", false}, {"fsync", "handle", "handle", false}, {"dirhandle", "handle", "handle", false},
	{"fchmod", "fsetstat", "handle", false}, {"fchown", "fsetstat", "handle", false}, {"ftruncate", "fsetstat", "handle", false}, {"fsetext", "fsetstat", "handle", false},
	{"writeat", "write", "handle", false}, {"write", "write", "handle", false}, {"readfrom", "write", "handle", false},
}

func c03NameOpByName(name string) *c03NameOp {
	for i := range c03NameOps {
		if c03NameOps[i].Name == name {
			return &c03NameOps[i]
		}
	}
	return nil
}

// c03NameDo runs one call: it notes the requests the call implies (built with the independent codec) and returns what
// the call returned next to what the peer's reply function yields for exactly those requests.
func c03NameDo(e *c03NameEnv, cl c03NameCall) (got, want string, err error) {
	c := e.client
	op := c03NameOpByName(cl.Op)
	if op == nil {
		return "", "", fmt.Errorf("tie: unknown operation %q", cl.Op)
	}
	hs := func(f []byte) uint64 { return c03FrameHash(f) }
	if op.Kind == "path" {
		p := c03Name(cl.L, cl.N, 'p', cl.Bin)
		p2 := c03Name(max(cl.L2, 1), cl.N, 'q', cl.Bin)
		attrsWant := func(f []byte) string { return fmt.Sprint(hs(f) & (1<<40 - 1)) }
		switch cl.Op {
		case "stat":
			f := e.expect(wire.Stat, wire.B{}.Str(p))
			fi, err := c.Stat(p)
			if err != nil {
				return "", "", err
			}
			return fmt.Sprint(fi.Size()), attrsWant(f), nil
		case "lstat":
			f := e.expect(wire.Lstat, wire.B{}.Str(p))
			fi, err := c.Lstat(p)
			if err != nil {
				return "", "", err
			}
			return fmt.Sprint(fi.Size()), attrsWant(f), nil
		case "readlink":
			f := e.expect(wire.Readlink, wire.B{}.Str(p))
			s, err := c.ReadLink(p)
			return s, fmt.Sprintf("t%016x", hs(f)), err
		case "realpath":
			f := e.expect(wire.Realpath, wire.B{}.Str(p))
			s, err := c.RealPath(p)
			return s, fmt.Sprintf("t%016x", hs(f)), err
		case "mkdir":
			f := e.expect(wire.Mkdir, wire.B{}.Str(p).U32(0))
			return c03VerdictGot(c.Mkdir(p)), c03VerdictWant(hs(f)), nil
		case "rmdir":
			f := e.expect(wire.Rmdir, wire.B{}.Str(p))
			return c03VerdictGot(c.RemoveDirectory(p)), c03VerdictWant(hs(f)), nil
		case "remove":
			e.expect(wire.Remove, wire.B{}.Str(p))
			return "", "", c.Remove(p)
		case "statvfs":
			f := e.expect(wire.Extended, wire.B{}.Str("statvfs@openssh.com").Str(p))
			v, err := c.StatVFS(p)
			if err != nil {
				return "", "", err
			}
			return fmt.Sprint(v.Bsize), fmt.Sprint(hs(f)), nil
		case "rename":
			f := e.expect(wire.Rename, wire.B{}.Str(p).Str(p2))
			return c03VerdictGot(c.Rename(p, p2)), c03VerdictWant(hs(f)), nil
		case "posixrename":
			f := e.expect(wire.Extended, wire.B{}.Str("posix-rename@openssh.com").Str(p).Str(p2))
			return c03VerdictGot(c.PosixRename(p, p2)), c03VerdictWant(hs(f)), nil
		case "symlink":
			f := e.expect(wire.Symlink, wire.B{}.Str(p).Str(p2)) // target, then link
			return c03VerdictGot(c.Symlink(p, p2)), c03VerdictWant(hs(f)), nil
		case "link":
			f := e.expect(wire.Extended, wire.B{}.Str("hardlink@openssh.com").Str(p).Str(p2))
			return c03VerdictGot(c.Link(p, p2)), c03VerdictWant(hs(f)), nil
		case "open", "create", "openfile":
			var pf uint32 = wire.FRead
			open := func() (*sftp.File, error) { return c.Open(p) }
			switch cl.Op {
			case "create":
				pf = wire.FRead | wire.FWrite | wire.FCreat | wire.FTrunc
				open = func() (*sftp.File, error) { return c.Create(p) }
			case "openfile":
				pf = wire.FWrite | wire.FAppend | wire.FCreat | wire.FExcl
				open = func() (*sftp.File, error) { return c.OpenFile(p, os.O_WRONLY|os.O_APPEND|os.O_CREATE|os.O_EXCL) }
			}
			f := e.expect(wire.Open, wire.B{}.Str(p).U32(pf).U32(0))
			hd := c03DefaultHandle(hs(f))
			fl, err := open()
			if err != nil {
				return "", "", err
			}
			// the handle is not visible through the API: the FSTAT on it is (its reply is a function of the handle)
			f2 := e.expect(wire.Fstat, wire.B{}.Str(hd))
			fi, err := fl.Stat()
			e.expect(wire.Close, wire.B{}.Str(hd))
			cerr := fl.Close()
			if err != nil {
				return "", "", err
			}
			return fmt.Sprint(fi.Size()), attrsWant(f2), cerr
		case "readdir":
			f := e.expect(wire.Opendir, wire.B{}.Str(p))
			hd := c03DefaultHandle(hs(f))
			f2 := e.expect(wire.Readdir, wire.B{}.Str(hd))
			e.expect(wire.Readdir, wire.B{}.Str(hd))
			e.expect(wire.Close, wire.B{}.Str(hd))
			fis, err := c.ReadDir(p)
			if err != nil {
				return "", "", err
			}
			for _, fi := range fis {
				got += fmt.Sprintf("%s:%d ", fi.Name(), fi.Size())
			}
			return got, fmt.Sprintf("e%016x:%d second:2 ", hs(f2), hs(f2)&0xffff), nil
		case "chmod":
			f := e.expect(wire.Setstat, wire.B{}.Str(p).Raw(wire.St{Flags: wire.APerm, Perm: 0o640}.Block()))
			return c03VerdictGot(c.Chmod(p, 0o640)), c03VerdictWant(hs(f)), nil
		case "chown":
			f := e.expect(wire.Setstat, wire.B{}.Str(p).Raw(wire.St{Flags: wire.AUIDGID, UID: 11, GID: 22}.Block()))
			return c03VerdictGot(c.Chown(p, 11, 22)), c03VerdictWant(hs(f)), nil
		case "chtimes":
			f := e.expect(wire.Setstat, wire.B{}.Str(p).Raw(wire.St{Flags: wire.ATime, Atime: 1000, Mtime: 2000}.Block()))
			return c03VerdictGot(c.Chtimes(p, time.Unix(1000, 0), time.Unix(2000, 0))), c03VerdictWant(hs(f)), nil
		case "truncate":
			sz := uint64(12345 + cl.N)
			f := e.expect(wire.Setstat, wire.B{}.Str(p).Raw(wire.St{Flags: wire.ASize, Size: sz}.Block()))
			return c03VerdictGot(c.Truncate(p, int64(sz))), c03VerdictWant(hs(f)), nil
		case "setext":
			d := c03ExtData(cl.Size)
			f := e.expect(wire.Setstat, wire.B{}.Str(p).Raw(wire.St{Flags: wire.AExt, Ext: [][2]string{{"a@b", d}}}.Block()))
			return c03VerdictGot(c.SetExtendedData(p, []sftp.StatExtended{{ExtType: "a@b", ExtData: d}})), c03VerdictWant(hs(f)), nil
		}
		return "", "", fmt.Errorf("tie: unknown path operation %q", cl.Op)
	}

	// handle operations: the peer hands out a handle of cl.L bytes for this call's own OPEN / OPENDIR
	hd := c03Name(cl.L, cl.N, 'h', cl.Bin)
	hp := fmt.Sprintf("hf%d", cl.N)
	e.peer.register(hp, hd)
	if cl.Op == "dirhandle" {
		e.expect(wire.Opendir, wire.B{}.Str(hp))
		f2 := e.expect(wire.Readdir, wire.B{}.Str(hd))
		e.expect(wire.Readdir, wire.B{}.Str(hd))
		e.expect(wire.Close, wire.B{}.Str(hd))
		fis, err := c.ReadDir(hp)
		if err != nil {
			return "", "", err
		}
		for _, fi := range fis {
			got += fmt.Sprintf("%s:%d ", fi.Name(), fi.Size())
		}
		return got, fmt.Sprintf("e%016x:%d second:2 ", hs(f2), hs(f2)&0xffff), nil
	}
	e.expect(wire.Open, wire.B{}.Str(hp).U32(wire.FRead|wire.FWrite).U32(0))
	fl, err := c.OpenFile(hp, os.O_RDWR)
	if err != nil {
		return "", "", err
	}
	off := uint64(cl.N+1) * c03Stride
	n := cl.Size
	switch cl.Op {
	case "fstat":
		f := e.expect(wire.Fstat, wire.B{}.Str(hd))
		var fi os.FileInfo
		if fi, err = fl.Stat(); err == nil {
			got, want = fmt.Sprint(fi.Size()), fmt.Sprint(hs(f)&(1<<40-1))
		}
	case "readat":
		n = max(n, 1)
		for done := 0; done < n; done += e.mp {
			e.expect(wire.Read, wire.B{}.Str(hd).U64(off+uint64(done)).U32(uint32(min(e.mp, n-done))))
		}
		b := make([]byte, n)
		var m int
		m, err = fl.ReadAt(b, int64(off))
		if err == nil && (m != n || !bytes.Equal(b, cliPatternBytes(hd, off, n))) {
			got, want = fmt.Sprintf("n=%d, data of another request", m), fmt.Sprintf("n=%d, the pattern of this handle and offset", n)
		}
	case "fsync":
		f := e.expect(wire.Extended, wire.B{}.Str("fsync@openssh.com").Str(hd))
		got, want = c03VerdictGot(fl.Sync()), c03VerdictWant(hs(f))
	case "fchmod":
		f := e.expect(wire.Fsetstat, wire.B{}.Str(hd).Raw(wire.St{Flags: wire.APerm, Perm: 0o604}.Block()))
		got, want = c03VerdictGot(fl.Chmod(0o604)), c03VerdictWant(hs(f))
	case "fchown":
		f := e.expect(wire.Fsetstat, wire.B{}.Str(hd).Raw(wire.St{Flags: wire.AUIDGID, UID: 33, GID: 44}.Block()))
		got, want = c03VerdictGot(fl.Chown(33, 44)), c03VerdictWant(hs(f))
	case "ftruncate":
		sz := uint64(777 + cl.N)
		f := e.expect(wire.Fsetstat, wire.B{}.Str(hd).Raw(wire.St{Flags: wire.ASize, Size: sz}.Block()))
		got, want = c03VerdictGot(fl.Truncate(int64(sz))), c03VerdictWant(hs(f))
	case "fsetext":
		d := c03ExtData(cl.Size)
		f := e.expect(wire.Fsetstat, wire.B{}.Str(hd).Raw(wire.St{Flags: wire.AExt, Ext: [][2]string{{"a@b", d}}}.Block()))
		got, want = c03VerdictGot(fl.SetExtendedData("", []sftp.StatExtended{{ExtType: "a@b", ExtData: d}})), c03VerdictWant(hs(f))
	case "writeat":
		e.expectWrites(hd, off, n)
		var m int
		m, err = fl.WriteAt(cliPatternBytes(hd, off, n), int64(off))
		got, want = fmt.Sprint(m), fmt.Sprint(n)
	case "write":
		n = max(n, 1)
		if _, err = fl.Seek(int64(off), io.SeekStart); err == nil {
			e.expectWrites(hd, off, n)
			var m int
			m, err = fl.Write(cliPatternBytes(hd, off, n))
			got, want = fmt.Sprint(m), fmt.Sprint(n)
		}
	case "readfrom":
		n = max(n, 1)
		if _, err = fl.Seek(int64(off), io.SeekStart); err == nil {
			e.expectWrites(hd, off, n)
			var m int64
			m, err = fl.ReadFrom(cliSrc{bytes.NewReader(cliPatternBytes(hd, off, n))})
			got, want = fmt.Sprint(m), fmt.Sprint(n)
		}
	default:
		err = fmt.Errorf("tie: unknown handle operation %q", cl.Op)
	}
	e.expect(wire.Close, wire.B{}.Str(hd))
	if cerr := fl.Close(); err == nil {
		err = cerr
	}
	return got, want, err
}

// ---------- one session ----------

func c03ZeroID(typ byte, body []byte) string {
	b := make([]byte, 1+len(body))
	b[0] = typ
	copy(b[1:], body)
	for i := 1; i < 5 && i < len(b); i++ {
		b[i] = 0
	}
	return string(b)
}

func c03LenBucket(n int) string {
	switch {
	case n <= 1:
		return "0000001"
	case n < 16:
		return "0000002-15"
	case n < 128:
		return "0000016-127"
	case n < 216:
		return "0000128-215"
	case n < 256:
		return "0000216-255"
	case n == 256:
		return "0000256"
	case n <= 300:
		return "0000257-300"
	case n < 4096:
		return "0000301-4095"
	case n == 4096:
		return "0004096"
	case n < 65535:
		return "0004097-65534"
	}
	return "0065535-"
}

func c03SizeBucket(n, mp int) string {
	switch {
	case n == mp:
		return "MaxPacket"
	case n == mp+1:
		return "MaxPacket+1"
	case n <= 1:
		return fmt.Sprintf("%05d", n)
	case n < 63:
		return "00002-62"
	case n <= 65:
		return fmt.Sprintf("%05d", n)
	case n < 255:
		return "00066-254"
	case n <= 257:
		return fmt.Sprintf("%05d", n)
	}
	return "00258-"
}

// c03NamesSession runs the calls of cs in one session.  at[i] is the index of the call failure i is attributed to (-1: none).
func c03NamesSession(cs c03Case) (res c03Res, at []int) {
	res.Batches = map[string]int{}
	res.OpHist = map[string]int{}
	var fmu sync.Mutex
	fail := func(ci int, key, what string, act any) {
		fmu.Lock()
		res.Fails = append(res.Fails, c20Fail{key, what, act})
		at = append(at, ci)
		fmu.Unlock()
	}
	k := cliCase.Load()
	mp := cs.MaxPacket
	if mp <= 0 {
		mp = 1 << 15
	}
	opts := []sftp.ClientOption{sftp.MaxPacketUnchecked(mp)}
	if cs.ConcW {
		opts = append(opts, sftp.UseConcurrentWrites(true))
	}
	callers := max(cs.Callers, 1)

	g := newC03Gate(cs.Yield, false)
	s2c := newIOPipe(1 << 20)
	rd := &c03Reader{p: s2c}
	srv := &c03NamesPeer{handles: map[string]string{}, dirReads: map[string]int{}}

	// ---- the peer ----
	type outReq struct {
		p wire.Pkt
		q cliReq
	}
	prng := rand.New(rand.NewSource(cs.Seed ^ 0x5bd1e995))
	peerDone := make(chan struct{})
	go func() {
		defer close(peerDone)
		var out []outReq
		byID := map[uint32]bool{}
		add := func(f c03GFrame) {
			if f.idx == 0 {
				if f.pkt.Typ != wire.Init {
					fail(-1, "framing/first-frame", fmt.Sprintf("the first frame is a %s, not INIT", c03Typ(f.pkt.Typ)), nil)
				}
				s2c.Write(cliVersion())
				return
			}
			q, derr := cliDecodeReq(f.pkt)
			if derr != nil {
				fail(-1, "framing/undecodable-request", fmt.Sprintf("frame %d of the client→server stream does not decode as a request: %v", f.idx, derr), lib.Hex(append([]byte{f.pkt.Typ}, f.pkt.Body[:min(len(f.pkt.Body), 64)]...)))
				if len(f.pkt.Body) >= 4 {
					s2c.Write(wire.StatusFrame(f.pkt.ID(), wire.BadMessage, "undecodable request"))
				}
				return
			}
			if byID[q.ID] {
				fail(-1, "id-duplicate-in-flight", fmt.Sprintf("request id %d is used by two requests outstanding at the same time", q.ID), c03Typ(q.Typ))
			}
			byID[q.ID] = true
			out = append(out, outReq{f.pkt, q})
			if len(out) > res.MaxOut {
				res.MaxOut = len(out)
			}
		}
		answer := func(idxs []int) {
			if (len(idxs) > 1 && !sort.IntsAreSorted(idxs)) || (len(idxs) == 1 && idxs[0] != 0) {
				res.Reordered++
			}
			drop := map[int]bool{}
			for _, i := range idxs {
				delete(byID, out[i].q.ID)
				s2c.Write(srv.reply(out[i].p, out[i].q))
				drop[i] = true
			}
			rest := out[:0]
			for i, o := range out {
				if !drop[i] {
					rest = append(rest, o)
				}
			}
			out = rest
		}
		quiet := 150 * time.Microsecond
		for {
			if len(out) == 0 {
				f, ok := <-g.frames
				if !ok {
					return
				}
				add(f)
				if len(out) == 0 {
					continue
				}
			}
			closed := false
			if callers > 1 && cs.Mode != "fifo" {
				// gather until no request has arrived for a while: then every caller is blocked on its reply
				t := time.NewTimer(quiet)
				for gathering := true; gathering; {
					select {
					case f, ok := <-g.frames:
						if !ok {
							closed, gathering = true, false
							break
						}
						add(f)
						if !t.Stop() {
							select {
							case <-t.C:
							default:
							}
						}
						t.Reset(quiet)
					case <-t.C:
						gathering = false
					}
				}
				t.Stop()
			}
			if len(out) > 0 {
				var idxs []int
				switch cs.Mode {
				case "reverse":
					for i := len(out) - 1; i >= 0; i-- {
						idxs = append(idxs, i)
					}
				case "perm":
					idxs = prng.Perm(len(out))[:1+prng.Intn(len(out))]
				default:
					for i := range out {
						idxs = append(idxs, i)
					}
				}
				answer(idxs)
			}
			if closed {
				return
			}
		}
	}()
	shutdown := func() {
		s2c.Close()
		g.mu.Lock()
		if !g.closed { // (a hang: the package never closed the transport) let the peer goroutine end
			g.closed = true
			close(g.frames)
			close(g.entered)
		}
		g.mu.Unlock()
	}

	type cres struct {
		c   *sftp.Client
		err error
	}
	cch := make(chan cres, 1)
	go func() {
		c, err := sftp.NewClientPipe(rd, g, opts...)
		cch <- cres{c, err}
	}()
	cr, ok := lib.WaitCase(k, cliDeadline, cch)
	if !ok || cr.err != nil {
		fail(-1, "tie/new-client", fmt.Sprint("NewClientPipe: ", cr.err, " (returned: ", ok, ")"), nil)
		res.ExitNow = true
		shutdown()
		return
	}
	client := cr.c

	// ---- the callers ----
	envs := make([]*c03NameEnv, len(cs.Calls))
	state := make([]byte, len(cs.Calls)) // 0 not run | 1 completed | 2 hung
	var smu sync.Mutex
	hung := false
	var hungOnce sync.Once
	hungCh := make(chan struct{})
	var wg sync.WaitGroup
	for c := 0; c < callers; c++ {
		wg.Add(1)
		go func(c int) {
			defer wg.Done()
			for i := c; i < len(cs.Calls); i += callers {
				smu.Lock()
				stop := hung
				smu.Unlock()
				if stop {
					return
				}
				cl := cs.Calls[i]
				e := &c03NameEnv{client: client, peer: srv, mp: mp}
				smu.Lock()
				envs[i] = e
				smu.Unlock()
				var got, want string
				var err error
				// one hang deadline per session: the caller whose deadline passes first charges it and ends the session;
				// the calls of the other callers get a moment more and are then given up without a charge
				done := make(chan struct{})
				go func() { defer close(done); got, want, err = c03NameDo(e, cl) }()
				returned := false
				select {
				case <-done:
					returned = true
				case <-k.After(cliDeadline):
					first := false
					hungOnce.Do(func() { first = true; k.Fired(); close(hungCh) })
					if !first {
						select {
						case <-done:
							returned = true
						default:
						}
					}
				case <-hungCh:
					t := time.NewTimer(500 * time.Millisecond)
					select {
					case <-done:
						returned = true
					case <-t.C:
					}
					t.Stop()
				}
				if !returned {
					g.mu.Lock()
					where := g.where()
					inWrite := g.inWrite
					g.mu.Unlock()
					smu.Lock()
					state[i], hung = 2, true
					smu.Unlock()
					key := "hang/names/" + cl.Op
					if callers > 1 {
						key = "hang/names/in-a-concurrent-session" // (c03RunNames: the operation's own key if the call hangs alone as well)
					}
					fail(i, key, fmt.Sprintf("%s with a %d byte %s (payload size %d) did not return within the hang deadline although the peer answers every whole request it receives; the client→server stream is %s, %d Write calls in progress",
						cl.Op, cl.L, c03NameOpByName(cl.Op).Kind, cl.Size, where, inWrite), map[string]any{"call": cl, "goroutines": cliDescribe(cliGoroutines2())})
					return
				}
				smu.Lock()
				state[i] = 1
				res.Calls++
				res.OpHist[cl.Op]++
				smu.Unlock()
				switch {
				case err != nil && strings.HasPrefix(err.Error(), "tie:"):
					fail(i, "tie/names-case", err.Error(), cl)
				case err != nil:
					fail(i, "error/names/"+cl.Op, fmt.Sprintf("%s with a %d byte %s returned an error although each of its requests was answered successfully: %v", cl.Op, cl.L, c03NameOpByName(cl.Op).Kind, cliTrim(err.Error(), 200)), cl)
				case got != want:
					fail(i, "misrouted/names/"+cl.Op, fmt.Sprintf("%s with a %d byte %s did not return the result built for its own request", cl.Op, cl.L, c03NameOpByName(cl.Op).Kind), map[string]any{"call": cl, "got": cliTrim(got, 200), "want": cliTrim(want, 200)})
				}
			}
		}(c)
	}
	wg.Wait()
	if hung {
		res.ExitNow = true
		shutdown()
	} else {
		if n := sftp.VerifInflight(client); n != 0 {
			fail(-1, "inflight-not-empty", fmt.Sprintf("%d entries remain in clientConn.inflight after every call returned", n), nil)
		}
		closeRet := make(chan struct{})
		go func() { client.Close(); close(closeRet) }()
		if _, ok := lib.WaitCase(k, cliDeadline, g.entered); !ok {
			fail(-1, "close-hang", "Client.Close did not close the transport within the hang deadline", cliDescribe(cliGoroutines2()))
			res.ExitNow = true
		}
		shutdown()
		if _, ok := lib.WaitCase(k, cliDeadline, closeRet); !ok {
			fail(-1, "close-hang", "Client.Close did not return within the hang deadline", cliDescribe(cliGoroutines2()))
			res.ExitNow = true
		}
	}
	if _, ok := lib.WaitCase(k, cliDeadline, peerDone); !ok {
		fail(-1, "tie/peer", "scripted peer did not finish", nil)
		res.ExitNow = true
		return
	}

	// ---- the wire ----
	g.mu.Lock()
	raw := append([]byte(nil), g.wire...)
	dropped := g.dropped
	g.mu.Unlock()
	if dropped > 0 {
		fail(-1, "tie/frame-queue", fmt.Sprintf("%d frames were not handed to the peer", dropped), nil)
	}
	frames, tail := wire.Split(raw)
	type expEnt struct {
		ci    int
		frame []byte
	}
	expBy := map[string][]expEnt{} // zero-id text → the calls that expect it
	var all []expEnt
	smu.Lock()
	for i, e := range envs {
		if e == nil {
			continue
		}
		for _, f := range e.expected() {
			ent := expEnt{i, f}
			all = append(all, ent)
			key := c03ZeroID(f[4], f[5:])
			expBy[key] = append(expBy[key], ent)
		}
	}
	st := append([]byte(nil), state...)
	smu.Unlock()
	if len(tail) != 0 {
		what, typ := fmt.Sprintf("%d stray bytes", len(tail)), "short"
		ci, common, flen := -1, 0, 0
		if len(tail) >= 9 {
			typ = "garbled" // (the stream fell out of step earlier: what stands where a type byte should does not name a request)
			if _, ok := c03TypName[tail[4]]; ok {
				typ = c03Typ(tail[4])
			}
			what = fmt.Sprintf("%d of the %d bytes of a %s request", len(tail), 4+int(binary.BigEndian.Uint32(tail)), c03Typ(tail[4]))
			// the call whose request this is: the frame of the codec that agrees with the tail on the longest prefix (the
			// id aside) — at least length, type, id and the length word of the name
			for _, ent := range all {
				n := 0
				for n < len(tail) && n < len(ent.frame) && (tail[n] == ent.frame[n] || (n >= 5 && n < 9)) {
					n++
				}
				if n >= 13 && n > common {
					ci, common, flen = ent.ci, n, len(ent.frame)
				}
			}
		}
		act := map[string]any{"tail_head": lib.Hex(tail[:min(len(tail), 48)])}
		if ci >= 0 {
			act["call"] = cs.Calls[ci]
			act["the_codec_builds"] = fmt.Sprintf("a frame of %d bytes for this call; the bytes on the wire agree with its first %d bytes (the id aside)", flen, common)
		}
		fail(ci, "framing/torn-request/"+typ, fmt.Sprintf("the client→server stream ends inside a frame: %s are on the wire (after %d whole frames), the rest never followed", what, len(frames)), act)
	}
	res.Requests = max(len(frames)-1, 0)
	var strayWire []wire.Pkt
	for i, p := range frames {
		if i == 0 && p.Typ == wire.Init {
			continue
		}
		key := c03ZeroID(p.Typ, p.Body)
		if l := expBy[key]; len(l) > 0 {
			expBy[key] = l[1:]
			continue
		}
		strayWire = append(strayWire, p)
	}
	missing := map[int][]expEnt{}
	for _, l := range expBy {
		for _, ent := range l {
			if st[ent.ci] == 1 { // (a call that hung or was not run has not sent everything)
				missing[ent.ci] = append(missing[ent.ci], ent)
			}
		}
	}
	cis := make([]int, 0, len(missing))
	for ci := range missing {
		cis = append(cis, ci)
	}
	sort.Ints(cis)
	for _, ci := range cis {
		ent := missing[ci][0]
		cl := cs.Calls[ci]
		act := map[string]any{"call": cl, "the_codec_builds": lib.Hex(ent.frame[:min(len(ent.frame), 64)]), "frame_bytes": len(ent.frame)}
		// the closest frame on the wire that no call explains: same type, longest common prefix
		best, bestN := -1, -1
		for j, p := range strayWire {
			if p.Typ != ent.frame[4] {
				continue
			}
			w := wire.Frame(p.Typ, p.Body)
			n := 0
			for n < len(w) && n < len(ent.frame) && (w[n] == ent.frame[n] || (n >= 5 && n < 9)) {
				n++
			}
			if n > bestN {
				best, bestN = j, n
			}
		}
		if best >= 0 {
			w := wire.Frame(strayWire[best].Typ, strayWire[best].Body)
			act["on_the_wire_instead"] = lib.Hex(w[:min(len(w), 64)])
			act["wire_frame_bytes"] = len(w)
			act["first_difference_at_byte"] = bestN
		}
		fail(ci, "framing/request-differs-from-codec/"+cl.Op, fmt.Sprintf("%s with a %d byte %s returned, but the %s request the independent codec builds for its arguments is not on the wire", cl.Op, cl.L, c03NameOpByName(cl.Op).Kind, c03Typ(ent.frame[4])), act)
	}
	if len(strayWire) > 0 && len(cis) == 0 {
		p := strayWire[0]
		fail(-1, "framing/unissued-frame/"+c03Typ(p.Typ), fmt.Sprintf("%d frames on the wire are not requests of any call of the session (the first: a %s of %d bytes)", len(strayWire), c03Typ(p.Typ), 5+len(p.Body)), lib.Hex(append([]byte{p.Typ}, p.Body[:min(len(p.Body), 64)]...)))
	}
	return
}

// c03RunNames runs the session and re-runs the calls its failures are attributed to alone, each in a fresh single-caller
// session (the call a torn frame belongs to first; at most four).  A failure that the call shows alone as well gets that
// one-call session as its input.  In a concurrent session that fell out of step (a call hung, a frame is torn) the other
// attributable failures are consequences — requests swallowed as the rest of the torn frame, replies to garbled
// requests —: they keep the session as input and get the key …/in-a-concurrent-session.
func c03RunNames(cs c03Case) c03Res {
	res, at := c03NamesSession(cs)
	if len(cs.Calls) <= 1 {
		return res
	}
	outOfStep := false
	for _, f := range res.Fails {
		if strings.HasPrefix(f.Key, "hang/") || strings.HasPrefix(f.Key, "framing/torn-request/") {
			outOfStep = true
		}
	}
	type single struct {
		in  c03Case
		res c03Res
	}
	tried := map[int]single{}
	order := make([]int, 0, len(at))
	for pass := 0; pass < 2; pass++ {
		for fi := range at {
			if strings.HasPrefix(res.Fails[fi].Key, "framing/torn-request/") == (pass == 0) {
				order = append(order, fi)
			}
		}
	}
	for _, fi := range order {
		ci := at[fi]
		if ci < 0 || strings.HasPrefix(res.Fails[fi].Key, "tie/") {
			continue
		}
		one, ok := tried[ci]
		if !ok && len(tried) < 4 {
			m := cs
			m.Calls, m.Callers, m.Mode, m.Yield = []c03NameCall{cs.Calls[ci]}, 1, "fifo", false
			m.Calls[0].N = 0
			one.in = m
			one.res, _ = c03NamesSession(m)
			tried[ci] = one
			ok = true
			if one.res.ExitNow {
				res.ExitNow = true
			}
		}
		key := res.Fails[fi].Key
		if key == "hang/names/in-a-concurrent-session" {
			key = "hang/names/" + cs.Calls[ci].Op
		}
		alone := false
		if ok {
			for _, f := range one.res.Fails {
				if f.Key == key {
					alone = true
				}
			}
		}
		switch {
		case alone:
			if res.MinInputs == nil {
				res.MinInputs = map[int]c03Case{}
			}
			res.MinInputs[fi] = one.in
			res.Fails[fi].Key = key
		case cs.Callers > 1 && outOfStep && !strings.HasPrefix(key, "framing/torn-request/"):
			res.Fails[fi].Key = key[:strings.LastIndexByte(key, '/')] + "/in-a-concurrent-session"
		}
	}
	return res
}

// ---------- the cases ----------

func c03NameLens(thorough bool) (paths, handles []int) {
	set := map[int]bool{}
	add := func(from, to int) {
		for l := from; l <= to; l++ {
			set[l] = true
		}
	}
	if thorough {
		add(1, 4200)
	} else {
		add(1, 320)
	}
	for k := 9; k <= 16; k++ {
		add(1<<k-1, 1<<k+1)
	}
	for l := range set {
		paths = append(paths, l)
	}
	sort.Ints(paths)
	for l := 1; l <= 256; l++ {
		handles = append(handles, l)
	}
	return
}

// c03NamesCases deals the product operation × name length × payload size over sessions.
func c03NamesCases(rnd *rand.Rand, thorough bool) []c03Case {
	paths, handles := c03NameLens(thorough)
	reps := 1
	if thorough {
		reps = 2
	}
	var out []c03Case
	for rep := 0; rep < reps; rep++ {
		byGroup := map[string][]c03NameCall{}
		var groups []string
		put := func(op c03NameOp, cl c03NameCall) {
			if _, ok := byGroup[op.Group]; !ok {
				groups = append(groups, op.Group)
			}
			byGroup[op.Group] = append(byGroup[op.Group], cl)
		}
		for oi, op := range c03NameOps {
			lens := paths
			if op.Kind == "handle" {
				lens = handles
			}
			for li, l := range lens {
				bin := (oi+li+rep)%3 == 0
				sizes := []int{0}
				switch op.Name {
				case "setext", "fsetext":
					// attribute blocks of 15+n bytes: across 64 and 256
					sizes = []int{0, 1, 48, 49, 50, 240, 241, 242}
					if !thorough {
						sizes = []int{[]int{0, 1, 48}[li%3], 49, 50, []int{240, 241, 242}[(li/3)%3]}
					}
				case "writeat":
					sizes = []int{0, 1, 63, 64, 65, 255, 256, 257, -1, -2} // -1: MaxPacket, -2: MaxPacket+1
					if thorough {
						sizes = []int{0, 1, 2, 31, 32, 33, 63, 64, 65, 127, 128, 129, 255, 256, 257, 511, 512, 513, -1, -2}
					}
				case "write", "readfrom":
					sizes = []int{1, 64, 65, -1, -2}
					if !thorough {
						sizes = []int{1, 64, 65, []int{-1, -2}[li%2]}
					}
				case "readat":
					sizes = []int{1, -1, -2}
				}
				for _, sz := range sizes {
					cl := c03NameCall{Op: op.Name, L: l, Size: sz, Bin: bin}
					if op.Two {
						// old and new name of the same length; a long one with a short one, both ways
						for _, l2 := range []int{l, 1, -1} {
							c2 := cl
							c2.L2 = l2
							if l2 < 0 {
								c2.L, c2.L2 = 1, l
							}
							if thorough || l2 == l || (li+oi)%2 == 0 {
								put(op, c2)
							}
						}
						continue
					}
					put(op, cl)
				}
			}
		}
		// sessions: the calls of a group in PRNG order, cut into sessions; caller count, reply order, MaxPacket and
		// the other session parameters in rotation
		per := 192
		si := rnd.Intn(12)
		session := func(group string, calls []c03NameCall) {
			si++
			cs := c03Case{Kind: "names", Group: group, Seed: rnd.Int63(),
				Callers:   []int{1, 3, 8, 1, 16, 2}[si%6],
				Mode:      []string{"perm", "reverse", "perm", "fifo"}[rnd.Intn(4)],
				MaxPacket: []int{1 << 15, 1024, 64, 1 << 15}[si%4],
				ConcW:     si%5 == 0, Yield: si%7 == 0}
			if cs.Callers == 1 {
				cs.Mode = "fifo"
			}
			cs.Calls = make([]c03NameCall, len(calls))
			for i, cl := range calls {
				cl.N = i
				switch cl.Size {
				case -1:
					cl.Size = cs.MaxPacket
				case -2:
					cl.Size = cs.MaxPacket + 1
				}
				cs.Calls[i] = cl
			}
			out = append(out, cs)
		}
		var everything []c03NameCall
		for _, gname := range groups {
			calls := byGroup[gname]
			rnd.Shuffle(len(calls), func(i, j int) { calls[i], calls[j] = calls[j], calls[i] })
			everything = append(everything, calls...)
			for len(calls) > 0 {
				n := min(per, len(calls))
				session(gname, calls[:n])
				calls = calls[n:]
			}
		}
		// the kinds mixed: header-only requests, two-part requests and multi-request calls of many callers interleave
		mixed := 4
		if thorough {
			mixed = 40
		}
		for i := 0; i < mixed; i++ {
			var calls []c03NameCall
			for j := 0; j < per; j++ {
				calls = append(calls, everything[rnd.Intn(len(everything))])
			}
			session("mixed", calls)
			out[len(out)-1].Callers = []int{8, 16, 5, 12}[i%4]
			if out[len(out)-1].Mode == "fifo" {
				out[len(out)-1].Mode = "perm"
			}
		}
	}
	return out
}

// c03NamesTally puts one session of the family into the result.
func c03NamesTally(r *lib.Result, cs c03Case, res c03Res) {
	clean := true
	for _, f := range res.Fails {
		if strings.HasPrefix(f.Key, "tie/") {
			clean = false
		}
	}
	r.Hist("names/sessions/group/" + cs.Group)
	r.Hist(fmt.Sprintf("names/sessions/callers/%02d", cs.Callers))
	r.Hist("names/sessions/reply-order/" + cs.Mode)
	r.Hist(fmt.Sprintf("names/sessions/max-packet/%d", cs.MaxPacket))
	r.Hist(fmt.Sprintf("names/sessions/max-outstanding/%02d", min(res.MaxOut, 33)))
	for _, cl := range cs.Calls {
		op := c03NameOpByName(cl.Op)
		if op == nil {
			continue
		}
		r.Case(fmt.Sprintf("names op=%s len=%d len2=%d size=%d bin=%v callers=%d mode=%s mp=%d concw=%v yield=%v", cl.Op, cl.L, cl.L2, cl.Size, cl.Bin, cs.Callers, cs.Mode, cs.MaxPacket, cs.ConcW, cs.Yield),
			clean && res.Calls > 0)
		r.Hist("names/op/" + cl.Op)
		r.Hist("names/" + op.Kind + "-bytes/" + c03LenBucket(max(cl.L, cl.L2)))
		r.Hist(fmt.Sprintf("names/name-bytes-arbitrary/%v", cl.Bin))
		switch op.Group {
		case "write":
			r.Hist("names/data-bytes-of-a-write-call/" + c03SizeBucket(cl.Size, cs.MaxPacket))
		case "setstat", "fsetstat":
			pl := map[string]int{"chmod": 4, "fchmod": 4, "setext": 15 + cl.Size, "fsetext": 15 + cl.Size}[cl.Op]
			if pl == 0 {
				pl = 8
			}
			r.Hist(fmt.Sprintf("names/attribute-block-bytes/%s", map[bool]string{true: "<=64", false: ">64"}[pl <= 64]))
		}
	}
	if res.Calls < len(cs.Calls) {
		r.HistAdd("names/calls-not-completed(the-session-ended-with-a-hang)", len(cs.Calls)-res.Calls)
	}
	for i, f := range res.Fails {
		kind := "oracle"
		if strings.HasPrefix(f.Key, "tie/") {
			kind = "tie"
		}
		var in any = cs
		if m, ok := res.MinInputs[i]; ok {
			in = m
		}
		r.Fail(lib.Failure{Kind: kind, Key: f.Key, What: f.What, Input: in, Actual: f.Act})
	}
}
