package main

// C04 — connection loss fails every call and hangs none.
//
// A scenario is: [open "file"] → one operation of cli_ops.go → [File.Close], run by a real Client against the
// fake server, optionally with 1…8 racing goroutines that keep starting single-request operations on the same
// Client. The server→client byte stream is ended (EOF or read error) after exactly N bytes — N ranging over
// every byte offset of the reply stream (thorough) or every frame boundary −1/0/+1 plus PRNG offsets (quick) —
// or the client→server stream is failed after k requests (failinput: the server side closes the stream, pending
// and later writes fail) or from the client's k-th Write call on (failwrite: exact for every schedule; the
// reply stream stays alive until the scenario has returned, i.e. only the failing caller knows). The failing
// transport returns a chosen ERROR VALUE (cli_faultpeer.go: io.EOF as x/crypto/ssh's channel does, wrapped
// EOFs, io.ErrUnexpectedEOF, io.ErrClosedPipe, os.ErrDeadlineExceeded, *net.OpError{EPIPE|ECONNRESET}, …):
// a transport error that looks like the protocol's end-of-file / end-of-listing marker must still be an error.
// The failing reader hands out that value in a Read call of its own or together with the last bytes before the cut
// (Tail > 0: n > 0 and the error in ONE call — a reply completed by those bytes has been received).
// Cases run sequentially in child processes so that the goroutine table after Close belongs to one case only,
// and a panic (“send on closed channel”, …) is observed as the child's exit.
// Two more families: "flood" (c04_atclose.go: what holds at the moment Close returns, with thousands of calls in
// flight) and "xfer-loss" (c04_xferloss.go: the connection is lost in the middle of concurrent multi-chunk transfers
// whose windows are full, and multi-chunk transfers are started on the dead connection) and "transport-fail"
// (c04_tfail.go: the transport's own methods misbehave — Close returning errors on the first / second / every call,
// Write failing or short, Read handing out data together with the terminal error — crossed with the moment of Close).

import (
	"encoding/json"
	"fmt"
	"io"
	"math/rand"
	"os"
	"runtime"
	"sort"
	"strings"
	"sync"
	"sync/atomic"
	"time"

	"github.com/pkg/sftp"

	"verifharness/lib"
	"verifharness/peers"
	"verifharness/wire"
)

func init() {
	register("c04", checkC04)
	children["c04"] = func(args []string) { cliChildLoop(false, c04Child) }
}

type c04Case struct {
	Op     string `json:"op"`
	Fault  string `json:"fault"`          // none | cut (EOF) | err (read error) | failinput (client->server stream closed by the peer) | failwrite (the client's k-th Write call and all later ones fail)
	At     int    `json:"at"`             // cut/err: the reply stream ends after this many bytes; failinput: after this many requests were received; failwrite: this many Write calls succeed after the handshake
	Err    string `json:"errv,omitempty"` // the error value the failing transport returns (cliErrKinds; "" = the historical fixed value)
	Racers int    `json:"racers"`
	Seed   int64  `json:"seed,omitempty"`
	// Via "ssh": the Client is made by sftp.NewClient over an in-process SSH connection (cli_ssh.go) instead of
	// NewClientPipe over pipes. Faults then: cut = the server sends Exit (exit0 | exit3 | "" none) and closes the
	// channel after At reply bytes; err = the TCP connection is dropped after At reply bytes; failinput = the
	// channel is closed after At requests.
	Via  string `json:"via,omitempty"`
	Exit string `json:"exit,omitempty"`
	// Op "flood" (c04_atclose.go): At calls in flight on as many goroutines, Fault close | cut+close | err+close, under
	// GOMAXPROCS Procs, Trials independent trials (the case stops at the first one that fails).
	Procs  int `json:"procs,omitempty"`
	Trials int `json:"trials,omitempty"`
	// Tail > 0 (faults cut and err over pipes): the READ behaviour of the failing transport is "data+err" — the last Tail
	// bytes before the cut (at most the part of the frame the cut falls into or ends) are returned by the very Read
	// call that returns the terminal error (n > 0 together with io.EOF resp. the error value), as io.Reader allows;
	// 0: the historical behaviour, the error comes from a Read call of its own.
	Tail int `json:"tail,omitempty"`
	// Op "xfer-loss" (c04_xferloss.go): the transfers Xfers run in parallel under MaxConcurrentRequestsPerFile Req (0: the
	// package's default); the peer answers the first Answer requests of each and the connection ends (Fault cut | err |
	// failinput | close | cut+close | err+close) when At requests of each are on the wire unanswered, after Burst of them
	// were answered in one write (BurstKind fail | ok | mixed); GOMAXPROCS Procs, Trials independent trials.
	Xfers     []c04Xfer `json:"xfers,omitempty"`
	Req       int       `json:"req,omitempty"`
	Answer    int       `json:"answer,omitempty"`
	Burst     int       `json:"burst,omitempty"`
	BurstKind string    `json:"burst_kind,omitempty"`
	BudgetMs  int       `json:"budget_ms,omitempty"` // the trials stop after this long (0: all Trials)
	Par       int       `json:"par,omitempty"`       // trials run at the same time in the case's process, each with its own Client (0: one)
	AfterPar  int       `json:"after_par,omitempty"` // callers that run those transfers at the same time, each on a File of its own (0: one)
	After     int       `json:"after,omitempty"`     // multi-chunk transfers started after the loss, per trial (at least one of each kind)
	Opt       string    `json:"opt,omitempty"`       // option variant (cli_ops.go: which MaxPacket constructor, UseFstat, UseConcurrentReads/Writes, MaxConcurrentRequestsPerFile); "" = MaxPacketUnchecked + the operation's own options
	// Op "transport-fail" (c04_tfail.go): the methods of the transport fail as TF says (Close returning errors, Write failing
	// or short, Read handing out data with the terminal error) at the moment Fault (= TF.Moment) with At calls in flight;
	// Err the Read error value, Tail the bytes that come with it; GOMAXPROCS Procs, Trials independent trials.
	TF *c04TF `json:"tf,omitempty"`
}

type c04Call struct {
	Name    string `json:"call"`
	Summary string `json:"summary,omitempty"`
	Err     string `json:"err,omitempty"`
	Failed  bool   `json:"failed"`
	Need    string `json:"need"` // ok (all required replies delivered) | lost (a required reply missing) | none (no request seen)
	NReq    int    `json:"required_requests"`
}

type c04Res struct {
	Frames   []int     `json:"frames,omitempty"` // dry run: sizes of the reply frames in order
	NReq     int       `json:"nreq,omitempty"`
	NWrites  int       `json:"nwrites,omitempty"` // Write calls of the client after the handshake (dry run: how many there are to fail)
	Calls    []c04Call `json:"calls,omitempty"`
	CutAt    int       `json:"cut_at"`             // bytes really delivered before the stream ended
	DataErr  int       `json:"data_err,omitempty"` // Read calls of the client that returned data together with the terminal error
	InFlight int       `json:"in_flight"`          // requests received and unanswered when the stream ended
	RacerOK  int       `json:"racer_ok"`
	RacerErr int       `json:"racer_err"`
	Trace    []string  `json:"trace,omitempty"`
	Conn     *connLine `json:"conn,omitempty"`       // the recorded schedule as conn.run tokens + observed outcomes
	Trials   int       `json:"trials_run,omitempty"` // xfer-loss: trials that fitted into the case's time allowance
	Fails    []c20Fail `json:"fails,omitempty"`
	TFObs    *tfObs    `json:"transport_fail_observed,omitempty"` // transport-fail: what the transport did, over the trials
	ExitNow  bool      `json:"-"`
}

type c04ReqRec struct {
	call      string // name of the scenario call the request belongs to ("" for a racer), decided by CONTENT
	racer     string
	typ       byte
	off       uint64
	path      string
	id        uint32
	delivered bool
}

const c04AfterOff = 1_000_000 // offsets used by the calls started after the fault

func c04Child(idx int, raw json.RawMessage) (any, bool) {
	var cs c04Case
	if err := json.Unmarshal(raw, &cs); err != nil {
		return c04Res{Fails: []c20Fail{{Key: "tie/case", What: err.Error()}}}, false
	}
	if cs.Op == c04FloodOp {
		res := c04RunAtClose(cs)
		return res, res.ExitNow
	}
	if cs.Op == c04XferOp {
		res := c04RunXferLoss(cs)
		return res, res.ExitNow
	}
	if cs.Op == c04TFOp {
		res := c04RunTransportFail(cs)
		return res, res.ExitNow
	}
	res := c04Run(cs, true)
	return res, res.ExitNow
}

var c04DryCache = map[string]*c04Res{}

func c04Dry(op, variant string) *c04Res {
	key := cliOpKey(op, variant)
	if d, ok := c04DryCache[key]; ok {
		return d
	}
	r := c04Run(c04Case{Op: op, Fault: "none", Opt: variant}, false)
	c04DryCache[key] = &r
	return &r
}

// c04Optional says whether the operation's result may be complete without the reply to this request.
func c04Optional(op string, typ byte, off uint64) bool {
	switch {
	case (strings.HasPrefix(op, "ReadDir") || strings.HasPrefix(op, "RemoveAll") || strings.HasPrefix(op, "Walk") || strings.HasPrefix(op, "Glob")) && typ == wire.Close:
		return true // the listing's deferred close: its error is dropped by design
	case strings.HasPrefix(op, "File.WriteTo-concurrent") && typ == wire.Read && off >= 64:
		return true // speculative reads beyond the one that reports EOF
	case strings.HasPrefix(op, "File.ReadAt-concurrent-eof") && typ == wire.Read && off >= 48:
		return true // the short chunk at 32 already decides the result
	}
	return false
}

// c04Ops: the operation table of cli_ops.go (shared with C20), including the multi-batch listings and the
// composites built on them.
func c04Ops() []cliOp { return cliOps() }

func c04OpByName(name string) *cliOp {
	for _, o := range c04Ops() {
		if o.Name == name {
			o := o
			return &o
		}
	}
	return nil
}

// c04SwallowsErrors: Client.Glob documents that it "ignores file system errors such as I/O errors reading
// directories. The only possible returned error is ErrBadPattern" — the one API whose contract contradicts
// "returns an error"; for it only the bounded return, the result after complete replies, Wait/Close and the
// goroutine table are checked.
func c04SwallowsErrors(call string) bool { return strings.HasPrefix(call, "Glob") }

func c04Run(cs c04Case, checkGoroutines bool) (res c04Res) {
	op := c04OpByName(cs.Op)
	if op == nil {
		res.Fails = append(res.Fails, c20Fail{Key: "tie/unknown-op", What: cs.Op})
		return
	}
	fail := func(key, what string, act any) { res.Fails = append(res.Fails, c20Fail{key, what, act}) }
	dir := "write"
	if cs.Fault == "err" {
		dir = "read"
	}
	ferr, family, known := cliErrValue(cs.Err, dir)
	if !known {
		fail("tie/unknown-error-kind", cs.Err, nil)
		return
	}
	// fkey is the fault's part of every key: the fault, and what the error value claims to be when it is
	// not an opaque one (a defect that needs an EOF-like value is not the defect that shows with any value)
	fkey := cs.Fault
	if family != "opaque" {
		fkey += "/errv:" + family
	}
	if cs.Tail > 0 && cs.Via == "" && (cs.Fault == "cut" || cs.Fault == "err") {
		fkey += "/data+err" // a defect that needs the last bytes and the error in one Read is not the one that shows with any reader
	}
	if cs.Via == "ssh" {
		fkey = "ssh/" + cs.Fault
		if cs.Fault == "cut" {
			fkey += "/" + map[bool]string{true: "no-exit-status", false: cs.Exit}[cs.Exit == ""]
		}
	}
	rng := rand.New(rand.NewSource(cs.Seed))
	fake := newFakeSrv(cliFileSize)
	if op.Fake != nil {
		op.Fake(fake)
	}
	var mu sync.Mutex
	var recs []*c04ReqRec
	var trace []string
	passN := -1
	if cs.Fault == "failwrite" {
		passN = cs.At
	}
	copts, oerr := cliClientOptsVar(op, cs.Opt)
	if oerr != nil {
		fail("tie/unknown-option-variant", oerr.Error(), nil)
		return
	}
	var client *sftp.Client
	var peer c04Peer
	var fpeer *faultPeer // nil over ssh
	var err error
	if cs.Via == "ssh" {
		stderrText := ""
		if cs.Seed%2 == 1 || strings.Contains(cs.Opt, "copy-stderr") {
			stderrText = "sftp-server: a line on stderr\n"
		}
		var sp *sshPeer
		client, sp, err = newSSHClient(cliVersion(), cs.Exit, stderrText, copts...)
		peer = sp
	} else {
		var fp *faultPeer
		client, fp, err = newFaultClient(cliVersion(), passN, ferr, func(call int) {
			mu.Lock()
			trace = append(trace, fmt.Sprintf("write-call#%d fails: %v", call, ferr))
			mu.Unlock()
		}, copts...)
		peer, fpeer = fp, fp
	}
	if err != nil {
		fail("tie/new-client", err.Error(), nil)
		return
	}

	var cutDone atomic.Bool
	sent := 0
	nreq := 0
	jitter := cs.Racers > 0
	jrng := rand.New(rand.NewSource(cs.Seed ^ 0x5bd1))
	var sendMu sync.Mutex
	var evs []connEv // arrivals, complete replies and the end of the reply stream, in the order this peer saw / did them
	var held []byte  // data+err: the last bytes before the cut, not written yet — they go out together with the terminal error (set by the server goroutine under sendMu)
	doCutLocked := func() {
		if cutDone.Load() {
			return
		}
		how := ""
		switch {
		case len(held) > 0 && fpeer != nil:
			terr := ferr
			if cs.Fault != "err" {
				terr = io.EOF
			}
			fpeer.FailOutputData(held, terr)
			how = fmt.Sprintf(" (the last %d bytes in the same Read as the error)", len(held))
		case cs.Fault == "err":
			peer.FailOutput(ferr)
		default:
			peer.CutOutput()
		}
		mu.Lock()
		res.CutAt = sent
		trace = append(trace, fmt.Sprintf("cut@%d%s", sent, how))
		evs = append(evs, connEv{K: "E"})
		mu.Unlock()
		cutDone.Store(true)
	}
	doCut := func() {
		if cutDone.Load() {
			return
		}
		// sendMu: the log must show a reply before the cut exactly when it was delivered before the cut
		sendMu.Lock()
		defer sendMu.Unlock()
		doCutLocked()
	}
	if (cs.Fault == "cut" || cs.Fault == "err") && cs.At == 0 {
		doCut()
	}
	if cs.Fault == "failinput" && cs.At == 0 {
		peer.FailInput(ferr)
	}
	srvDone := make(chan struct{})
	go func() {
		defer close(srvDone)
		for p := range peer.Requests() {
			q, derr := cliDecodeReq(p)
			// A request is attributed to its call by content, never by arrival time: a caller may return
			// (on the broadcast error) before this goroutine has dequeued all of its requests.
			rec := &c04ReqRec{call: op.Name, typ: p.Typ, off: q.Off, path: q.Path, id: p.ID()}
			switch {
			case derr != nil:
			case strings.HasPrefix(q.Path, "race-"):
				rec.call, rec.racer = "", q.Path
			case q.Path == "after" || q.Off >= c04AfterOff:
				rec.call = "after"
			case q.Typ == wire.Open && q.Path == "file" && q.Pflags == wire.FRead|wire.FWrite && op.NeedFile:
				rec.call = "setup-open"
			case q.Typ == wire.Close && strings.HasPrefix(q.Handle, "fh") && op.Name != "File.Close":
				rec.call = "File.Close"
			}
			mu.Lock()
			recs = append(recs, rec)
			evs = append(evs, connEv{K: "a", ID: p.ID()})
			nreq++
			n := nreq
			trace = append(trace, fmt.Sprintf("req#%d typ%d", p.ID(), p.Typ))
			mu.Unlock()
			if cs.Fault == "failinput" && n == cs.At {
				peer.FailInput(ferr)
				mu.Lock()
				trace = append(trace, fmt.Sprintf("fail-input: %v", ferr))
				mu.Unlock()
			}
			if cutDone.Load() {
				continue
			}
			frame := fake.Reply(p)
			if jitter && jrng.Intn(4) == 0 {
				time.Sleep(time.Duration(jrng.Intn(60)) * time.Microsecond)
			}
			budget := -1
			if cs.Fault == "cut" || cs.Fault == "err" {
				budget = cs.At - sent
			}
			hold := 0
			if budget >= 0 && len(frame) >= budget && cs.Tail > 0 && fpeer != nil {
				hold = min(cs.Tail, budget) // the cut falls into this frame or ends it: its last bytes before the cut wait for the error
			}
			if budget >= 0 && len(frame) > budget {
				sendMu.Lock()
				if budget-hold > 0 {
					peer.Reply(frame[:budget-hold])
				}
				held = frame[budget-hold : budget]
				mu.Lock()
				sent += budget
				trace = append(trace, fmt.Sprintf("reply#%d partial %d/%d", p.ID(), budget, len(frame)))
				mu.Unlock()
				doCutLocked()
				sendMu.Unlock()
				continue
			}
			if hold > 0 {
				// the complete reply, its last `hold` bytes in the same Read as the terminal error: it HAS been received completely
				sendMu.Lock()
				var rerr error
				if len(frame)-hold > 0 {
					rerr = peer.Reply(frame[:len(frame)-hold])
				}
				if rerr == nil {
					held = frame[len(frame)-hold:]
					mu.Lock()
					rec.delivered = true
					evs = append(evs, connEv{K: "r", ID: p.ID(), T: connTok(frame)})
					sent += len(frame)
					res.Frames = append(res.Frames, len(frame))
					trace = append(trace, fmt.Sprintf("reply#%d full", p.ID()))
					mu.Unlock()
				}
				doCutLocked()
				sendMu.Unlock()
				continue
			}
			sendMu.Lock()
			rerr := peer.Reply(frame)
			if rerr == nil {
				mu.Lock()
				rec.delivered = true
				evs = append(evs, connEv{K: "r", ID: p.ID(), T: connTok(frame)})
				sent += len(frame)
				res.Frames = append(res.Frames, len(frame))
				trace = append(trace, fmt.Sprintf("reply#%d full", p.ID()))
				mu.Unlock()
			}
			sendMu.Unlock()
			if budget >= 0 && len(frame) == budget {
				doCut()
			}
		}
		// the request stream ended: a server exits, which ends its output
		doCut()
	}()

	// ---- racers ----
	type racerCall struct {
		path     string
		ok       bool
		afterCut bool
		errText  string
		hang     bool
	}
	var racerCalls []racerCall
	var rmu sync.Mutex
	stopRacers := make(chan struct{})
	var rwg sync.WaitGroup
	for g := 0; g < cs.Racers; g++ {
		rwg.Add(1)
		go func(g int) {
			defer rwg.Done()
			errsAfter := 0
			for i := 0; i < 100000 && errsAfter < 3; i++ {
				select {
				case <-stopRacers:
					return
				default:
				}
				path := fmt.Sprintf("race-%d-%d", g, i)
				after := cutDone.Load()
				var err error
				done := cliWithin(cliDeadline, func() {
					switch (g + i) % 5 {
					case 0:
						_, err = client.Stat(path)
					case 1:
						_, err = client.Lstat(path)
					case 2:
						_, err = client.ReadLink(path)
					case 3:
						_, err = client.RealPath(path)
					case 4:
						err = client.Mkdir(path)
					}
				})
				rc := racerCall{path: path, ok: done && err == nil, afterCut: after, hang: !done, errText: cliErrStr(err)}
				rmu.Lock()
				racerCalls = append(racerCalls, rc)
				rmu.Unlock()
				if !done {
					return
				}
				if err != nil && cutDone.Load() {
					errsAfter++
				}
			}
		}(g)
	}
	if cs.Racers > 0 {
		// let the racers get going, a PRNG amount
		time.Sleep(time.Duration(rng.Intn(300)) * time.Microsecond)
	}

	// ---- the scenario ----
	env := &cliOpEnv{c: client}
	hung := false
	call := func(name string, f func() (string, error)) {
		if hung {
			return
		}
		var s string
		var err error
		if !cliWithin(cliDeadline, func() { s, err = f() }) {
			hung = true
			started, callers := cliPkgGoroutines()
			fail("hang/"+name+"/"+fkey, fmt.Sprintf("%s did not return within 20 s after the transport failed", name), cliDescribe(append(callers, started...)))
			res.Calls = append(res.Calls, c04Call{Name: name, Err: "HANG", Failed: true})
			return
		}
		c := c04Call{Name: name, Summary: s, Failed: err != nil, Err: cliErrStr(err)}
		if op.ErrOK && name == op.Name && err != nil {
			c.Summary = "error: " + err.Error()
		}
		res.Calls = append(res.Calls, c)
	}
	if op.NeedFile {
		call("setup-open", func() (string, error) {
			f, err := client.OpenFile("file", 2)
			if err == nil {
				env.f = f
			}
			return "", err
		})
	}
	if !op.NeedFile || env.f != nil {
		call(op.Name, func() (string, error) {
			s, err := op.Run(env)
			if err == io.EOF {
				err = nil
			}
			return s, err
		})
	}
	if env.f != nil && op.Name != "File.Close" {
		call("File.Close", func() (string, error) { return "", env.f.Close() })
	}
	nScenario := len(res.Calls)

	// ---- end the stream now if the scenario was shorter than the cut offset ----
	if cs.Fault != "none" && cs.Fault != "selftest-leak" && !hung {
		if cs.Fault == "failinput" || cs.Fault == "failwrite" {
			peer.FailInput(ferr) // no further write can succeed (failwrite: none could since the k-th; now the peer sees the stream end, too)
		} else {
			// the server goroutine owns `sent`; cutting here is only reached when At lies beyond the stream
			doCut()
		}
		// every operation started afterwards returns an error
		call("after/Stat", func() (string, error) { return cliFi(client.Stat("after")) })
		call("after/ReadDir", func() (string, error) { _, err := client.ReadDir("after"); return "", err })
		if env.f != nil {
			call("after/File.ReadAt", func() (string, error) {
				_, err := env.f.ReadAt(make([]byte, 40), c04AfterOff)
				return "", err
			})
			call("after/File.WriteAt", func() (string, error) {
				_, err := env.f.WriteAt(make([]byte, 40), 2*c04AfterOff)
				return "", err
			})
		}
		for _, c := range res.Calls[nScenario:] {
			if !c.Failed {
				fail("after-call-succeeded/"+c.Name+"/"+fkey, c.Name+" started after the connection was lost returned no error", c)
			}
		}
	}
	close(stopRacers)
	if !cliWithin(cliDeadline+5*time.Second, rwg.Wait) {
		hung = true
		fail("hang/racer/"+fkey, "a racing caller did not return within 20 s", cliDescribe(cliGoroutines2()))
	}
	if hung {
		res.ExitNow = true
		peer.Shutdown()
		return
	}
	// ---- Wait, Close, goroutines ----
	if cs.Fault == "selftest-leak" {
		// harness self-test: neither end is closed, so the package's receiver goroutine must be reported
		time.Sleep(20 * time.Millisecond)
		if started, _ := cliWaitQuiet(100 * time.Millisecond); len(started) > 0 {
			fail("goroutine-leak/"+cliShortFn(started[0].PkgFrame()), "self-test", cliDescribe(started))
		}
		res.ExitNow = true
		return
	}
	if cs.Fault == "none" {
		peer.CutOutput() // orderly end of a dry run
		cutDone.Store(true)
	}
	if cs.Fault == "failinput" {
		// the server notices its input ended and exits (srv goroutine cuts the output); nothing to do
	}
	if !cliWithin(cliDeadline, func() { client.Wait() }) {
		fail("wait-hang/"+fkey, "Client.Wait did not return within 20 s after the connection was lost", cliDescribe(cliGoroutines2()))
		res.ExitNow = true
		peer.Shutdown()
		return
	}
	if !cliWithin(cliDeadline, func() { client.Close() }) {
		fail("close-hang/"+fkey, "Client.Close did not return within 20 s after the connection was lost", cliDescribe(cliGoroutines2()))
		res.ExitNow = true
		peer.Shutdown()
		return
	}
	peer.Shutdown()
	if !cliWithin(5*time.Second, func() { <-srvDone }) {
		fail("tie/server-goroutine", "harness server goroutine did not finish", nil)
		res.ExitNow = true
		return
	}
	if checkGoroutines {
		if started, callers := cliWaitQuiet(5 * time.Second); len(started)+len(callers) > 0 {
			top := "?"
			if len(started) > 0 {
				top = cliShortFn(started[0].PkgFrame())
				if top == "" && len(started[0].Funcs) > 0 {
					top = "created-by/" + cliShortFn(started[0].CreatedBy)
				}
			} else {
				top = "caller-in/" + cliShortFn(callers[0].PkgFrame())
			}
			fail("goroutine-leak/"+top, "goroutines of pkg/sftp survive Client.Close (polled for 5 s)", cliDescribe(append(started, callers...)))
			res.ExitNow = true
		}
	}

	// ---- expectations, now that the server goroutine is quiescent ----
	mu.Lock()
	defer mu.Unlock()
	res.NReq = nreq
	res.NWrites, _ = peer.WriteCounts()
	if fpeer != nil {
		res.DataErr = fpeer.R.DataErrReads()
	}
	res.Trace = trace
	for _, rec := range recs {
		if !rec.delivered {
			res.InFlight++
		}
	}
	var dry *c04Res
	if cs.Fault != "none" {
		dry = c04Dry(cs.Op, cs.Opt)
	}
	for i := range res.Calls[:nScenario] {
		c := &res.Calls[i]
		need := "none"
		for _, rec := range recs {
			if rec.call != c.Name || c04Optional(cs.Op, rec.typ, rec.off) {
				continue
			}
			c.NReq++
			if !rec.delivered {
				need = "lost"
			} else if need == "none" {
				need = "ok"
			}
		}
		if need == "ok" && dry != nil {
			// requests that never reached the server (their write failed) are replies not received, too
			for j := range dry.Calls {
				if dry.Calls[j].Name == c.Name && c.NReq < dry.Calls[j].NReq {
					need = "lost"
				}
			}
		}
		c.Need = need
		if cs.Fault == "none" {
			continue
		}
		switch need {
		case "lost":
			if !c.Failed && !c04SwallowsErrors(c.Name) {
				fail("no-error/"+c.Name+"/"+fkey, c.Name+" returned no error although the reply to one of its requests was not delivered completely before the connection was lost (or the request could not be written): a truncated result is reported as success", map[string]any{"call": *c, "transport_error": cliErrStr(ferr)})
			}
		case "ok":
			var want *c04Call
			for j := range dry.Calls {
				if dry.Calls[j].Name == c.Name {
					want = &dry.Calls[j]
				}
			}
			if want != nil && (c.Failed != want.Failed || c.Summary != want.Summary) {
				fail("lost-reply/"+c.Name+"/"+fkey, c.Name+": every reply it needs had been received completely before the connection was lost, yet it did not return the result of those replies", map[string]any{"got": *c, "want": *want})
			}
		case "none":
			// no request of this call reached the server: it must have failed (nothing can have answered it)
			if !c.Failed && c.Name != "setup-open" && dry != nil && !c04SwallowsErrors(c.Name) {
				fail("no-error/"+c.Name+"/"+fkey, c.Name+" returned no error although none of its requests reached the server", map[string]any{"call": *c, "transport_error": cliErrStr(ferr)})
			}
		}
	}
	// racers
	delivered := map[string]bool{}
	for _, rec := range recs {
		if rec.racer != "" && rec.delivered {
			delivered[rec.racer] = true
		}
	}
	for _, rc := range racerCalls {
		switch {
		case rc.hang:
			// reported above
		case rc.ok:
			res.RacerOK++
			if rc.afterCut {
				fail("after-call-succeeded/racer/"+fkey, "a racing call started after the connection was lost returned no error", rc.path)
			} else if !delivered[rc.path] {
				fail("no-error/racer/"+fkey, "a racing call returned no error although its reply was not delivered", rc.path)
			}
		default:
			res.RacerErr++
			if delivered[rc.path] && !strings.Contains(rc.path, "never") {
				fail("lost-reply/racer/"+fkey, "a racing call whose reply had been delivered completely returned an error", map[string]string{"path": rc.path, "err": rc.errText})
			}
		}
	}

	// ---- the schedule for the Lean connection model: one model caller per request ----
	if cs.Fault != "none" && cs.Fault != "selftest-leak" && dry != nil {
		obs := connObs{Events: evs, Known: map[uint32]string{}, Shutdown: true}
		single := func(delivered bool, errText string) string {
			k := connClass(errText)
			if delivered && k != "lost" && k != "senderr" {
				return "reply" // the call got its reply (which may itself be an error status)
			}
			if !delivered && (k == "lost" || k == "senderr") {
				return k
			}
			if delivered {
				return k // a transport error although the reply was delivered: let the comparison show it
			}
			return ""
		}
		onWire := map[string][]*c04ReqRec{} // call name -> its requests
		racerRec := map[string]*c04ReqRec{}
		for _, rec := range recs {
			if rec.racer != "" {
				racerRec[rec.racer] = rec
			} else {
				onWire[rec.call] = append(onWire[rec.call], rec)
			}
		}
		for _, rc := range racerCalls {
			if rc.hang {
				continue
			}
			errText := rc.errText
			if rec := racerRec[rc.path]; rec != nil {
				if k := single(rec.delivered, errText); k != "" {
					obs.Known[rec.id] = k
				}
			} else if k := connClass(errText); k == "lost" || k == "senderr" {
				obs.OffWire = append(obs.OffWire, k)
			}
		}
		for _, cl := range res.Calls {
			name := cl.Name
			isSingle := false
			if strings.HasPrefix(name, "after/") {
				isSingle = name == "after/Stat" || name == "after/ReadDir"
			} else {
				for j := range dry.Calls {
					if dry.Calls[j].Name == name && dry.Calls[j].NReq == 1 {
						isSingle = true
					}
				}
			}
			var mine []*c04ReqRec
			if strings.HasPrefix(name, "after/") {
				for _, rec := range onWire["after"] {
					if (name == "after/Stat" && rec.typ == wire.Stat) || (name == "after/ReadDir" && rec.typ == wire.Opendir) {
						mine = append(mine, rec)
					}
				}
			} else {
				mine = onWire[name]
			}
			switch {
			case isSingle && len(mine) == 1:
				if k := single(mine[0].delivered, cl.Err); k != "" {
					obs.Known[mine[0].id] = k
				}
			case isSingle && len(mine) == 0:
				if k := connClass(cl.Err); k == "lost" || k == "senderr" {
					obs.OffWire = append(obs.OffWire, k)
				}
			case !cl.Failed:
				// a multi-request call that succeeded: every request whose reply was delivered got it
				for _, rec := range mine {
					if rec.delivered {
						obs.Known[rec.id] = "reply"
					}
				}
			}
		}
		// ids start at 1 in these sessions
		l := obs.build()
		res.Conn = &l
	}
	return
}

// ---------- parent ----------

func checkC04(c *lib.Ctx) {
	r := c.R
	thorough := c.Tier == "thorough"
	r.Rule = "scenario = [open] + one operation + [File.Close] on a real Client against a fake server, with 0…8 racing goroutines that keep starting Stat/Lstat/ReadLink/RealPath/Mkdir on the same Client. Operations: cmd/vh/cli_ops.go (single calls; ReadDir; single-chunk, sequential and concurrent multi-chunk ReadAt/WriteTo/WriteAt/Write/ReadFrom incl. readers with Len/Size/Stat/*io.LimitedReader and ReadFromWithConcurrency 0/2/1000; ReadDir/ReadDirContext over several READDIR batches, Walk, Glob, RemoveAll and MkdirAll over a two-level tree). Option variants: every operation under MaxPacketUnchecked (default), MaxPacketChecked, the MaxPacket alias and UseFstat(true); the transfers also under their own variants (UseFstat on/off, UseConcurrentReads false/true, UseConcurrentWrites true/false, MaxConcurrentRequestsPerFile 1/2 and combinations: the table Vars in cli_ops.go) — quick: default variant at full density, own variants at frame boundaries −1/0/+1, universal variants at frame boundaries; thorough: default and own variants at every byte offset, universal variants at the quick density; the fault-free run of every variant must return the same results as the default one. Family ssh: the same scenarios on a Client made by sftp.NewClient over an in-process x/crypto/ssh connection (loopback TCP; session stdin as writer, stderr copier with and without CopyStderrTo, Wait asking the session): the server sends exit-status 0 / 3 / none and closes the channel after N reply bytes, the TCP connection is dropped after N reply bytes, or the channel is closed after k requests; 9 operations (thorough: all). Faults: reply stream ended by EOF (cut) or by a Read error (err) after N bytes — thorough: every N in 0…len(stream); quick: every frame boundary −1/0/+1 and PRNG offsets —; client→server stream closed by the peer after k requests (failinput), every k; the client's k-th Write call and every later one fail while the reply stream stays alive (failwrite), every k (header and payload writes are separate calls). ERROR VALUES of the failing Read/Write: the table cliErrKinds (opaque sentinel and type, io.EOF, %w-wrapped / doubly wrapped / *net.OpError-wrapped / Is-method / errors.Join'ed EOF, io.ErrUnexpectedEOF plain and wrapped, io.ErrClosedPipe, os.ErrClosed in *os.PathError, net.ErrClosed, os.ErrDeadlineExceeded plain and in *net.OpError, EPIPE / ECONNRESET in *net.OpError, bare EPIPE): failinput and failwrite × every k × every value (quick, single-request operations: one value per family + 2 rotating); err × every offset × one rotating value plus every value at 4 offsets (thorough: every offset × every value). READ BEHAVIOUR of the transport at the moment of failure (pipes; cli_faultpeer.go faultReader): the terminal error comes from a Read call of its own (all of the above), or TOGETHER WITH THE LAST BYTES in one Read call (n > 0 and io.EOF resp. the error value, as io.Reader allows): at every reply boundary — the reply that ends there has been received completely, its caller gets it — with 1, 2, 3, 5 bytes, the body, the frame less one byte, or the whole frame including its length word arriving with the error (quick, default variant: EOF × 3 lengths, error × 3 lengths × rotating values, every value at one PRNG boundary × 2 lengths; other variants: one or two rotating; thorough: every boundary × every value × {1, body, frame}, every offset × 3), and one byte before / one and five bytes after every boundary (a partial frame whose last bytes come with the error). With racers: PRNG offsets, values and seeds (one in three with the last 1…9 bytes in the same Read as the error). Oracles: a call with a request whose reply was not delivered completely, or that could not be written, returns a non-nil error (never a truncated success; Glob, which documents that it swallows I/O errors, exempt); a call whose replies were all delivered returns the result of the fault-free run; Stat, ReadDir, File.ReadAt, File.WriteAt started after the fault fail; nothing hangs (20 s); Wait and Close return; the goroutine table is polled ≤ 5 s for goroutines created by pkg/sftp. Family flood (c04_atclose.go) — what holds AT THE MOMENT Client.Close RETURNS: N single-request calls (Stat/Lstat/ReadLink/RealPath/Mkdir) in flight on N goroutines (quick: 300, 2000, 20000; thorough: 100 … 5000, 8000, 20000), none answered, two goroutines in Client.Wait, 0…8 racers whose calls are answered; the connection ends by Client.Close (the peer ends its output when its input ends), or by the peer ending the reply stream (EOF / a Read error value of the table) with Client.Close called within 0…120 µs of it, either order; under GOMAXPROCS 1, 2, 4, 8 (thorough: also 3, 16); 2…40 independent trials per case. Right after Close has returned one goroutine dump (stop-the-world: a consistent picture) is taken: no goroutine started by pkg/sftp may still execute package code (one that has only its entry function left is exiting), nobody may still be parked in Wait, no call may still be parked waiting for its result; then, without any further event, Wait and every outstanding call return (the calls with an error), a later call fails, the goroutine table is free of pkg/sftp. Family xfer-loss (c04_xferloss.go) — the connection is lost in the MIDDLE of concurrent multi-chunk transfers: 1…3 transfers in parallel on one Client, each on its own File (File.ReadFrom with concurrent writes fed by readers with Len / Size / a negative Size, File.ReadFromWithConcurrency with argument 0 / window / 1000 / half the window, File.WriteTo, File.ReadAt, File.Read, File.WriteAt, File.Write; 5…307 chunks; MaxConcurrentRequestsPerFile default, 2, 3, 16, 128; option variants mp-checked, mp-alias, fstat); the peer answers the first 0…k requests of each and then keeps quiet until 2…128 requests of EACH transfer are on the wire unanswered (their workers parked); then optionally a burst — 2…window of the unanswered requests answered in ONE write with error statuses, valid replies or both alternating — and 0…150 µs later the connection ends: reply stream EOF, a Read error value of the table, the request stream failed by the peer with a Write error value, Client.Close called with the transfers in flight, or the end of the reply stream and Client.Close within 0…120 µs of each other in either order; 0…2 racers with answered calls; under GOMAXPROCS 2, 4, 8 (1 as control; thorough also 3, 16). After the loss, 9…64 multi-chunk transfers of every kind (2…130 chunks) are STARTED on the dead connection by 1…8 callers at the same time, each on a File of its own (every chunk fails at once; several workers of one transfer handle errors at the same moment). A case is as many independent trials (fresh Client; 1, 2, 4 or 8 trials at a time in the process) as fit into its time allowance (quick 350 ms, thorough 2 s; stops at the first failing trial), in a child process, a few cases at a time with nothing else running beside them (two workers of one transfer must really run at the same moment); a panic in a package goroutine is the death of the child, reported as “call did not return an error: process crashed” with the panic text and its site. Oracles: every transfer returns (20 s, hang budget) with a non-nil error other than io.EOF unless every one of its chunks had been answered successfully; Stat and every transfer started after the loss return, with an error; File.Close, Client.Wait, Client.Close return; the goroutine table is free of pkg/sftp after every round. Family transport-fail (c04_tfail.go) — TRANSPORTS WHOSE METHODS FAIL, crossed with the moment of Client.Close: the WriteCloser's Close tears the link down and returns nil / an error on the first call / on every call but the first / on every call / iff the read side has already reported its end / the error of an earlier failed Write (values of the table); the read side is then ended by the peer 0, 1.5 or 25 ms after its input ended (thorough also 0.2, 8 ms) or by Close itself (one Close for both directions: the pending Read fails at once with an error value); the reply stream ends with EOF, an error value, or with the reply to one call in flight whose last 1 … all bytes come in the SAME Read as the terminal error (complete: that call returns its reply; one byte short: it fails like the others); Write is healthy, or the k-th Write call fails with (0, err) or as a short write (0 < n < len, err) and every later one fails; moments: Client.Close with 0 (idle) … 300 calls in flight on a healthy link, the peer ending the reply stream and Client.Close 0…120 µs apart in either order, Client.Close the instant the first of 300 … 2500 calls in flight was notified (the receiver in the middle of its broadcast; the transport's Close is called for the second time), Client.Close after Client.Wait has returned; 0, 1 or 3 calls answered before; GOMAXPROCS 1, 2, 4, 8; quick: the cross product moment × Close behaviour × end of the read side × Read at the end, the other dimensions rotating, 2–3 trials each; thorough: × Write × calls in flight, 4–6 trials. Oracles as in family flood, at the moment Close returns (one goroutine dump): no goroutine started by pkg/sftp executes package code, nobody is parked in Wait, no call is parked waiting for its result; then Wait returns, every call in flight returns — with an error, except the one whose reply was completed by the bytes that came with the error —, a later Stat fails, a second Client.Close returns, the goroutine table is free of pkg/sftp (all waits through the hang budget). Non-trivial = fault injected; distinct by (operation, fault, offset, error value, racers, seed, GOMAXPROCS; xfer-loss: transfers, window, answered-before, burst; transport-fail: the transport's behaviour)."
	workers := runtime.NumCPU()
	if workers > 16 {
		workers = 16
	}
	// the (operation, option variant) pairs and how densely each is explored:
	//   level 3 thorough-full, 2 quick-full, 1 medium, 0 light
	// thorough: the operation's default and its own variants 3, the universal variants 2
	// quick:    default 2, own variants 1, universal variants 0
	type pair struct {
		op      cliOp
		variant string
		level   int
	}
	var pairs []pair
	universal := map[string]bool{}
	for _, v := range cliUniversalVars {
		universal[v] = true
	}
	for _, op := range c04Ops() {
		for _, v := range cliOpVariants(op) {
			lvl := 1
			switch {
			case v == "":
				lvl = 2
			case universal[v]:
				lvl = 0
			}
			if thorough {
				lvl = map[int]int{2: 3, 1: 3, 0: 2}[lvl]
			}
			pairs = append(pairs, pair{op, v, lvl})
		}
	}
	// the error values; "custom" is the historical fixed value, written "" in the cases
	var wkinds, rkinds []string
	for _, k := range cliErrKinds("write") {
		if k.Name != "custom" {
			wkinds = append(wkinds, k.Name)
			if k.Name != "eof" {
				rkinds = append(rkinds, k.Name) // a read error io.EOF is the fault "cut"
			}
		}
	}
	wkindsAll := append([]string{""}, wkinds...)
	var wkindsFam []string // the first value of every family but the opaque one
	fam := map[string]bool{"opaque": true}
	for _, k := range cliErrKinds("write") {
		if !fam[k.Family] {
			fam[k.Family] = true
			wkindsFam = append(wkindsFam, k.Name)
		}
	}
	var cases []c04Case
	if c.Replay != "" {
		var one c04Case
		if err := lib.ReadReplay(c.Replay, &one); err != nil {
			r.Fail(lib.Failure{Kind: "tie", Key: "replay", What: err.Error()})
			return
		}
		if one.Op == c04FloodOp {
			one.Trials = 5 * max(one.Trials, 1) // the failing interleaving is a schedule: a replay tries harder
		}
		if one.Op == c04XferOp {
			one.Trials, one.BudgetMs = 20*max(one.Trials, 1), 20*one.BudgetMs // (a trial is cheap, the window between two woken workers narrow)
		}
		if one.Op == c04TFOp {
			one.Trials = 10 * max(one.Trials, 1) // where the failing interleaving is a schedule, a replay tries harder
		}
		cases = []c04Case{one}
	} else {
		// family "flood": what holds at the moment Close returns (c04_atclose.go); first, so that they overlap
		cases = append(cases, c04GenAtClose(rand.New(rand.NewSource(int64(c.Seed)^0x61746373)), thorough, rkinds)...)
		// family "xfer-loss": the connection is lost in the middle of concurrent multi-chunk transfers (c04_xferloss.go)
		cases = append(cases, c04GenXferLoss(rand.New(rand.NewSource(int64(c.Seed)^0x78666c73)), thorough, rkinds, wkinds)...)
		// family "transport-fail": the transport's Close / Write / Read misbehave, crossed with the moment of Close (c04_tfail.go)
		cases = append(cases, c04GenTransportFail(rand.New(rand.NewSource(int64(c.Seed)^0x7466616c)), thorough, rkinds, wkinds)...)
		var dryRaw []json.RawMessage
		for _, p := range pairs {
			b, _ := json.Marshal(c04Case{Op: p.op.Name, Fault: "none", Opt: p.variant})
			dryRaw = append(dryRaw, b)
		}
		results, deaths, err := cliRunPoolC("c04", nil, dryRaw, workers, 120*time.Second, nil, func(i int) string { return "c04/" + pairs[i].op.Name })
		if err != nil {
			r.Fail(lib.Failure{Kind: "tie", Key: "child-start", What: err.Error()})
			return
		}
		dryDefault := map[string]c04Res{} // operation -> its fault-free run under the default options
		for i, p := range pairs {
			op := p.op
			none := c04Case{Op: op.Name, Fault: "none", Opt: p.variant}
			okey := cliOpKey(op.Name, p.variant)
			if deaths[i] == cliNotRun {
				continue
			}
			if deaths[i] != nil || results[i] == nil {
				r.Fail(lib.Failure{Kind: "oracle", Key: "valid-run/" + okey, What: "child died on a run without fault", Input: none, Actual: deaths[i]})
				continue
			}
			var d c04Res
			json.Unmarshal(results[i], &d)
			r.Case("dry/"+okey, false)
			bad := len(d.Fails) > 0
			for _, cl := range d.Calls {
				if cl.Failed && !(op.ErrOK && cl.Name == op.Name) {
					bad = true
				}
			}
			if len(d.Fails) > 0 {
				// the property's own oracles (Wait/Close return, no hang, no leak) failed on a run whose only
				// "fault" is the clean end of the stream after the last reply: that is a violation, not a harness problem
				for _, f := range d.Fails {
					r.Fail(lib.Failure{Kind: "oracle", Key: f.Key + "/" + okey, What: f.What + " (run without injected fault: the stream ends cleanly after the last reply)", Input: none, Actual: f.Act})
				}
				continue
			}
			if bad {
				r.Fail(lib.Failure{Kind: "tie", Key: "valid-run/" + okey, What: "scenario does not succeed without a fault (harness table or fake server wrong)", Input: none, Actual: d})
				continue
			}
			if p.variant == "" {
				dryDefault[op.Name] = d
			} else if dd, ok := dryDefault[op.Name]; ok {
				// the options change HOW an operation talks to the server, never WHAT it returns
				for _, cl := range d.Calls {
					for _, dl := range dd.Calls {
						if cl.Name == dl.Name && (cl.Summary != dl.Summary || cl.Failed != dl.Failed) {
							r.Fail(lib.Failure{Kind: "oracle", Key: "result-depends-on-option/" + op.Name + "/" + p.variant, What: cl.Name + " returns another result under this option variant than under the default options, against the same server and without any fault",
								Input: none, Expected: dl, Actual: cl})
						}
					}
				}
				if d.NReq != dd.NReq {
					r.Hist("variant-changes-request-count/" + okey)
				}
			}
			total := 0
			bounds := []int{0}
			for _, f := range d.Frames {
				total += f
				bounds = append(bounds, total)
			}
			offs := map[int]bool{}
			switch p.level {
			case 3:
				for n := 0; n <= total+1; n++ {
					offs[n] = true
				}
			case 2, 1:
				for _, b := range bounds {
					for _, n := range []int{b - 1, b, b + 1} {
						if n >= 0 {
							offs[n] = true
						}
					}
				}
				if p.level == 2 {
					for k := 0; k < 10; k++ {
						offs[c.Rand.Intn(total+1)] = true
					}
				}
			default:
				for _, b := range bounds {
					offs[b] = true
					offs[min(b+1+c.Rand.Intn(8), total)] = true
				}
			}
			var sorted []int
			for n := range offs {
				sorted = append(sorted, n)
			}
			sort.Ints(sorted)
			add := func(cs c04Case) {
				cs.Op, cs.Opt = op.Name, p.variant
				cases = append(cases, cs)
			}
			// ---- server→client: the stream ends (EOF) or the Read fails with an error value ----
			rot := c.Rand.Intn(len(rkinds))
			for i, n := range sorted {
				add(c04Case{Fault: "cut", At: n})
				if p.level >= 1 {
					add(c04Case{Fault: "err", At: n})
				}
				if p.level == 3 {
					for _, k := range rkinds {
						add(c04Case{Fault: "err", At: n, Err: k})
					}
				} else {
					// every offset with one more value, rotating through the table
					add(c04Case{Fault: "err", At: n, Err: rkinds[(i+rot)%len(rkinds)]})
				}
			}
			if p.level == 2 {
				// every value at the start of the stream, on a frame boundary, inside a length word and inside a body
				for _, k := range rkinds {
					b := bounds[c.Rand.Intn(len(bounds))]
					for _, n := range []int{0, b, b + 1 + c.Rand.Intn(3), b + 4 + c.Rand.Intn(5)} {
						add(c04Case{Fault: "err", At: min(n, total), Err: k})
					}
				}
			}
			// ---- the transport's READ behaviour at the moment of failure: data and the terminal error in the SAME Read call ----
			// at every reply boundary (the reply that ends there was received completely: its caller gets it), one byte
			// before and one / five bytes after it (a partial frame), EOF and error values, for several lengths of the part
			// that comes with the error: 1 byte … the body … the whole frame including its length word
			{
				tailsOf := func(f int) []int { return []int{1, f - 4, 2, f, 3, f - 1, 5} }
				pick := func(f, k int) int { t := tailsOf(f); return max(1, t[k%len(t)]) }
				rk := func(k int) string { return rkinds[(rot+k)%len(rkinds)] }
				allAt := -1
				if len(d.Frames) > 0 {
					allAt = c.Rand.Intn(len(d.Frames))
				}
				for fi, f := range d.Frames {
					b := bounds[fi+1]
					switch p.level {
					case 3:
						for _, t := range []int{1, f - 4, f} {
							add(c04Case{Fault: "cut", At: b, Tail: max(1, t)})
							add(c04Case{Fault: "err", At: b, Tail: max(1, t)})
							for _, k := range rkinds {
								add(c04Case{Fault: "err", At: b, Tail: max(1, t), Err: k})
							}
						}
					case 2:
						add(c04Case{Fault: "cut", At: b, Tail: 1})
						add(c04Case{Fault: "cut", At: b, Tail: max(1, f-4)})
						add(c04Case{Fault: "cut", At: b, Tail: pick(f, fi+2)})
						add(c04Case{Fault: "err", At: b, Tail: f})
						add(c04Case{Fault: "err", At: b, Tail: pick(f, fi), Err: rk(2 * fi)})
						add(c04Case{Fault: "err", At: b, Tail: pick(f, fi+1), Err: rk(2*fi + 1)})
						if fi == allAt {
							for j, k := range rkinds {
								add(c04Case{Fault: "err", At: b, Tail: 1, Err: k})
								add(c04Case{Fault: "err", At: b, Tail: pick(f, j+1), Err: k})
							}
						}
					case 1:
						add(c04Case{Fault: "cut", At: b, Tail: pick(f, fi)})
						add(c04Case{Fault: "err", At: b, Tail: pick(f, fi+1), Err: rk(fi)})
					default:
						if fi%2 == 0 {
							add(c04Case{Fault: "cut", At: b, Tail: pick(f, fi/2)})
						} else {
							add(c04Case{Fault: "err", At: b, Tail: pick(f, fi/2), Err: rk(fi)})
						}
					}
					if p.level >= 1 {
						// a partial frame whose last bytes come with the error
						add(c04Case{Fault: []string{"cut", "err"}[fi%2], At: b - 1, Tail: 1 + fi%3, Err: map[bool]string{true: rk(fi)}[fi%2 == 1]})
						add(c04Case{Fault: []string{"err", "cut"}[fi%2], At: b + 1, Tail: 1, Err: map[bool]string{true: rk(fi + 1)}[fi%2 == 0]})
						add(c04Case{Fault: []string{"cut", "err"}[fi%2], At: min(b+5, total), Tail: 1 + (fi+1)%5})
					}
				}
				if p.level == 3 {
					for n := 1; n <= total; n++ {
						add(c04Case{Fault: "cut", At: n, Tail: 1 + n%3})
						add(c04Case{Fault: "err", At: n, Tail: 1 + (n+1)%4, Err: rk(n)})
						add(c04Case{Fault: "cut", At: n, Tail: 9 + n%24})
					}
				}
			}
			// ---- client→server: every request index / every Write call × every error value ----
			// (quick, operations of a single request: one value of every family and two more, rotating)
			own := 0
			for _, cl := range d.Calls {
				if cl.Name == op.Name {
					own = cl.NReq
				}
			}
			values := func(k int) []string {
				switch {
				case p.level == 3 || (p.level == 2 && own >= 2):
					return wkinds
				case p.level == 0:
					return []string{wkinds[(rot+k)%len(wkinds)]}
				}
				v := []string{}
				if p.level == 2 {
					v = append(v, wkindsFam...)
				}
				for j := 0; j < 2; j++ {
					v = append(v, wkinds[(rot+2*k+j)%len(wkinds)])
				}
				return v
			}
			for k := 0; k <= d.NReq+1; k++ {
				add(c04Case{Fault: "failinput", At: k})
				for _, e := range values(k) {
					add(c04Case{Fault: "failinput", At: k, Err: e})
				}
			}
			for k := 0; k <= d.NWrites+1; k++ {
				add(c04Case{Fault: "failwrite", At: k})
				for _, e := range values(k) {
					add(c04Case{Fault: "failwrite", At: k, Err: e})
				}
			}
			// racing registrants
			perRacer := map[int]int{3: 120, 2: 8, 1: 3, 0: 1}[p.level]
			for racers := 1; racers <= 8; racers++ {
				if p.level == 0 && racers != 2 && racers != 8 {
					continue
				}
				for k := 0; k < perRacer; k++ {
					fault := []string{"cut", "err"}[c.Rand.Intn(2)]
					errv := ""
					if fault == "err" && c.Rand.Intn(2) == 0 {
						errv = rkinds[c.Rand.Intn(len(rkinds))]
					}
					// the racers' replies share the stream: offsets up to a few times the scenario's own stream
					// (one in three with the last 1…9 bytes in the same Read as the error)
					add(c04Case{Fault: fault, At: c.Rand.Intn(total*(1+racers) + 2), Racers: racers, Seed: c.Rand.Int63(), Err: errv, Tail: []int{0, 0, 1 + c.Rand.Intn(9)}[c.Rand.Intn(3)]})
				}
				nw := 1
				if p.level == 3 {
					nw = 6
				}
				for k := 0; k < nw; k++ {
					if p.level == 3 || racers%4 == 0 {
						add(c04Case{Fault: "failinput", At: c.Rand.Intn(d.NReq*(1+racers) + 2), Racers: racers, Seed: c.Rand.Int63(), Err: wkindsAll[c.Rand.Intn(len(wkindsAll))]})
					}
					if p.level == 3 || racers%4 == 1 {
						add(c04Case{Fault: "failwrite", At: c.Rand.Intn(d.NWrites*(1+racers) + 2), Racers: racers, Seed: c.Rand.Int63(), Err: wkindsAll[c.Rand.Intn(len(wkindsAll))]})
					}
				}
			}
		}
		// ---- family "ssh": the same scenarios on a Client made by sftp.NewClient over an in-process SSH connection ----
		// (session stdin as the writer, the stderr copier goroutine, Wait asking the session for the exit status)
		sshOps := map[string]bool{"Stat": true, "ReadDir-batches": true, "File.Read": true, "File.ReadAt-concurrent": true, "File.WriteTo-concurrent": true,
			"File.WriteAt-concurrent": true, "File.ReadFrom-concurrent": true, "File.ReadFrom-sized": true, "Walk-tree": true}
		sshVars := []string{"", "copy-stderr", "mp-alias+copy-stderr", "fstat+req1", "mp-checked+req2+copy-stderr"}
		nssh := 0
		for _, op := range c04Ops() {
			d, ok := dryDefault[op.Name]
			if !ok || (!thorough && !sshOps[op.Name]) {
				continue
			}
			variant := func() string { nssh++; return sshVars[nssh%len(sshVars)] }
			add := func(cs c04Case) {
				cs.Op, cs.Via, cs.Opt = op.Name, "ssh", variant()
				cases = append(cases, cs)
			}
			add(c04Case{Fault: "none", Exit: "exit0"})
			total := 0
			offs := map[int]bool{0: true}
			for _, f := range d.Frames {
				total += f
				offs[total] = true
				offs[total-1-c.Rand.Intn(min(f, 9))] = true
				if thorough {
					offs[total-1], offs[total+1] = true, true
				}
			}
			var sorted []int
			for n := range offs {
				sorted = append(sorted, n)
			}
			sort.Ints(sorted)
			for _, n := range sorted {
				for _, exit := range []string{"exit0", "exit3", ""} {
					add(c04Case{Fault: "cut", At: n, Exit: exit, Seed: int64(c.Rand.Intn(2))})
				}
				add(c04Case{Fault: "err", At: n, Seed: int64(c.Rand.Intn(2))})
			}
			for k := 0; k <= d.NReq+1; k++ {
				add(c04Case{Fault: "failinput", At: k})
			}
			for _, racers := range []int{1, 3, 8} {
				for k := 0; k < map[bool]int{true: 6, false: 2}[thorough]; k++ {
					add(c04Case{Fault: []string{"cut", "err", "failinput"}[c.Rand.Intn(3)], At: c.Rand.Intn(total*(1+racers)/4 + 2), Exit: []string{"exit0", "exit3", ""}[c.Rand.Intn(3)], Racers: racers, Seed: c.Rand.Int63()})
				}
			}
		}
	}
	if fam := os.Getenv("VH_C04_FAMILY"); fam != "" && c.Replay == "" {
		// debugging aid: only the flood family ("flood"), only the xfer-loss family ("xfer") or everything else ("noflood")
		var keep []c04Case
		for _, cs := range cases {
			of := map[string]string{c04FloodOp: "flood", c04XferOp: "xfer", c04TFOp: "tfail"}[cs.Op]
			if of == "" {
				of = "noflood"
			}
			if of == fam {
				keep = append(keep, cs)
			}
		}
		cases = keep
	}
	if dump := os.Getenv("VH_C04_DUMP"); dump != "" {
		// debugging aid: the case list of this run, one JSON case per line
		var b []byte
		for _, cs := range cases {
			l, _ := json.Marshal(cs)
			b = append(append(b, l...), '\n')
		}
		os.WriteFile(dump, b, 0o644)
	}
	selftest := -1
	if c.Replay == "" {
		selftest = len(cases)
		cases = append(cases, c04Case{Op: "Stat", Fault: "selftest-leak"})
	}
	var xferWall time.Duration
	raws := make([]json.RawMessage, len(cases))
	for i, cs := range cases {
		raws[i], _ = json.Marshal(cs)
	}
	t0 := time.Now()
	// The xfer-loss cases run in a pass of their own, a few at a time and with nothing else beside them: what they look
	// for happens when two workers of one transfer really run at the same moment, and a machine whose processors are all
	// taken (by 16 children of this check) lets that happen ten times less often (measured).  They come last: with a
	// defect that makes calls hang, the hang budget goes to the other families first, as it always did.
	results := make([]json.RawMessage, len(cases))
	deaths := map[int]*cliDeath{}
	var err error
	for pass, sel := range []func(cs c04Case) bool{
		func(cs c04Case) bool { return cs.Op != c04XferOp || c.Replay != "" },
		func(cs c04Case) bool { return cs.Op == c04XferOp && c.Replay == "" },
	} {
		var idx []int
		var sub []json.RawMessage
		for i, cs := range cases {
			if sel(cs) {
				idx = append(idx, i)
				sub = append(sub, raws[i])
			}
		}
		if len(idx) == 0 {
			continue
		}
		w := workers
		if pass == 1 {
			w = max(1, min(c04XferWorkers, workers))
		}
		t1 := time.Now()
		res, dth, perr := cliRunPoolC("c04", nil, sub, w, 120*time.Second, nil, func(i int) string { return "c04/" + cases[idx[i]].Op })
		if perr != nil {
			err = perr
			break
		}
		for j, i := range idx {
			results[i] = res[j]
			if d := dth[j]; d != nil {
				deaths[i] = d
			}
		}
		if pass == 1 {
			xferWall = time.Since(t1)
		}
	}
	poolWall := time.Since(t0)
	if err != nil {
		r.Fail(lib.Failure{Kind: "tie", Key: "child-start", What: err.Error()})
		return
	}
	racerOK, racerErr := 0, 0
	xferTrials, xferTrialsBy := 0, map[string]int{}
	var connLines []connLine
	var connInputs []any
	connReqs := 0
	for i, cs := range cases {
		if deaths[i] == cliNotRun {
			continue
		}
		if i == selftest {
			var res c04Res
			json.Unmarshal(results[i], &res)
			if len(res.Fails) == 1 && strings.HasPrefix(res.Fails[0].Key, "goroutine-leak/") && strings.Contains(res.Fails[0].Key, "recv") {
				r.Note("self-test passed: a Client left open is reported as %s", res.Fails[0].Key)
			} else {
				r.Fail(lib.Failure{Kind: "tie", Key: "selftest/leak-not-detected", What: "the goroutine-table reader does not see the receiver goroutine of a Client that was left open", Actual: res})
			}
			continue
		}
		ctext := fmt.Sprintf("%s/%s%s@%d/r%d/s%d/e%s%s/p%d/t%d", cliOpKey(cs.Op, cs.Opt), cs.Via, cs.Fault, cs.At, cs.Racers, cs.Seed, cs.Err, cs.Exit, cs.Procs, cs.Tail)
		if cs.Op == c04XferOp {
			ctext += fmt.Sprintf("/%v/q%d/a%d/b%d%s", cs.Xfers, cs.Req, cs.Answer, cs.Burst, cs.BurstKind)
		}
		if cs.Op == c04TFOp {
			ctext += fmt.Sprintf("/%+v", *cs.TF)
		}
		r.Case(ctext, cs.Fault != "none")
		if cs.Op == c04TFOp {
			tf := cs.TF
			r.Hist("transport-fail/moment/" + tf.Moment)
			r.Hist("transport-fail/Close-returns-an-error/" + tf.CloseErr)
			r.Hist("transport-fail/read-side-ended-by/" + tf.Ends + map[bool]string{true: fmt.Sprintf("/%dus-after-its-input-ended", tf.DelayUs), false: ""}[tf.Ends == "peer" && tf.Moment == "close"])
			r.Hist("transport-fail/Read-at-the-end/" + tf.Read)
			r.Hist("transport-fail/Write/" + map[bool]string{true: "ok", false: tf.Write}[tf.Write == ""])
			r.Hist(fmt.Sprintf("transport-fail/calls-in-flight/%d", cs.At))
			r.Hist(fmt.Sprintf("transport-fail/gomaxprocs/%d", cs.Procs))
			r.Hist(fmt.Sprintf("transport-fail/calls-answered-before/%d", tf.Answered))
			r.Hist("transport-fail/moment×Close/" + tf.Moment + "/" + tf.CloseErr)
			if tf.CloseErrV != "" {
				r.Hist("error-value/transport-Close/" + tf.CloseErrV)
			}
		}
		if cs.Op == c04XferOp {
			for _, x := range cs.Xfers {
				r.Hist("xfer-loss/api/" + x.API)
				r.Hist(fmt.Sprintf("xfer-loss/chunks/%d", x.Chunks))
			}
			r.Hist(fmt.Sprintf("xfer-loss/parallel-transfers/%d", len(cs.Xfers)))
			r.Hist(fmt.Sprintf("xfer-loss/asked-in-flight-per-transfer/%d", cs.At))
			r.Hist(fmt.Sprintf("xfer-loss/gomaxprocs/%d", cs.Procs))
			r.Hist("xfer-loss/ended-by/" + cs.Fault)
			r.Hist(fmt.Sprintf("xfer-loss/max-concurrent-requests/%d", cs.Req))
			r.Hist(fmt.Sprintf("xfer-loss/answered-before/%d", cs.Answer))
			r.Hist("xfer-loss/burst/" + map[bool]string{true: "none", false: fmt.Sprintf("%s/%d", cs.BurstKind, cs.Burst)}[cs.Burst == 0])
		}
		if cs.Op == c04FloodOp {
			r.Hist(fmt.Sprintf("at-close-return/calls-in-flight/%d", cs.At))
			r.Hist(fmt.Sprintf("at-close-return/gomaxprocs/%d", cs.Procs))
			r.Hist("at-close-return/ended-by/" + cs.Fault)
		}
		if cs.Via != "" {
			r.Hist("constructor/NewClient-over-" + cs.Via + "/" + cs.Fault + map[bool]string{true: "/" + cs.Exit, false: ""}[cs.Fault == "cut" && cs.Exit != ""])
		} else {
			r.Hist("constructor/NewClientPipe")
		}
		r.Hist("op/" + cs.Op)
		r.Hist("option-variant/" + map[bool]string{true: "default", false: cs.Opt}[cs.Opt == ""])
		for _, a := range strings.Split(cs.Opt, "+") {
			if a != "" {
				r.Hist("option/" + a)
			}
		}
		r.Hist(fmt.Sprintf("fault/%s/racers=%d", cs.Fault, cs.Racers))
		if cs.Fault == "err" || cs.Fault == "failinput" || cs.Fault == "failwrite" {
			ev := cs.Err
			if ev == "" {
				ev = "custom"
			}
			r.Hist("error-value/" + cs.Fault + "/" + ev)
		}
		if d := deaths[i]; d != nil {
			key := d.Why + "/" + d.Site
			if d.Site == "" {
				key = d.Why + "/" + cs.Op
			}
			opName := cs.Op
			if cs.Op == c04XferOp {
				opName = "connection lost with " + c04XferNames(cs) + " in flight (and the transfers started after it)"
			}
			what := fmt.Sprintf("%s: call did not return an error: process crashed (%s) in %s: %s", opName, d.Why, d.Site, d.Head)
			if !d.Confirmed {
				what += " [schedule dependent: did not die again when re-run alone 3 times]"
			}
			r.Fail(lib.Failure{Kind: "oracle", Key: key, What: what, Input: cs, Expected: "every caller is notified exactly once; no panic", Actual: d})
			r.Hist("outcome/child-died")
			continue
		}
		if results[i] == nil {
			r.Fail(lib.Failure{Kind: "tie", Key: "no-result", What: "no result for case", Input: cs})
			continue
		}
		var res c04Res
		json.Unmarshal(results[i], &res)
		racerOK += res.RacerOK
		if cs.Fault == "none" && cs.Via != "" {
			// the fault-free run of the ssh family is a case of its own: it must succeed like the one over pipes
			if op := c04OpByName(cs.Op); op != nil {
				for _, cl := range res.Calls {
					if cl.Failed && !(op.ErrOK && cl.Name == op.Name) {
						r.Fail(lib.Failure{Kind: "tie", Key: "valid-run/ssh/" + cs.Op, What: "scenario does not succeed without a fault over the in-process SSH connection", Input: cs, Actual: res.Calls})
					}
				}
			}
		}
		if res.Conn != nil && len(res.Fails) == 0 {
			connLines = append(connLines, *res.Conn)
			connInputs = append(connInputs, cs)
			connReqs += res.Conn.NReq
		}
		racerErr += res.RacerErr
		if cs.Via == "" && (cs.Fault == "cut" || cs.Fault == "err") {
			switch {
			case cs.Tail == 0:
				r.Hist("read-at-failure/error-in-a-Read-of-its-own/" + cs.Fault)
			case res.DataErr == 0:
				r.Hist("read-at-failure/data+err-asked-but-the-stream-ended-elsewhere/" + cs.Fault)
			default:
				at := "inside-a-frame"
				tot := 0
				for _, f := range res.Frames {
					tot += f
				}
				if tot == res.CutAt {
					at = "at-a-reply-boundary"
				}
				r.Hist("read-at-failure/data+err/" + cs.Fault + "/" + at)
				r.Hist(fmt.Sprintf("read-at-failure/data+err/bytes-with-the-error/%s", map[bool]string{true: fmt.Sprint(cs.Tail), false: "9+"}[cs.Tail < 9]))
				if cs.Fault == "err" {
					r.Hist("read-at-failure/data+err/error-value/" + map[bool]string{true: "custom", false: cs.Err}[cs.Err == ""])
				}
			}
		}
		r.Hist(fmt.Sprintf("in-flight-at-loss/%d", min(res.InFlight, 9)))
		if o := res.TFObs; o != nil {
			yn := func(n int) string { return map[bool]string{true: "yes", false: "no"}[n > 0] }
			r.Hist("transport-fail/observed/a-Close-call-had-returned-an-error-when-Client.Close-returned/" + yn(o.CloseErrAtReturn))
			r.Hist("transport-fail/observed/Client.Close-was-the-transport's-second-Close-call/" + yn(o.SecondClose))
			r.Hist("transport-fail/observed/a-Write-call-failed/" + yn(o.WritesFailed))
			r.Hist("transport-fail/observed/a-reply-was-completed-by-bytes-that-came-with-the-terminal-error/" + yn(o.WholeWithErr))
			r.Hist("transport-fail/observed/the-read-side-had-ended-when-Client.Close-was-called/" + yn(o.ReadEndedBefore))
		}
		if cs.Op == c04XferOp {
			b := "2-7"
			for _, lim := range []int{8, 16, 32, 64, 128, 256} {
				if res.InFlight >= lim {
					b = fmt.Sprintf("%d+", lim)
				}
			}
			if res.InFlight < 2 {
				b = fmt.Sprint(res.InFlight)
			}
			r.Hist("xfer-loss/observed-in-flight-at-loss/" + b)
			xferTrials += res.Trials
			xferTrialsBy[cs.Xfers[0].API] += res.Trials
		}
		for _, cl := range res.Calls {
			if !strings.HasPrefix(cl.Name, "after/") {
				r.Hist("scenario-call/need=" + cl.Need + "/failed=" + fmt.Sprint(cl.Failed))
			}
		}
		if len(r.Samples) < 6 && (i%(len(cases)/6+1) == 0) {
			// the forced schedule as an abstract trace (caller sends, reply order, cut point, returns) for a later model comparison
			tr := res.Trace
			if len(tr) > 24 {
				tr = append(tr[:24:24], "…")
			}
			r.Sample(map[string]any{"case": cs, "trace": tr, "calls": res.Calls, "bytes_delivered": res.CutAt})
		}
		for _, f := range res.Fails {
			kind := "oracle"
			if strings.HasPrefix(f.Key, "tie/") {
				kind = "tie"
			}
			r.Fail(lib.Failure{Kind: kind, Key: f.Key, What: f.What, Input: cs, Actual: map[string]any{"detail": f.Act, "calls": res.Calls, "trace": res.Trace}})
		}
	}
	if xferTrials > 0 {
		r.Note("xfer-loss: %d trials (connection lost in the middle of concurrent multi-chunk transfers) fitted into the cases' time allowances (%d cases at a time, nothing else running: %.1fs); by (first) transfer function: %v", xferTrials, c04XferWorkers, xferWall.Seconds(), xferTrialsBy)
	}
	r.Note("racing calls observed: %d succeeded (reply delivered before the loss), %d failed", racerOK, racerErr)
	t1 := time.Now()
	n := connCompare(c, "c04", connLines, connInputs)
	r.Note("wall: %d cases in child processes %.1fs, model comparison %.1fs", len(cases), poolWall.Seconds(), time.Since(t1).Seconds())
	r.Note("connection model: %d recorded schedules (%d requests on the wire; arrivals, complete replies, the end of the reply stream, then C B and the returns) replayed with conn.run and compared (enabledness, outcome reply:<sid>:<token>|lost|senderr of every request whose result the harness can attribute, wire, closed=1, framed, recv=stopped)", n, connReqs)
	r.Note("not expressible / not observable for conn.run: a PARTIAL reply (only the E that follows it); the byte position of a failed client→server write (a caller whose write failed is replayed as l x f without header, whatever part of the frame had left); per-request results inside a multi-request call that failed (masked); the requests of the multi-chunk calls started after the fault, which never reach the wire (only the ids they consumed appear, as callers that draw an id and stay pending); the relative order of putChannel/Lock steps of different callers and of f against B (any order consistent with the observed wire order and the observed error class is chosen)")
}

var _ = peers.ErrTimeout
