package main

// C08, client side: the replies a Client decodes are decoding entry points too ("allocates memory at most in
// proportion to the number of input bytes"). A reduced family of C20's cases is run through C20's own child
// (`vh child c20`: one fresh Client per case against a scripted peer, GC off, data-segment limit, allocation
// metered as a TotalAlloc delta around the call) — the machinery of c20.go / cli_*.go is called, not copied:
// the client operations whose replies carry counts or lengths, every reply of the operation, the valid reply
// and the other count/length-carrying reply kinds (STATUS with message, HANDLE, DATA, NAME x2, ATTRS with extended pairs) put in its
// place, each count/length word inflated to 2^16, 2^24, 2^31-1, 2^32-1.

import (
	"encoding/json"
	"fmt"
	"runtime"
	"strings"
	"time"

	"verifharness/lib"
	"verifharness/wire"
)

var c08ClientOps = []string{"Stat", "Lstat", "File.Stat", "ReadDir", "ReadLink", "RealPath", "Getwd", "Open", "Create", "StatVFS",
	"File.Read", "File.ReadAt-single", "File.ReadAt-sequential", "File.ReadAt-concurrent", "File.WriteTo-sequential", "File.WriteTo-concurrent"}

// c08ClientOverOps: the operations that decode DATA replies — each has its own decoder (readChunkAt for Read, the
// single-chunk and the sequential ReadAt and the sequential WriteTo; the worker goroutines of the concurrent ReadAt;
// the worker goroutines of the concurrent WriteTo, which slice a pooled chunk buffer). Every READ of theirs is answered
// with a WELL-FORMED DATA reply carrying more bytes than were asked for (c20.go: mutation "over").
var c08ClientOverOps = []string{"File.Read", "File.ReadAt-single", "File.ReadAt-single-short", "File.ReadAt-sequential", "File.ReadAt-concurrent", "File.ReadAt-concurrent-eof",
	"File.ReadAt-concurrent-2workers", "File.WriteTo-sequential", "File.WriteTo-concurrent", "File.WriteTo-concurrent-fstat", "File.WriteTo-concurrent-2workers"}

// c08ClientOverBy: 1 and 9 bytes, one chunk (MaxPacket is 16 in the operation table) and 200000 bytes more than requested.
var c08ClientOverBy = []int{1, 9, cliMaxPacket, 200000}

var c08ClientBases = []string{"valid", "status-fail", "handle", "data", "name2", "attrs"}

var c08ClientVals = []uint32{1 << 16, 1 << 24, 1<<31 - 1, 1<<32 - 1}

func c08IsSizeField(name string) bool {
	return strings.HasSuffix(name, "-count") || strings.HasSuffix(name, "-len")
}

func c08ClientAlloc(c *lib.Ctx, replay *c20Case) {
	r := c.R
	workers := min(runtime.NumCPU(), 16)
	var cases []c20Case
	if replay != nil {
		cases = []c20Case{*replay}
	} else {
		known := map[string]bool{}
		for _, op := range cliOps() {
			known[op.Name] = true
		}
		var ops []string
		var dryCases []json.RawMessage
		fieldOp := map[string]bool{}
		for _, name := range c08ClientOps {
			fieldOp[name] = true
		}
		overOp := map[string]bool{}
		all := append([]string(nil), c08ClientOps...)
		for _, name := range c08ClientOverOps {
			overOp[name] = true
			if !fieldOp[name] {
				all = append(all, name)
			}
		}
		for _, name := range all {
			if !known[name] {
				r.Fail(lib.Failure{Kind: "tie", Key: "clientalloc/unknown-op", What: "operation " + name + " is not in the client operation table (cli_ops.go)"})
				continue
			}
			ops = append(ops, name)
			b, _ := json.Marshal(c20Case{Op: name, Idx: -1, Mut: c20Mut{Base: "valid", Kind: "none"}})
			dryCases = append(dryCases, b)
		}
		results, deaths, err := cliRunPoolC("c20", nil, dryCases, workers, 90*time.Second, nil, func(i int) string { return "c08/client/" + ops[i] })
		if err != nil {
			r.Fail(lib.Failure{Kind: "tie", Key: "clientalloc/child-start", What: err.Error()})
			return
		}
		for i, name := range ops {
			if deaths[i] == cliNotRun {
				continue
			}
			var res c20Res
			if deaths[i] != nil || results[i] == nil || json.Unmarshal(results[i], &res) != nil || len(res.Fails) > 0 || len(res.Replies) == 0 {
				r.Fail(lib.Failure{Kind: "tie", Key: "clientalloc/valid-replies/" + name, What: "the operation does not run against the fake server's valid replies", Actual: deaths[i]})
				continue
			}
			c20DryCache.Store(name, res.Replies)
			if overOp[name] {
				// over-delivering DATA: every READ of the operation (the deterministic prefix of a concurrent WriteTo)
				for j := 0; j < c20Nrep(name, res) && j < len(res.ReqTyps); j++ {
					if res.ReqTyps[j] != int(wire.Read) {
						continue
					}
					for _, n := range c08ClientOverBy {
						cases = append(cases, c20Case{Op: name, Idx: j, Mut: c20Mut{Base: "valid", Kind: "over", N: n}})
					}
				}
			}
			if !fieldOp[name] {
				continue
			}
			nrep := min(len(res.Replies), 6)
			for j := 0; j < nrep; j++ {
				valid := lib.UnHex(res.Replies[j])
				for _, base := range c08ClientBases {
					fr := valid
					if base != "valid" {
						fr = c20Base(base, 1)
						if fr[4] == valid[4] {
							continue // same kind as the valid reply, whose own words are all treated
						}
					}
					for _, f := range cliReplyFields(fr) {
						if !c08IsSizeField(f.Name) {
							continue
						}
						for _, v := range c08ClientVals {
							if v != f.Val {
								cases = append(cases, c20Case{Op: name, Idx: j, Mut: c20Mut{Base: base, Kind: "field", Off: f.Off, Field: f.Name, Val: v}})
							}
						}
					}
				}
			}
		}
	}
	raws := make([]json.RawMessage, len(cases))
	for i, cs := range cases {
		raws[i], _ = json.Marshal(cs)
	}
	results, deaths, err := cliRunPoolC("c20", nil, raws, workers, 90*time.Second, nil, func(i int) string { return "c08/client/" + cases[i].Op })
	if err != nil {
		r.Fail(lib.Failure{Kind: "tie", Key: "clientalloc/child-start", What: err.Error()})
		return
	}
	var maxAlloc uint64
	failing := map[string]int{}
	for i, cs := range cases {
		if deaths[i] == cliNotRun {
			continue
		}
		in := c08Case{Entry: "client", Kind: cs.Op, Mut: "reply-field", Client: &cases[i]}
		r.Case(fmt.Sprintf("client %s#%d %s", cs.Op, cs.Idx, cs.Mut), true)
		field := cs.Mut.Field
		if k := strings.Index(field, "-"); k >= 0 && strings.HasPrefix(field, "name") && field != "name-count" {
			field = "nameN" + field[k:]
		}
		if cs.Mut.Kind == "over" {
			in.Mut = "reply-data-over"
			r.Hist(fmt.Sprintf("client-data-over/+%d", cs.Mut.N))
			r.Hist("client-data-over/" + cs.Op)
		} else {
			r.Hist("client-" + map[bool]string{true: "valid", false: "substituted"}[cs.Mut.Base == "valid"] + "/" + field)
		}
		expected := "the call returns a value or an error having allocated at most 64 x reply bytes + 1 MiB"
		if d := deaths[i]; d != nil {
			if !d.Confirmed {
				continue // not reproducible alone: schedule dependent, C20's business
			}
			switch d.Why {
			case "oom", "fatal":
				failing[cs.Op]++
				r.Fail(lib.Failure{Kind: "oracle", Key: "clientalloc/" + cs.Op, What: fmt.Sprintf("decoding this reply killed the client process (%s) in %s: %s", d.Why, d.Site, d.Head),
					Input: in, Expected: expected, Actual: map[string]any{"reply_sent": c20Describe(cs) + " (id shown as aaaaaaaa)", "death": d.Head, "site": d.Site}})
			case "panic":
				failing[cs.Op]++
				r.Fail(lib.Failure{Kind: "oracle", Key: "clientpanic/" + cs.Op, What: fmt.Sprintf("decoding this reply panicked in %s: %s", d.Site, d.Head),
					Input: in, Expected: "a value or an error, never a panic", Actual: map[string]any{"reply_sent": c20Describe(cs) + " (id shown as aaaaaaaa)", "death": d.Head, "site": d.Site}})
			}
			continue
		}
		if results[i] == nil {
			continue
		}
		var res c20Res
		if json.Unmarshal(results[i], &res) != nil || !res.Reached {
			continue
		}
		maxAlloc = max(maxAlloc, res.Alloc)
		for _, f := range res.Fails {
			if strings.HasPrefix(f.Key, "alloc/") {
				failing[cs.Op]++
				r.Fail(lib.Failure{Kind: "oracle", Key: "clientalloc/" + cs.Op, What: f.What, Input: in, Expected: expected,
					Actual: map[string]any{"reply_sent": res.Sent, "allocated": res.Alloc, "reply_bytes": res.Recv, "outcome": res.Outcome, "err": res.Err}})
			}
		}
	}
	if len(failing) > 0 {
		r.Note("client reply decoding: failing cases per operation: %v", failing)
	}
	if replay == nil {
		r.Note("client reply decoding: %d cases (%d operations x replies x count/length words x {2^16, 2^24, 2^31-1, 2^32-1}; %d DATA-decoding operations x every READ x DATA replies carrying 1, 9, 16 (one chunk), 200000 bytes more than requested); largest allocation during one call: %d bytes", len(cases), len(c08ClientOps), len(c08ClientOverOps), maxAlloc)
		if len(cases) > 0 {
			r.Sample(c08Case{Entry: "client", Kind: cases[0].Op, Mut: "reply-field", Client: &cases[0]})
		}
	}
}
