package main

// C11 model comparison: every session the C11 harness runs is also replayed in the executable
// Lean model of the handle table (lean/Sftp/Model/Handles.lean) through the driver op
//
//	c11.run <cfg> <action>*        actions O:<r|w|b|l> N U:<h> R:<h> W:<h> D:<h> C:<h> Z:<0|1>
//
// with the EXTENDED configuration token `<8 bits>:<kinds>` printed by `c11.cur rs|os` (the six bits of
// before + sweepEmptiesTable + useKindChecked, and the kinds of object that are told about a transfer
// error).  READ / WRITE / READDIR are kind-checked uses (R: W: D:), FSTAT / FSETSTAT fit every handle (U:);
// a live handle of the wrong kind gives the status class `wrongkind`: on the request server the
// servesPacket refusal (the object is not called), on the os-backed server the file's own error (the
// object IS called).  The result carries, besides statuses / objects / table, `handles=` (the handle
// issued by every O action) and `kinds=` (the kind of every object), both compared.
//
// Child side (ssMRec): while ssRunC11 drives the real server, the recorder writes down the
// actions in the order the server processed them and what the implementation showed for each
// (status class, handle string issued) and, at the end, for every object (closed / TransferError /
// context cancelled / touched) and for the handle table.
//
// Order.  Every C11 session is driven one step at a time: the reply (all replies of a burst) is
// read before the next step is sent, so the processing order of the steps is the order they were
// sent in.  The copies of a pipelined burst are the SAME request; the model action is repeated
// and the statuses of the burst are compared as a multiset (which copy a worker served first is
// not observable and makes no difference to the table).  In mode "noreply" the last request is
// still read completely by the server before the stream ends, its reply is taken from the drained
// output.  A partial next frame ("mid", "breakmid") is never dispatched.
//
// What the sweep sees (the Z bit).  request-server.go: serveLoop only ever returns a non-nil
// error (io.EOF on a clean end, turned into io.ErrUnexpectedEOF inside the sweep), so the sweep
// of the request server always runs with err != nil: Z:1 in every mode.  server.go: io.EOF on a
// packet boundary becomes nil (Z:0 for "eof" and "noreply"), anything else stays (Z:1).
//
// Parent side (ssModelCmp): lines are de-duplicated per batch and sent to the driver in bulk.

import (
	"fmt"
	"io/fs"
	"os"
	"regexp"
	"sort"
	"strconv"
	"strings"
	"sync"
	"sync/atomic"

	"github.com/pkg/sftp"

	"verifharness/lib"
	"verifharness/wire"
)

// ---------- os-backed server: counting wrapper around an open file ----------

type ssCntFile struct {
	f      sftp.VerifFile
	calls  atomic.Int32 // Stat ReadAt WriteAt Readdir Truncate Chmod Chown
	closed atomic.Int32
}

func (c *ssCntFile) Stat() (os.FileInfo, error)             { c.calls.Add(1); return c.f.Stat() }
func (c *ssCntFile) ReadAt(b []byte, o int64) (int, error)  { c.calls.Add(1); return c.f.ReadAt(b, o) }
func (c *ssCntFile) WriteAt(b []byte, o int64) (int, error) { c.calls.Add(1); return c.f.WriteAt(b, o) }
func (c *ssCntFile) Readdir(n int) ([]os.FileInfo, error)   { c.calls.Add(1); return c.f.Readdir(n) }
func (c *ssCntFile) Name() string                           { return c.f.Name() } // a name, not a use of the file
func (c *ssCntFile) Truncate(n int64) error                 { c.calls.Add(1); return c.f.Truncate(n) }
func (c *ssCntFile) Chmod(m fs.FileMode) error              { c.calls.Add(1); return c.f.Chmod(m) }
func (c *ssCntFile) Chown(u, g int) error                   { c.calls.Add(1); return c.f.Chown(u, g) }
func (c *ssCntFile) Close() error                           { c.closed.Add(1); return c.f.Close() }

// ---------- the trace a child hands back ----------

type ssMObj struct { // -1: not observable
	Closed  int    `json:"c"`
	TE      int    `json:"t"`
	Ctx     int    `json:"x"`
	Touched int    `json:"u"`
	Kind    string `json:"k,omitempty"`
	Let     string `json:"l,omitempty"` // kind letter of the model: r w b l
}

type ssMTrace struct {
	Acts      []string `json:"a"`           // actions in processing order (without the sweep)
	Impl      []string `json:"i"`           // status class the implementation showed, per action
	Grp       []int    `json:"g"`           // actions with the same number belong to one burst
	Issued    []string `json:"h,omitempty"` // handle string of every O action, in order
	Objs      []ssMObj `json:"o,omitempty"` // one per O action: the object behind the handle
	PCtx      []int    `json:"p,omitempty"` // rs: per N action, context of the failed handler call cancelled (1/0); nil: not observable
	Z         int      `json:"z"`
	PreN      int      `json:"pn"`            // table size just before the connection was ended (-1: not sampled)
	Pre       []string `json:"pre,omitempty"` // os: the issued handle strings found in the table then
	PreSet    bool     `json:"ps,omitempty"`  // Pre is meaningful
	PostN     int      `json:"qn"`            // table size after Serve returned (-1: not sampled)
	Post      []string `json:"q,omitempty"`   // os: the issued handle strings still in the table after Serve
	PostSet   bool     `json:"qs,omitempty"`  // Post is meaningful
	Dropped   int      `json:"d,omitempty"`   // requests the driver has no action for (INIT and path requests)
	RODropped int      `json:"rd,omitempty"`  // … of these: WRITE / FSETSTAT refused by a ReadOnly() server
	Wrong     int      `json:"wk,omitempty"`  // READ / WRITE / READDIR sent on a live handle of another kind
	Skip      string   `json:"s,omitempty"`   // the session cannot be compared: why
}

type ssMSnap struct {
	rs map[int]int // object id -> Reads+Writes+Ls
	os []int32
}

type ssMPending struct {
	i    int
	q    ssReq
	hk   string
	live bool
	n    int
	pre  ssMSnap
}

type ssMRec struct {
	s       *ssSess
	t       ssMTrace
	bogus   map[string]string
	objOf   map[string]int // handle string -> index of the latest object issued under it
	rsID    []int          // rs: handler object id per object index (-1 unknown)
	lets    []string       // kind letter per object index
	files   []*ssCntFile   // os: wrapper per object index (nil: could not be wrapped)
	touched []int
	lastID  int
	pend    *ssMPending
}

func newSSMRec(s *ssSess) *ssMRec {
	return &ssMRec{s: s, t: ssMTrace{PreN: -1, PostN: -1}, bogus: map[string]string{}, objOf: map[string]int{}}
}

func (m *ssMRec) skip(why string) {
	if m.t.Skip == "" {
		m.t.Skip = why
	}
}

// hnum renders a handle string a client sent as a handle NUMBER of the model: the number it is the
// decimal form of, else a number that is never issued.
func (m *ssMRec) hnum(h string) string {
	if n, err := strconv.Atoi(h); err == nil && n >= 0 && strconv.Itoa(n) == h && n < 900000 {
		return h
	}
	if v, ok := m.bogus[h]; ok {
		return v
	}
	v := strconv.Itoa(1000000 + len(m.bogus))
	m.bogus[h] = v
	return v
}

func (m *ssMRec) snap() ssMSnap {
	var sn ssMSnap
	if m.s.cfg.Kind == "rs" {
		sn.rs = map[int]int{}
		for _, o := range m.s.fs.objStates() {
			sn.rs[o.ID] = o.Reads + o.Writes + o.Ls
		}
		return sn
	}
	for _, f := range m.files {
		if f == nil {
			sn.os = append(sn.os, 0)
		} else {
			sn.os = append(sn.os, f.calls.Load())
		}
	}
	return sn
}

// delta returns, per object index, how far its call counter advanced since pre.
func (m *ssMRec) delta(pre ssMSnap) map[int]int {
	now := m.snap()
	out := map[int]int{}
	if m.s.cfg.Kind == "rs" {
		for idx, id := range m.rsID {
			if d := now.rs[id] - pre.rs[id]; id >= 0 && d > 0 {
				out[idx] = d
			}
		}
		return out
	}
	for idx := range now.os {
		if idx < len(pre.os) {
			if d := int(now.os[idx] - pre.os[idx]); d > 0 {
				out[idx] = d
			}
		}
	}
	return out
}

const ssEBADFText = "bad file descriptor"

// the refusal of packetWorker's `!request.servesPacket(pkt)` branch (request-server.go)
const ssWrongKindText = "request does not fit the kind of its handle"

// ssMClass is the status class of the reply to a handle-bearing request.
//   - ebadf: FAILURE with exactly the EBADF text (the table lookup failed; a file's own EBADF reads
//     "read <path>: bad file descriptor" and is not this);
//   - wrongkind (READ / WRITE / READDIR only): request server — FAILURE with exactly the servesPacket text,
//     whatever the harness thinks of the handle; os-backed server — the harness saw the handle live with a
//     kind the request does not fit and the reply is a failure status (the file's own error);
//   - ok: everything else (DATA, NAME, ATTRS, OK, EOF and the errors of a fitting request).
func ssMClass(rsKind bool, q ssReq, mismatch bool, rep wire.Pkt) string {
	if rep.Typ != wire.Status {
		return "ok"
	}
	d := wire.D{B: rep.Body}
	d.U32()
	code := d.U32()
	msg := d.Str()
	if code == wire.Failure && msg == ssEBADFText {
		return "ebadf"
	}
	if q.Kind == "read" || q.Kind == "write" || q.Kind == "readdir" {
		if rsKind && code == wire.Failure && msg == ssWrongKindText {
			return "wrongkind"
		}
		if !rsKind && mismatch && code != wire.OK {
			return "wrongkind"
		}
	}
	return "ok"
}

var ssKindLetter = map[string]string{"r": "r", "w": "w", "rw": "b", "dir": "l", "reader": "r", "writer": "w", "lister": "l"}

func (m *ssMRec) act(tok, impl string, grp int) {
	m.t.Acts = append(m.t.Acts, tok)
	m.t.Impl = append(m.t.Impl, impl)
	m.t.Grp = append(m.t.Grp, grp)
}

// defer_ remembers a request whose reply is only available after Serve returned (mode noreply).
func (m *ssMRec) defer_(i int, q ssReq, hk string, live bool, n int, pre ssMSnap) {
	m.pend = &ssMPending{i, q, hk, live, n, pre}
}

// record writes down step i (request q, sent n times in one write) with its replies.
// hk / live: kind of the handle q names and whether the harness saw it open when the step was sent.
// late: the replies were drained after Serve returned (the object of an OPEN cannot be instrumented any more).
func (m *ssMRec) record(i int, q ssReq, hk string, live bool, reps []wire.Pkt, pre ssMSnap, late bool) {
	rsKind := m.s.cfg.Kind == "rs"
	switch q.Kind {
	case "open", "opendir":
		if len(reps) != 1 {
			m.skip("open-reply-count")
			return
		}
		var fresh []cntObjState
		if rsKind {
			for _, o := range m.s.fs.objStates() {
				if o.Kind != "statlister" && o.ID > m.lastID {
					fresh = append(fresh, o)
					m.lastID = o.ID
				}
			}
		}
		h, isHandle := ssHandleOf(reps[0])
		switch {
		case isHandle:
			// the kind of the object behind the handle: request server — the object the handler returned
			// (observed); os-backed — how the file was opened (READ / WRITE bits of the request, OPENDIR)
			let := ssKindLetter[m.s.trk.handleKind(q)]
			if rsKind && len(fresh) == 1 {
				let = ssKindLetter[fresh[0].Kind]
			}
			m.act("O:"+let, "ok", i)
			m.lets = append(m.lets, let)
			m.t.Issued = append(m.t.Issued, h)
			idx := len(m.touched)
			m.touched = append(m.touched, 0)
			m.objOf[h] = idx
			if rsKind {
				id := -1
				if len(fresh) == 1 {
					id = fresh[0].ID
				} else {
					m.skip("rs-open-without-exactly-one-new-object")
				}
				m.rsID = append(m.rsID, id)
			} else {
				var w *ssCntFile
				if !late {
					sftp.VerifSwapFile(m.s.srv.OS, h, func(f sftp.VerifFile) sftp.VerifFile { w = &ssCntFile{f: f}; return w })
				}
				m.files = append(m.files, w)
			}
		case reps[0].Typ == wire.Status:
			m.act("N", "fail", i)
			if len(fresh) != 0 {
				m.skip("rs-object-created-by-failed-open")
			}
		default:
			m.skip("illegal-open-reply")
		}
	case "close", "read", "write", "fstat", "fsetstat", "readdir":
		if m.s.cfg.RO && !rsKind && ssModifies(q) {
			// ReadOnly(): WRITE and FSETSTAT are refused before the handle table is consulted — like the path
			// requests they are no action of the handle-table model (the direct oracles judge the refusal)
			m.t.Dropped++
			m.t.RODropped++
			return
		}
		mismatch := live && ssMismatch(q.Kind, hk)
		tok := map[string]string{"close": "C:", "read": "R:", "write": "W:", "readdir": "D:", "fstat": "U:", "fsetstat": "U:"}[q.Kind]
		if !rsKind && q.Kind == "write" && q.WrLen == 0 {
			// os-backed: WriteAt of no bytes never reaches the descriptor (it succeeds on any open file): a use
			// that fits every handle
			tok, mismatch = "U:", false
		}
		if mismatch {
			m.t.Wrong++
		}
		tok += m.hnum(q.Handle)
		nOk := 0
		for _, rep := range reps {
			c := ssMClass(rsKind, q, mismatch, rep)
			if c == "ok" {
				nOk++
			}
			m.act(tok, c, i)
		}
		if q.Kind == "close" {
			return
		}
		adv := m.delta(pre)
		for idx, d := range adv {
			if len(reps) == 1 {
				d = 1 // one request = one use, however many calls it makes (FSETSTAT size+mode)
			}
			m.touched[idx] += d
		}
		if len(adv) == 0 && nOk > 0 {
			// found but no call on the object itself: FSTAT / FSETSTAT of the request server go to the
			// handlers with a fresh Request; FSETSTAT without size/mode/owner makes no call on the file
			if idx, ok := m.objOf[q.Handle]; ok {
				m.touched[idx] += nOk
			}
		}
	default:
		m.t.Dropped++ // INIT and path requests: no action in the driver, no effect on the table
	}
}

// samplePre looks at the table while the connection is still up and every reply has been read.
func (m *ssMRec) samplePre() {
	if m.s.cfg.Kind == "rs" {
		m.t.PreN = sftp.VerifOpenRequests(m.s.srv.RS)
		return
	}
	m.t.PreN = sftp.VerifOpenHandles(m.s.srv.OS)
	m.t.PreSet = true
	seen := map[string]bool{}
	for _, h := range m.t.Issued {
		if !seen[h] && sftp.VerifSwapFile(m.s.srv.OS, h, func(f sftp.VerifFile) sftp.VerifFile { return f }) {
			m.t.Pre = append(m.t.Pre, h)
		}
		seen[h] = true
	}
}

// finish is called after Serve returned; extra are the frames drained from the output after the end.
func (m *ssMRec) finish(end ssEnd, extra []wire.Pkt) *ssMTrace {
	rsKind := m.s.cfg.Kind == "rs"
	if p := m.pend; p != nil {
		var reps []wire.Pkt
		for k := 0; k < p.n; k++ {
			id := p.q.ID
			if p.n > 1 {
				id = ssBurstID(p.i, k)
			}
			for _, e := range extra {
				if (p.q.Kind == "init" && e.Typ == wire.Version) || (p.q.Kind != "init" && e.Typ != wire.Version && e.ID() == id) {
					reps = append(reps, e)
					break
				}
			}
		}
		if len(reps) != p.n {
			m.skip("noreply-response-missing") // lost trailing responses are C02's subject
		} else {
			m.record(p.i, p.q, p.hk, p.live, reps, p.pre, true)
		}
	}
	m.t.Z = 1
	if !rsKind && end.cleanEOF() {
		m.t.Z = 0
	}
	if rsKind {
		m.t.PostN = sftp.VerifOpenRequests(m.s.srv.RS)
		st := map[int]cntObjState{}
		for _, o := range m.s.fs.objStates() {
			st[o.ID] = o
		}
		for idx, id := range m.rsID {
			o, ok := st[id]
			if !ok {
				m.t.Objs = append(m.t.Objs, ssMObj{Closed: -1, TE: -1, Ctx: -1, Touched: -1, Kind: "?"})
				continue
			}
			mo := ssMObj{Closed: o.Closed, TE: o.TE, Ctx: 0, Touched: m.touched[idx], Kind: o.Kind}
			if o.CtxDone {
				mo.Ctx = 1
			}
			if idx < len(m.lets) {
				mo.Let = m.lets[idx]
			}
			// an object without the optional method cannot show what the model counts (ssCfg.Without):
			// not observable, not compared; the rest of the session is
			if !o.HasClose {
				mo.Closed = -1
			}
			if !o.HasTE {
				mo.TE = -1
			}
			m.t.Objs = append(m.t.Objs, mo)
		}
		nN := 0
		for _, a := range m.t.Acts {
			if a == "N" {
				nN++
			}
		}
		if fo := m.s.fs.failedOpenStates(); len(fo) == nN {
			m.t.PCtx = make([]int, 0, nN)
			for _, done := range fo {
				v := 0
				if done {
					v = 1
				}
				m.t.PCtx = append(m.t.PCtx, v)
			}
		}
	} else {
		for idx, f := range m.files {
			let := ""
			if idx < len(m.lets) {
				let = m.lets[idx]
			}
			if f == nil {
				m.t.Objs = append(m.t.Objs, ssMObj{Closed: -1, TE: -1, Ctx: -1, Touched: -1, Kind: "file", Let: let})
				continue
			}
			m.t.Objs = append(m.t.Objs, ssMObj{Closed: int(f.closed.Load()), TE: -1, Ctx: -1, Touched: m.touched[idx], Kind: "file", Let: let})
		}
		// the table after Serve: server.go's sweep closes the files and leaves the entries where they are
		m.t.PostN = sftp.VerifOpenHandles(m.s.srv.OS)
		m.t.PostSet = true
		seen := map[string]bool{}
		for _, h := range m.t.Issued {
			if !seen[h] && sftp.VerifSwapFile(m.s.srv.OS, h, func(f sftp.VerifFile) sftp.VerifFile { return f }) {
				m.t.Post = append(m.t.Post, h)
			}
			seen[h] = true
		}
	}
	return &m.t
}

// ---------- parent: batching, the driver, the comparison ----------

type ssMItem struct {
	j     *ssPJob
	t     *ssMTrace
	serve string
}

type ssModelCmp struct {
	c      *lib.Ctx
	cfgTok map[string]string // server kind -> extended configuration token `<8 bits>:<kinds>`
	batch  int

	pend []ssMItem
	ch   chan []ssMItem
	wg   sync.WaitGroup

	// filled by the comparing goroutine, merged by close()
	hist     map[string]int
	fails    []lib.Failure
	compared map[string]int
	lines    int
	err      error
}

func newSSModelCmp(c *lib.Ctx) *ssModelCmp {
	if c.ModelPath == "" {
		return nil
	}
	m := &ssModelCmp{c: c, batch: 2000, ch: make(chan []ssMItem, 4), hist: map[string]int{}, compared: map[string]int{}}
	m.cfgTok = map[string]string{"rs": ssMCurCfg(c, "rs", "11111111:rwb"), "os": ssMCurCfg(c, "os", "11101000:.")}
	for _, k := range []string{"rs", "os"} { // self-test of the comparison: replay in a configuration that is NOT the code's
		if v := os.Getenv("VH_C11_CFG_" + strings.ToUpper(k)); v != "" {
			m.cfgTok[k] = v
			c.R.Note("VH_C11_CFG_%s is set: %s sessions are replayed in configuration %s", strings.ToUpper(k), k, v)
		}
	}
	m.wg.Add(1)
	go func() {
		defer m.wg.Done()
		for b := range m.ch {
			m.run(b)
		}
	}()
	return m
}

var ssMCfgTok = regexp.MustCompile(`^[01]{8}:(\.|[rwblp]+)$`)

// ssMCurCfg asks the driver for the extended configuration token regenerated from the source
// (`c11.cur rs|os`); pinned is the token the harness was written against (used when the driver does not answer).
func ssMCurCfg(c *lib.Ctx, kind, pinned string) string {
	saved := c.R.ModelCases
	out, err := c.Model([]string{"c11.cur " + kind})
	c.R.ModelCases = saved
	if err != nil || len(out) != 1 || !ssMCfgTok.MatchString(out[0]) {
		c.R.Note("driver does not serve `c11.cur %s` (%v %q): %s sessions are replayed in the pinned configuration %s", kind, err, out, kind, pinned)
		return pinned
	}
	if out[0] != pinned {
		c.R.Note("configuration regenerated from the source for c11 %s is %s (the configuration the harness was written against: %s); sessions are replayed in the regenerated one", kind, out[0], pinned)
	} else {
		c.R.Note("model configuration for c11 %s taken from `c11.cur %s`: %s", kind, kind, out[0])
	}
	return out[0]
}

// add queues one finished session (called serialised).
func (m *ssModelCmp) add(j *ssPJob, res *ssResult) {
	if m == nil {
		return
	}
	if res.Model == nil {
		m.c.R.Hist("model/skip/no-trace(child died, hang or unanswered request)")
		return
	}
	if res.Model.Skip != "" {
		m.c.R.Hist("model/skip/" + res.Model.Skip)
		return
	}
	if why := ssModelInexpressible(j.Cfg); why != "" {
		m.c.R.Hist("model/skip/configuration/" + why)
		return
	}
	if res.Model.Wrong > 0 {
		m.c.R.Hist("model/compared-with/requests-on-a-live-handle-of-the-wrong-kind")
	}
	if res.Model.RODropped > 0 {
		m.c.R.Hist("model/compared-without/readonly-refused-handle-requests")
	}
	for _, o := range res.Model.Objs {
		if o.Closed < 0 && o.Kind != "file" && o.Kind != "?" {
			m.c.R.Hist("model/compared-without/closed-count-of-objects-without-Close")
			break
		}
	}
	m.pend = append(m.pend, ssMItem{j, res.Model, res.ServeErr})
	if len(m.pend) >= m.batch {
		m.ch <- m.pend
		m.pend = nil
	}
}

// ssModelInexpressible names the reason why sessions of this configuration cannot be replayed in the
// handle-table model at all ("" = they can).  Such sessions are skipped for the model comparison only —
// every direct oracle still judges them — and counted under model/skip/configuration/<reason>.
//
// What the configuration dimensions need: ReadOnly(), WithDebug, start / working directories and
// the handler-interface variants lstat / posixrename / statvfs do not change the handle table; objects
// without Close / TransferError make single fields unobservable (compared without them); without
// OpenFileWriter a read-write open yields a WRITER object (O:w — READ on it is a wrong-kind use, which the
// model expresses).  Only the package's own InMemHandler gives no object view at all.
func ssModelInexpressible(cfg ssCfg) string {
	if cfg.Kind == "rs" && cfg.InMem {
		return "inmem-handler-without-object-counters"
	}
	return ""
}

// close flushes, waits for the driver and writes the outcome into the result.
func (m *ssModelCmp) close() {
	if m == nil {
		return
	}
	if len(m.pend) > 0 {
		m.ch <- m.pend
		m.pend = nil
	}
	close(m.ch)
	m.wg.Wait()
	r := m.c.R
	if m.err != nil {
		r.Fail(lib.Failure{Kind: "tie", Key: "c11/model-driver", What: m.err.Error()})
	}
	for k, n := range m.hist {
		r.HistAdd(k, n)
	}
	for _, f := range m.fails {
		r.Fail(f)
	}
	total := 0
	var per []string
	for _, k := range lib.SortedKeys(m.compared) {
		total += m.compared[k]
		per = append(per, fmt.Sprintf("%s=%d", k, m.compared[k]))
	}
	r.ModelCases += total
	r.Note("model comparison (c11.run): %d sessions compared (%s) with %d distinct driver lines; per session: status class of every handle request, handle string of every OPEN/OPENDIR (handles=), kind of every object (kinds=), per object closed/TransferError/context/touched after Serve (TransferError of listers included: expected 0), table before the end and after it on both servers", total, strings.Join(per, " "), m.lines)
}

type ssMOut struct {
	raw    string
	status []string
	objs   [][]string // closed terr ctx touched r|p
	open   []string
	ext    bool     // the two fields of the extended form are present
	issued []string // handles=: the handle issued by every O action
	kinds  []string // kinds=: kind letter of every object (p = placeholder)
}

func ssMParse(s string) (o ssMOut, ok bool) {
	o.raw = s
	f := strings.Fields(s)
	if (len(f) != 3 && len(f) != 5) || !strings.HasPrefix(f[0], "status=") || !strings.HasPrefix(f[1], "objs=") || !strings.HasPrefix(f[2], "open=") {
		return o, false
	}
	if len(f) == 5 && (!strings.HasPrefix(f[3], "handles=") || !strings.HasPrefix(f[4], "kinds=")) {
		return o, false
	}
	list := func(x string) []string {
		if x == "." || x == "" {
			return nil
		}
		return strings.Split(x, ",")
	}
	o.status = list(f[0][7:])
	for _, g := range list(f[1][5:]) {
		p := strings.Split(g, "/")
		if len(p) != 5 {
			return o, false
		}
		o.objs = append(o.objs, p)
	}
	o.open = list(f[2][5:])
	if len(f) == 5 {
		o.ext, o.issued, o.kinds = true, list(f[3][8:]), list(f[4][6:])
	}
	return o, true
}

func ssSortedCopy(l []string) []string {
	c := append([]string(nil), l...)
	sort.Strings(c)
	return c
}

func (m *ssModelCmp) run(items []ssMItem) {
	if m.err != nil {
		return
	}
	idx := map[string]int{}
	var lines []string
	line := func(cfg string, acts []string, z int) int {
		var sb strings.Builder
		sb.WriteString("c11.run ")
		sb.WriteString(cfg)
		for _, a := range acts {
			sb.WriteByte(' ')
			sb.WriteString(a)
		}
		if z >= 0 {
			sb.WriteString(" Z:")
			sb.WriteString(strconv.Itoa(z))
		}
		l := sb.String()
		if i, ok := idx[l]; ok {
			return i
		}
		idx[l] = len(lines)
		lines = append(lines, l)
		return len(lines) - 1
	}
	type need struct {
		full, pre int
	}
	needs := make([]need, len(items))
	for k, it := range items {
		cfg := m.cfgTok[it.j.Cfg.Kind]
		n := need{full: line(cfg, it.t.Acts, it.t.Z), pre: -1}
		if it.t.PreN >= 0 {
			n.pre = line(cfg, it.t.Acts, -1)
		}
		needs[k] = n
	}
	saved := m.c.R.ModelCases
	out, err := m.c.Model(lines)
	m.c.R.ModelCases = saved
	if err != nil {
		m.err = err
		return
	}
	m.lines += len(lines)
	for k, it := range items {
		kind := it.j.Cfg.Kind
		why, actual := ssMDiff(it, lines, out, needs[k].full, needs[k].pre)
		m.compared[kind]++
		m.hist["model/compared/"+kind+"/"+it.j.End.Mode]++
		if why == "" {
			continue
		}
		m.hist["model/differs/"+kind]++
		m.fails = append(m.fails, lib.Failure{Kind: "correspondence", Key: "c11/c11.run/" + kind,
			What:     "handle-table model and implementation differ: " + why,
			Input:    map[string]any{"cfg": it.j.Cfg, "prog": it.j.Prog, "end": it.j.End, "model_line": lines[needs[k].full]},
			Expected: out[needs[k].full], Actual: actual})
		if len(m.fails) > 64 {
			m.fails = m.fails[:64]
		}
	}
}

// ssMDiff compares one session; why == "" when model and implementation agree.
// actual renders what the implementation showed in the driver's output format (`?` = not observable).
func ssMDiff(it ssMItem, lines, out []string, full, pre int) (why, actual string) {
	t := it.t
	rsKind := it.j.Cfg.Kind == "rs"
	// the implementation in the driver's format
	var ob []string
	fld := func(v int) string {
		if v < 0 {
			return "?"
		}
		return strconv.Itoa(v)
	}
	for _, o := range t.Objs {
		ob = append(ob, fld(o.Closed)+"/"+fld(o.TE)+"/"+fld(o.Ctx)+"/"+fld(o.Touched)+"/r")
	}
	dot := func(l []string) string {
		if len(l) == 0 {
			return "."
		}
		return strings.Join(l, ",")
	}
	post := "?"
	if t.PostN >= 0 {
		post = fmt.Sprintf("(%d entries)", t.PostN)
		if t.PostSet {
			post = dot(t.Post)
		}
	}
	var lets []string
	for _, o := range t.Objs {
		lets = append(lets, o.Let)
	}
	actual = fmt.Sprintf("status=%s objs=%s open=%s handles=%s kinds=%s | failed-open contexts cancelled: %v | table before the end: %d entries %v | Serve returned: %q",
		dot(append(append([]string(nil), t.Impl...), "ok")), dot(ob), post, dot(t.Issued), dot(lets), t.PCtx, t.PreN, t.Pre, it.serve)

	if strings.HasPrefix(out[full], "blocked@") || out[full] == "bad-op" {
		return "the model does not run this session (" + out[full] + ") although the implementation did", actual
	}
	mo, ok := ssMParse(out[full])
	if !ok {
		return "unreadable driver output", actual
	}
	if !mo.ext {
		return "the driver answered in the legacy three-field form (the configuration token must be of the extended form <8 bits>:<kinds>)", actual
	}
	// 0. the error the sweep saw (os-backed server: Serve returns it)
	if !rsKind && (it.serve == "") != (t.Z == 0) {
		return fmt.Sprintf("Serve returned %q but the session end was translated to Z:%d", it.serve, t.Z), actual
	}
	// 1. statuses (bursts as multisets)
	if len(mo.status) != len(t.Acts)+1 {
		return fmt.Sprintf("the model logged %d statuses for %d actions", len(mo.status), len(t.Acts)+1), actual
	}
	for a := 0; a < len(t.Acts); {
		b := a
		for b < len(t.Acts) && t.Grp[b] == t.Grp[a] {
			b++
		}
		ms, is := ssSortedCopy(mo.status[a:b]), ssSortedCopy(t.Impl[a:b])
		for x := range ms {
			if ms[x] != is[x] {
				return fmt.Sprintf("status of action %d..%d (%s, step %d): model %v, implementation %v", a, b-1, t.Acts[a], t.Grp[a], ms, is), actual
			}
		}
		a = b
	}
	// 2. handle strings issued (handles=: one per O action, elementwise)
	if len(mo.issued) != len(t.Issued) {
		return fmt.Sprintf("number of handles issued: model %d %v, implementation %d %v", len(mo.issued), mo.issued, len(t.Issued), t.Issued), actual
	}
	for k := range t.Issued {
		if mo.issued[k] != t.Issued[k] {
			return fmt.Sprintf("handle issued by OPEN number %d: model %s, implementation %q", k+1, mo.issued[k], t.Issued[k]), actual
		}
	}
	// 3. objects
	var real, plac [][]string
	var realKinds []string
	if len(mo.kinds) != len(mo.objs) {
		return fmt.Sprintf("the model lists %d kinds for %d objects", len(mo.kinds), len(mo.objs)), actual
	}
	for x, o := range mo.objs {
		if o[4] == "r" {
			real = append(real, o)
			realKinds = append(realKinds, mo.kinds[x])
		} else {
			plac = append(plac, o)
			if mo.kinds[x] != "p" {
				return fmt.Sprintf("object %d of the model is a placeholder of kind %q", x+1, mo.kinds[x]), actual
			}
		}
	}
	if len(real) != len(t.Objs) {
		return fmt.Sprintf("number of objects: model %d, implementation %d", len(real), len(t.Objs)), actual
	}
	// 3a. kinds=: the kind of every object (request server: the object the handler returned; os-backed: how the file was opened)
	for k, o := range t.Objs {
		if o.Let != "" && realKinds[k] != o.Let {
			return fmt.Sprintf("kind of object %d (handle %q): model %s, implementation %s (%s)", k+1, t.Issued[k], realKinds[k], o.Let, o.Kind), actual
		}
	}
	names := []string{"closed", "TransferError", "context cancelled", "touched"}
	for k, o := range t.Objs {
		iv := []int{o.Closed, o.TE, o.Ctx, o.Touched}
		for f := 0; f < 4; f++ {
			if iv[f] < 0 {
				continue
			}
			mv, _ := strconv.Atoi(real[k][f])
			if f == 2 && mv > 1 {
				mv = 1 // a context can only be observed as cancelled or not
			}
			if mv != iv[f] {
				return fmt.Sprintf("object %d (%s, handle %q) %s: model %s, implementation %d", k+1, o.Kind, t.Issued[k], names[f], real[k][f], iv[f]), actual
			}
		}
	}
	if rsKind && t.PCtx != nil && len(plac) == len(t.PCtx) {
		for k, p := range plac {
			mv, _ := strconv.Atoi(p[2])
			if (mv > 0) != (t.PCtx[k] == 1) {
				return fmt.Sprintf("context of failed OPEN number %d: model cancelled %s times, implementation cancelled=%d", k+1, p[2], t.PCtx[k]), actual
			}
		}
	}
	// 4. the table after Serve (request server: the sweep deletes the entries; the os-backed server's sweep
	//    closes the files and leaves the entries in the map)
	if t.PostN >= 0 && len(mo.open) != t.PostN {
		return fmt.Sprintf("table after Serve: model %v, implementation %d entries %v", mo.open, t.PostN, t.Post), actual
	}
	if t.PostSet {
		a, b := ssSortedCopy(mo.open), ssSortedCopy(t.Post)
		if strings.Join(a, ",") != strings.Join(b, ",") {
			return fmt.Sprintf("table after Serve: model %v, implementation %v", mo.open, t.Post), actual
		}
	}
	// 5. the table just before the end
	if pre >= 0 {
		po, ok := ssMParse(out[pre])
		if !ok {
			return "the model does not run the session up to its end: " + out[pre], actual
		}
		if len(po.open) != t.PreN {
			return fmt.Sprintf("table before the end: model %v, implementation %d entries %v", po.open, t.PreN, t.Pre), actual
		}
		if t.PreSet {
			a, b := ssSortedCopy(po.open), ssSortedCopy(t.Pre)
			if strings.Join(a, ",") != strings.Join(b, ",") {
				return fmt.Sprintf("table before the end: model %v, implementation %v", po.open, t.Pre), actual
			}
		}
	}
	return "", actual
}
