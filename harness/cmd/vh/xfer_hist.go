package main

// Histories of one served file: what a file holds is the outcome of EVERYTHING that was done to it, not of the last
// transfer alone. A single transfer on a freshly stored file (the cases of xfExec) cannot tell a backend that keeps
// bytes it should have dropped from one that does not; these sequences can:
//
//	the file holds data up to some offset hi (written through the File: WriteAt / Write / ReadFrom / ReadFromWith-
//	Concurrency, or there before the open),
//	it is SHRUNK - File.Truncate to {0, 1, mp-1, mp, half, one less}, or Close + Client.Create / OpenFile(O_TRUNC) /
//	OpenFile(O_CREATE|O_TRUNC) on the same name (op ro), or the File of the sequence itself is opened that way over a
//	name that held pre_open_len bytes -,
//	a SPARSE write follows: it starts gap bytes beyond the new end (WriteAt at size+gap; Seek beyond the end by any
//	of the three whences + Write / ReadFrom / ReadFromWithConcurrency), half of the time ending below hi (inside what
//	the file held before it was shrunk), sometimes after the file was extended again by Truncate,
//	and everything is READ BACK through the File (ReadAt of size+1 bytes at 0, Seek(0) + WriteTo, Seek(0) + Read) and
//	looked at on the server side.
//
// xfRunSeq runs a sequence call by call on the File and on an os.File twin over a local file: after every call the
// counts, bytes, errors and offsets must agree, after every mutation the served file must equal the twin (the bytes of
// a hole are zeros, whatever the file held there before). Servers: the os-backed one, the harness's handlers, the
// package's own InMemHandler (xfer_inmem.go), the scripted peer.

import (
	"math/rand"
)

// The modes a File is opened again in (op ro): plain, and the ones that shrink the file to nothing.
var xfHistReopenModes = []string{"rdwr+trunc", "create()", "rdwr+creat+trunc", "rdwr", "rdwr+trunc", "create()", "rdwr+creat"}

// xfGenHist writes a history of `rounds` rounds. emptied: the open of the sequence itself empties the file (the name
// held 3mp+2 bytes before): the first round starts with the sparse write. reopen: Close + open again may be used for
// shrinking (not for a request server whose handle serves no READ).
func xfGenHist(rng *rand.Rand, cfg xfCfg, rounds int, emptied, reopen bool) (S int, ops []xfOp) {
	mp := cfg.MP
	kc := min(cfg.Conc, 3)
	pick := func(c ...int) int { return c[rng.Intn(len(c))] }
	if !emptied {
		S = pick(0, 1, mp, mp+1, 2*mp+1, 3*mp+2, 3*mp+2)
	}
	size, pos := S, 0
	held := S // the most bytes the file has ever held (before the open: 3mp+2 for an emptied one)
	if emptied {
		held = 3*mp + 2
	}
	seed := rng.Intn(251)
	next := func() int { seed = (seed + 37) % 251; return seed }
	srcs := []string{"len", "size", "stat", "limited", "opaque", "opaque1"}
	seekTo := func(o int) {
		switch rng.Intn(3) {
		case 0:
			ops = append(ops, xfOp{K: "sk", Off: int64(o)})
		case 1:
			ops = append(ops, xfOp{K: "sk", Off: int64(o - pos), Wh: 1})
		default:
			ops = append(ops, xfOp{K: "sk", Off: int64(o - size), Wh: 2})
		}
		pos = o
	}
	write := func(at, l int) {
		if l < 1 {
			l = 1
		}
		switch rng.Intn(6) {
		case 0, 1:
			ops = append(ops, xfOp{K: "wa", N: l, Off: int64(at), Seed: next()})
		case 2, 3:
			seekTo(at)
			ops = append(ops, xfOp{K: "w", N: l, Seed: next()})
			pos = at + l
		case 4:
			seekTo(at)
			ops = append(ops, xfOp{K: "rf", N: l, Seed: next(), Src: srcs[rng.Intn(len(srcs))]})
			pos = at + l
		default:
			seekTo(at)
			ops = append(ops, xfOp{K: "rfc", N: l, Seed: next(), Conc: pick(0, 1, 3), Src: "opaque"})
			pos = at + l
		}
		size = max(size, at+l)
		held = max(held, size)
	}
	readBack := func() {
		switch rng.Intn(4) {
		case 0, 1:
			ops = append(ops, xfOp{K: "ra", N: size + 1})
		case 2:
			seekTo(0)
			ops = append(ops, xfOp{K: "wt"})
			pos = size
		default:
			seekTo(0)
			ops = append(ops, xfOp{K: "r", N: size})
			pos = size
		}
	}
	for r := 0; r < rounds; r++ {
		if !(emptied && r == 0) {
			// the file holds data up to hi
			hi := pick(mp+1, 2*mp+1, 3*mp, mp*kc+mp+1, 3*mp+2, 2*mp, 2)
			switch {
			case size < hi && rng.Intn(2) == 0:
				write(size, hi-size) // appended
			case size < hi:
				write(0, hi) // rewritten from the start
			default:
				write(pick(0, 1, mp), pick(1, mp, mp+1))
			}
			// it is shrunk
			to := pick(0, 0, 1, size/2, mp, mp-1, size-1, 2)
			to = max(0, min(to, size))
			if reopen && rng.Intn(3) == 0 {
				m := xfHistReopenModes[rng.Intn(len(xfHistReopenModes))]
				ops = append(ops, xfOp{K: "ro", Act: m})
				pos = 0
				if mode, _ := xfOpenModeByName(m); mode.Trunc() {
					size = 0
				} else if to < size {
					ops = append(ops, xfOp{K: "tr", N: to})
					size = to
				}
			} else {
				ops = append(ops, xfOp{K: "tr", N: to})
				size = to
			}
		}
		// a sparse write beyond the new end
		gap := max(1, pick(1, 1, 2, mp-1, mp, mp+1, 2*mp+1))
		l := pick(1, 2, mp, mp+1, 2*mp+1, 1)
		if rng.Intn(2) == 0 && size+gap+l > held && held > size+1 {
			// … that ends inside what the file held before
			l = max(1, min(l, (held-size)/2))
			gap = max(1, min(gap, held-size-l))
		}
		if rng.Intn(4) == 0 {
			// … after the file was extended by Truncate (a hole made by the server itself), written into from its middle
			ext := pick(1, mp, mp+1)
			ops = append(ops, xfOp{K: "tr", N: size + ext})
			size += ext
			held = max(held, size)
			if rng.Intn(2) == 0 {
				gap = -min(ext, 1+rng.Intn(ext))
			}
		}
		write(size+gap, l)
		if rng.Intn(3) == 0 {
			ops = append(ops, xfOp{K: "st"})
		}
		// everything is read back
		readBack()
		if rng.Intn(3) == 0 {
			// a second write further out, then the hole between the two is filled partly
			write(size+pick(1, mp), pick(1, mp+1))
			write(max(0, size-pick(2, mp+1, 2*mp)), 1)
			readBack()
		}
	}
	return S, append(ops, xfAfterCloseOps(rng, mp)...)
}

// xfHistCase writes the history of one job slot: rounds, open mode and what the name held before rotate with k.
func xfHistCase(rng *rand.Rand, spec xfSrvSpec, cfg xfCfg, k int) xfSeqCase {
	name := xfSeqOpenModes[k%len(xfSeqOpenModes)]
	m, _ := xfOpenModeByName(name)
	emptied := m.Empties() && !m.Fresh
	rounds := 2 + k%2
	if cfg.MP > 1000 {
		rounds = 1 + k%2
	}
	S, ops := xfGenHist(rng, cfg, rounds, emptied, !spec.NoOFW)
	sc := xfSeqCase{Srv: spec, Cfg: cfg, FileLen: S, Ops: ops, Window: 1, Tag: "history"}
	if name != "rdwr" {
		xfApplySeqOpen(&sc, name)
		if emptied {
			sc.PreLen = 3*cfg.MP + 2 // (what xfGenHist counts as held before the open)
		}
	}
	if spec.Perm {
		sc.Seed = rng.Int63() >> 11
		sc.Window = 2 + rng.Intn(cfg.Conc+1)
	}
	return sc
}

// xfHistShapes names what a history contains (histogram): how the file was shrunk before a write that starts beyond
// its end, and through which call that write went.
func xfHistShapes(sc xfSeqCase) (out []string) {
	size, pos := int64(sc.FileLen), int64(0)
	shrunk := ""
	if m := sc.Mode(); m.Empties() && sc.PreLen > 0 {
		shrunk = "open:" + m.Name
	}
	seen := map[string]bool{}
	add := func(k string) {
		if !seen[k] {
			seen[k] = true
			out = append(out, k)
		}
	}
	for _, o := range sc.Ops {
		start := int64(-1)
		switch o.K {
		case "cl":
			return out
		case "tr":
			if int64(o.N) < size {
				shrunk = "Truncate"
			}
			size = int64(o.N)
		case "ro":
			pos = 0
			if m, _ := xfOpenModeByName(o.Act); m.Trunc() {
				if size > 0 {
					shrunk = "reopen:" + m.Name
				}
				size = 0
			}
		case "sk":
			switch o.Wh {
			case 0:
				pos = o.Off
			case 1:
				pos += o.Off
			case 2:
				pos = size + o.Off
			}
		case "wa":
			start = o.Off
		case "w", "rf", "rfc":
			start = pos
			pos += int64(o.N)
		case "r":
			pos = min(size, pos+int64(o.N))
		case "wt":
			pos = max(pos, size)
		}
		if start >= 0 && o.N > 0 {
			if start > size {
				how := "no-shrink-before"
				if shrunk != "" {
					how = "after-shrink-by=" + shrunk
				}
				add("sparse-write|call=" + o.K + "|" + how)
			}
			size = max(size, start+int64(o.N))
		}
	}
	return out
}
