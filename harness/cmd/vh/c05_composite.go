package main

// C05, family "composite-model": ties the Lean model of the client composites (lean/Sftp/Model/Composite.lean,
// Client.Remove / MkdirAll / RemoveAll over the abstract file system lean/Sftp/Model/AbsFS.lean) and the
// reference semantics of package os (lean/Sftp/Spec/OsComposite.lean) to the code.
//
// For every generated (tree, path, op):
//   real client  : the tree is materialised under root A, a real *sftp.Client performs the composite through a
//                  real os-backed Server (absolute paths, or WithServerWorkingDirectory(A) and relative paths)
//   package os   : the same tree under root B, os.Remove / os.MkdirAll / os.RemoveAll
//   model        : driver ops `c05c.<op> <cfg> <fs> <path>` and `c05c.os.<op> <fs> <path>`
// and three comparisons of (resulting tree, error class):
//   correspondence c05c/<op>/client-vs-model   real Client+Server  vs  model of the composite
//   correspondence c05c/<op>/os-vs-spec        package os          vs  Spec.OsComposite
//   oracle         c05c/<op>/client-vs-os      real Client+Server  vs  package os (full snapshot, coarse category)
// Cases the driver marks `oom` (the path traverses a symbolic link in a non-final position) are outside the model:
// skipped and counted. So are cases where the chain of links that starts at the path leaves the model in a later
// hop (a link TARGET that runs through another link): the driver only classifies the path itself.

import (
	"errors"
	"fmt"
	"math/rand"
	"os"
	"path/filepath"
	"regexp"
	"runtime"
	"sort"
	"strings"
	"sync"
	"syscall"
	"time"

	"github.com/pkg/sftp"

	"verifharness/lib"
)

const c05cFamily = "composite-model"

var c05cOps = []string{"remove", "mkdirall", "removeall"}

// c05cEnt is one entry of a tree: K = d | f | l, P = "/a/b" (absolute, clean, relative to the served root),
// T = link target in the same form ("/" = the root itself).
type c05cEnt struct {
	K string `json:"k"`
	P string `json:"p"`
	T string `json:"t,omitempty"`
}

// c05cInput is the replay input of one case.
type c05cInput struct {
	Family string    `json:"family"`
	Op     string    `json:"op"`
	Mode   string    `json:"mode"` // abs | rel
	Tree   []c05cEnt `json:"tree"`
	Path   string    `json:"path"`
	Cfg    string    `json:"cfg,omitempty"`
}

// ---------------------------------------------------------------------------------------------
// text form of the driver

func c05cRenderEnts(es []c05cEnt) string {
	if len(es) == 0 {
		return "-"
	}
	ss := make([]string, 0, len(es))
	for _, e := range es {
		s := e.K + ":" + e.P
		if e.K == "l" {
			s += ">" + e.T
		}
		ss = append(ss, s)
	}
	sort.Strings(ss)
	return strings.Join(ss, ",")
}

// c05cRenderSnap renders a lib.Snapshot of root in the driver's tree syntax.
func c05cRenderSnap(snap []string, root string) string {
	var es []c05cEnt
	for _, l := range snap {
		f := strings.Fields(l)
		if len(f) < 2 || f[0] == "." {
			if len(f) >= 2 && f[1] == "ERR" {
				es = append(es, c05cEnt{K: "?", P: "/"})
			}
			continue
		}
		p := "/" + f[0]
		switch {
		case f[1] == "ERR":
			es = append(es, c05cEnt{K: "?", P: p})
		case f[1][0] == 'd':
			es = append(es, c05cEnt{K: "d", P: p})
		case f[1][0] == 'L':
			t := ""
			if i := strings.Index(l, " -> "); i >= 0 {
				t = l[i+4:]
			}
			switch {
			case t == root:
				t = "/"
			case strings.HasPrefix(t, root+"/"):
				t = t[len(root):]
			default:
				t = "!outside:" + t
			}
			es = append(es, c05cEnt{K: "l", P: p, T: t})
		case f[1][0] == '-':
			es = append(es, c05cEnt{K: "f", P: p})
		default:
			es = append(es, c05cEnt{K: "?" + f[1][:1], P: p})
		}
	}
	return c05cRenderEnts(es)
}

func c05cNormSnap(snap []string, root string) []string {
	out := make([]string, len(snap))
	for i, l := range snap {
		out[i] = strings.ReplaceAll(l, root, "<R>")
	}
	return out
}

// ---------------------------------------------------------------------------------------------
// classification of a path against a tree DESCRIPTION (histogram, and the link-chain rule for skipping)

func c05cIndex(es []c05cEnt) map[string]c05cEnt {
	m := make(map[string]c05cEnt, len(es))
	for _, e := range es {
		m[e.P] = e
	}
	return m
}

func c05cComps(p string) []string {
	if p == "/" {
		return nil
	}
	return strings.Split(p[1:], "/")
}

// c05cLocate: dir | entry | absent | noent (missing parent) | notdir (below a file) | vialink (below a link)
func c05cLocate(idx map[string]c05cEnt, p string) (string, c05cEnt) {
	comps := c05cComps(p)
	cur := ""
	for i, c := range comps {
		q := cur + "/" + c
		e, ok := idx[q]
		if ok && e.K == "d" {
			cur = q
			continue
		}
		if i == len(comps)-1 {
			if !ok {
				return "absent", c05cEnt{}
			}
			return "entry", e
		}
		switch {
		case !ok:
			return "noent", c05cEnt{}
		case e.K == "f":
			return "notdir", c05cEnt{}
		}
		return "vialink", c05cEnt{}
	}
	return "dir", c05cEnt{}
}

func c05cHasChild(es []c05cEnt, p string) bool {
	pre := p + "/"
	if p == "/" {
		pre = "/"
	}
	for _, e := range es {
		if strings.HasPrefix(e.P, pre) {
			return true
		}
	}
	return false
}

// c05cShape names what the path meets; leaves reports that the link chain starting at the path runs, in a later
// hop, through a link in a non-final position (the driver does not flag that).
func c05cShape(es []c05cEnt, p string) (shape string, leaves bool) {
	idx := c05cIndex(es)
	k, e := c05cLocate(idx, p)
	switch k {
	case "dir":
		switch {
		case p == "/":
			return "root", false
		case c05cHasChild(es, p):
			return "non-empty-dir", false
		}
		return "empty-dir", false
	case "absent":
		return "missing-leaf", false
	case "noent":
		return "missing-parent", false
	case "notdir":
		return "below-a-file", false
	case "vialink":
		return "below-a-link", false
	}
	if e.K == "f" {
		return "file", false
	}
	hops := 0
	for ; hops <= len(es)+1; hops++ {
		k2, e2 := c05cLocate(idx, e.T)
		pre := "link-to-"
		if hops > 0 {
			pre = "link-chain-to-"
		}
		switch k2 {
		case "dir":
			return pre + "dir", false
		case "absent", "noent", "notdir":
			return pre + "nothing", false
		case "vialink":
			return pre + "path-through-a-link", true
		}
		if e2.K == "f" {
			return pre + "file", false
		}
		e = e2
	}
	return "link-loop", false
}

// ---------------------------------------------------------------------------------------------
// generator

var c05cNames = []string{"a", "b", "c"}

func c05cName(r *rand.Rand) string { return c05cNames[r.Intn(len(c05cNames))] }

func c05cRandPath(r *rand.Rand, max int) string {
	n := 1 + r.Intn(max)
	p := ""
	for i := 0; i < n; i++ {
		p += "/" + c05cName(r)
	}
	return p
}

// c05cGenTree: 0..12 entries, depth <= 4, parents before children.
func c05cGenTree(r *rand.Rand) []c05cEnt {
	want := r.Intn(13)
	var es []c05cEnt
	dirs := []string{""}
	used := map[string]bool{}
	for tries := 0; len(es) < want && tries < 6*want; tries++ {
		parent := dirs[r.Intn(len(dirs))]
		if r.Intn(3) == 0 { // bias towards the deepest directory so far
			parent = dirs[len(dirs)-1]
		}
		depth := strings.Count(parent, "/") + 1
		if depth > 4 {
			continue
		}
		p := parent + "/" + c05cName(r)
		if used[p] {
			continue
		}
		used[p] = true
		x := r.Intn(100)
		dirP := 42
		if len(dirs) == 1 { // with three names a tree without directories ends at three entries
			dirP = 65
		}
		switch {
		case x < dirP && depth < 4:
			es = append(es, c05cEnt{K: "d", P: p})
			dirs = append(dirs, p)
		case x < 68:
			es = append(es, c05cEnt{K: "f", P: p})
		default:
			t := ""
			y := r.Intn(100)
			switch {
			case y < 40 && len(es) > 0: // an existing file, directory or link (nested chains)
				t = es[r.Intn(len(es))].P
			case y < 50 && len(es) > 0: // below an existing entry: child of a directory, below a file, through a link
				t = es[r.Intn(len(es))].P + "/" + c05cName(r)
			case y < 56: // itself
				t = p
			case y < 60:
				t = "/"
			default: // mostly dangling; may name something created later (then also loops between links)
				t = c05cRandPath(r, 4)
			}
			es = append(es, c05cEnt{K: "l", P: p, T: t})
		}
	}
	return es
}

func c05cGenPath(r *rand.Rand, es []c05cEnt, op string) string {
	pick := func(kind string) (string, bool) {
		var c []string
		for _, e := range es {
			if e.K == kind {
				c = append(c, e.P)
			}
		}
		if len(c) == 0 {
			return "", false
		}
		return c[r.Intn(len(c))], true
	}
	p := ""
	x := r.Intn(100)
	switch {
	case x < 25 && len(es) > 0:
		p = es[r.Intn(len(es))].P
	case x < 38 && len(es) > 0:
		p = es[r.Intn(len(es))].P + "/" + c05cName(r)
	case x < 46 && len(es) > 0:
		p = es[r.Intn(len(es))].P + "/" + c05cName(r) + "/" + c05cName(r)
	case x < 56:
		if q, ok := pick("l"); ok {
			p = q
		}
	case x < 61:
		if q, ok := pick("l"); ok {
			p = q + "/" + c05cName(r)
		}
	case x < 68:
		if q, ok := pick("f"); ok {
			p = q + "/" + c05cName(r)
			if r.Intn(3) == 0 {
				p += "/" + c05cName(r)
			}
		}
	case x < 76:
		if q, ok := pick("d"); ok {
			p = q
		}
	case x < 79 && op == "mkdirall":
		p = "/"
	}
	if p == "" {
		p = c05cRandPath(r, 4)
		if r.Intn(6) == 0 {
			p += "/z" // certainly missing
		}
	}
	if c := c05cComps(p); len(c) > 5 {
		p = "/" + strings.Join(c[:5], "/")
	}
	return p
}

// ---------------------------------------------------------------------------------------------
// validation (replay files are foreign input; everything here runs as uid 0)

var c05cPathRe = regexp.MustCompile(`^(/[a-z0-9]{1,8}){1,8}$`)

func c05cValidate(in c05cInput) error {
	okp := func(p string, rootOK bool) bool { return (rootOK && p == "/") || c05cPathRe.MatchString(p) }
	switch in.Op {
	case "remove", "removeall":
		if !okp(in.Path, false) {
			return fmt.Errorf("path %q not usable for %s", in.Path, in.Op)
		}
	case "mkdirall":
		if !okp(in.Path, true) {
			return fmt.Errorf("path %q not usable", in.Path)
		}
	default:
		return fmt.Errorf("unknown op %q", in.Op)
	}
	if in.Mode != "abs" && in.Mode != "rel" {
		return fmt.Errorf("unknown path mode %q", in.Mode)
	}
	if len(in.Tree) > 64 {
		return errors.New("tree too large")
	}
	idx := map[string]c05cEnt{}
	for _, e := range in.Tree {
		if !okp(e.P, false) || (e.K != "d" && e.K != "f" && e.K != "l") || (e.K == "l" && !okp(e.T, true)) || (e.K != "l" && e.T != "") {
			return fmt.Errorf("bad tree entry %+v", e)
		}
		if _, dup := idx[e.P]; dup {
			return fmt.Errorf("duplicate tree entry %s", e.P)
		}
		idx[e.P] = e
	}
	for _, e := range in.Tree {
		if i := strings.LastIndexByte(e.P, '/'); i > 0 {
			if par, ok := idx[e.P[:i]]; !ok || par.K != "d" {
				return fmt.Errorf("tree entry %s does not hang below a directory entry", e.P)
			}
		}
	}
	return nil
}

// ---------------------------------------------------------------------------------------------
// the real sides

type c05cEnv struct {
	base, rootA, rootB string
	abs, rel           *sftp.Client
	stopAbs, stopRel   func()
}

func c05cNewEnv() (*c05cEnv, error) {
	base, err := lib.MkScratch("vh-c05c-")
	if err != nil {
		return nil, err
	}
	if b, err := filepath.EvalSymlinks(base); err == nil {
		base = b
	}
	e := &c05cEnv{base: base, rootA: base + "/A", rootB: base + "/B"}
	for _, d := range []string{e.rootA, e.rootB} {
		if err := os.Mkdir(d, 0o755); err != nil {
			os.RemoveAll(base)
			return nil, err
		}
	}
	if e.abs, e.stopAbs, err = c05StartPair(); err != nil {
		os.RemoveAll(base)
		return nil, err
	}
	if e.rel, e.stopRel, err = c05StartPair(sftp.WithServerWorkingDirectory(e.rootA)); err != nil {
		e.stopAbs()
		os.RemoveAll(base)
		return nil, err
	}
	return e, nil
}

func (e *c05cEnv) close() {
	if e.stopAbs != nil {
		e.stopAbs()
	}
	if e.stopRel != nil {
		e.stopRel()
	}
	os.RemoveAll(e.base)
}

func c05cBuild(root string, es []c05cEnt) error {
	ord := append([]c05cEnt(nil), es...)
	sort.SliceStable(ord, func(i, j int) bool { return strings.Count(ord[i].P, "/") < strings.Count(ord[j].P, "/") })
	for _, e := range ord {
		var err error
		switch e.K {
		case "d":
			err = os.Mkdir(root+e.P, 0o755)
		case "f":
			err = os.WriteFile(root+e.P, nil, 0o644)
		case "l":
			t := root + e.T
			if e.T == "/" {
				t = root
			}
			err = os.Symlink(t, root+e.P)
		}
		if err != nil {
			return err
		}
	}
	return nil
}

func c05cClear(root string) error {
	l, err := os.ReadDir(root)
	if err != nil {
		return err
	}
	for _, d := range l {
		if err := os.RemoveAll(root + "/" + d.Name()); err != nil {
			return err
		}
	}
	return nil
}

// what the caller of the client can observe (Composite.CErr)
func c05cClientClass(err error) string {
	var se *sftp.StatusError
	switch {
	case err == nil:
		return "ok"
	case errors.Is(err, os.ErrNotExist):
		return "notexist"
	case errors.Is(err, os.ErrPermission):
		return "permission"
	case errors.Is(err, syscall.ENOTDIR):
		return "enotdir"
	case errors.As(err, &se):
		return "failure"
	}
	return fmt.Sprintf("unexpected(%T)", err)
}

// the errno class of a package os error (AbsFS.Result)
func c05cOsClass(err error) string {
	if err == nil {
		return "ok"
	}
	var en syscall.Errno
	if errors.As(err, &en) {
		switch en {
		case syscall.ENOENT:
			return "noent"
		case syscall.EEXIST:
			return "exist"
		case syscall.ENOTDIR:
			return "notdir"
		case syscall.EISDIR:
			return "isdir"
		case syscall.ENOTEMPTY:
			return "notempty"
		case syscall.EACCES, syscall.EPERM:
			return "perm"
		}
	}
	return "other"
}

func c05cCoarse(class string) string {
	switch class {
	case "ok":
		return "ok"
	case "notexist", "noent":
		return "not-exist"
	case "permission", "perm":
		return "permission"
	}
	return "other"
}

type c05cReal struct {
	tie                string // harness trouble (nothing compared)
	abnormal           string // hang | panic of the client call
	clientTree, osTree string // driver syntax
	clientClass        string
	osClass            string
	clientErr, osErr   string
	snapDiff           []string // full snapshot, -os +client
	missingBefore      bool     // Lstat of the path on tree B failed with not-exist before the operation
	changed            bool
}

func (e *c05cEnv) run(in c05cInput) (out c05cReal) {
	if err := c05cValidate(in); err != nil {
		out.tie = "invalid case: " + err.Error()
		return
	}
	okA, _ := lib.InScratch("", e.rootA)
	okB, _ := lib.InScratch("", e.rootB)
	if !okA || !okB || !filepath.IsAbs(e.rootA) || !filepath.IsAbs(e.rootB) {
		out.tie = "scratch roots are not inside a scratch directory"
		return
	}
	defer func() {
		errA, errB := c05cClear(e.rootA), c05cClear(e.rootB)
		if out.tie == "" && (errA != nil || errB != nil) {
			out.tie = fmt.Sprintf("cleanup: %v %v", errA, errB)
		}
	}()
	if err := c05cBuild(e.rootA, in.Tree); err != nil {
		out.tie = "seeding tree A: " + err.Error()
		return
	}
	if err := c05cBuild(e.rootB, in.Tree); err != nil {
		out.tie = "seeding tree B: " + err.Error()
		return
	}
	want := c05cRenderEnts(in.Tree)
	if a, b := c05cRenderSnap(lib.Snapshot(e.rootA, false), e.rootA), c05cRenderSnap(lib.Snapshot(e.rootB, false), e.rootB); a != want || b != want {
		out.tie = fmt.Sprintf("seeded trees do not read back as described: want %s, A %s, B %s", want, a, b)
		return
	}
	pA, pB, cli := e.rootA+in.Path, e.rootB+in.Path, e.abs
	if in.Path == "/" {
		pA, pB = e.rootA, e.rootB
	}
	if in.Mode == "rel" {
		cli = e.rel
		pA = in.Path[1:]
		if in.Path == "/" {
			pA = "."
		}
	}
	if in.Op != "mkdirall" && (pA == "" || pA == "." || pA == "/" || pA == e.rootA || pB == e.rootB) {
		out.tie = "refusing to remove a root"
		return
	}
	_, lerr := os.Lstat(pB)
	out.missingBefore = lerr != nil && errors.Is(lerr, os.ErrNotExist)

	o := c05Guard(func() c05Out {
		switch in.Op {
		case "remove":
			return c05Res(cli.Remove(pA))
		case "mkdirall":
			return c05Res(cli.MkdirAll(pA))
		}
		return c05Res(cli.RemoveAll(pA))
	})
	if o.Cat == "hang" || o.Cat == "panic" {
		out.abnormal = o.Cat
		out.clientErr = o.Err
		return
	}
	var errB error
	switch in.Op {
	case "remove":
		errB = os.Remove(pB)
	case "mkdirall":
		errB = os.MkdirAll(pB, 0o755) // documented: mkdir/mode
	default:
		errB = os.RemoveAll(pB)
	}
	out.clientClass, out.osClass = c05cClientClass(o.err), c05cOsClass(errB)
	if o.err != nil {
		out.clientErr = strings.ReplaceAll(o.err.Error(), e.rootA, "<R>")
	}
	if errB != nil {
		out.osErr = strings.ReplaceAll(errB.Error(), e.rootB, "<R>")
	}
	sA, sB := lib.Snapshot(e.rootA, false), lib.Snapshot(e.rootB, false)
	out.clientTree, out.osTree = c05cRenderSnap(sA, e.rootA), c05cRenderSnap(sB, e.rootB)
	out.snapDiff = lib.DiffSnap(c05cNormSnap(sB, e.rootB), c05cNormSnap(sA, e.rootA))
	out.changed = out.osTree != want
	return
}

// ---------------------------------------------------------------------------------------------
// judging one case

type c05cFinding struct {
	Kind, Key, What  string
	Expected, Actual any
}

func c05cModelLines(cfg string, in c05cInput) []string {
	fs := c05cRenderEnts(in.Tree)
	return []string{
		fmt.Sprintf("c05c.%s %s %s %s", in.Op, cfg, fs, in.Path),
		fmt.Sprintf("c05c.os.%s %s %s", in.Op, fs, in.Path),
	}
}

// c05cSkipReason: "" = in the model.
func c05cSkipReason(in c05cInput, mc, mo string) string {
	if strings.HasSuffix(mc, " oom") || strings.HasSuffix(mo, " oom") {
		return "oom"
	}
	if _, leaves := c05cShape(in.Tree, in.Path); leaves {
		return "link-target-through-a-link"
	}
	return ""
}

func c05cJudge(in c05cInput, mc, mo string, re c05cReal) (fs []c05cFinding, documented bool) {
	if re.abnormal != "" {
		return []c05cFinding{{"oracle", "c05c/" + in.Op + "/" + re.abnormal, "the client call did not return normally: " + re.clientErr, "a result", re.abnormal}}, false
	}
	realC := re.clientTree + " " + re.clientClass
	realO := re.osTree + " " + re.osClass
	if realC != mc {
		fs = append(fs, c05cFinding{"correspondence", "c05c/" + in.Op + "/client-vs-model",
			"real Client+Server and the model of the composite (Model/Composite.lean) differ in resulting tree or error class",
			map[string]any{"model": mc}, map[string]any{"client": realC, "error": re.clientErr}})
	}
	if realO != mo {
		fs = append(fs, c05cFinding{"correspondence", "c05c/" + in.Op + "/os-vs-spec",
			"package os and its reference semantics (Spec/OsComposite.lean) differ in resulting tree or errno class",
			map[string]any{"spec": mo}, map[string]any{"os": realO, "error": re.osErr}})
	}
	cc, oc := c05cCoarse(re.clientClass), c05cCoarse(re.osClass)
	treeSame := len(re.snapDiff) == 0 && re.clientTree == re.osTree
	if treeSame && in.Op == "removeall" && re.missingBefore && cc == "not-exist" && oc == "ok" {
		return fs, true // documented: removeall/missing-path
	}
	if !treeSame || cc != oc {
		fs = append(fs, c05cFinding{"oracle", "c05c/" + in.Op + "/client-vs-os",
			"Client+Server and package os differ in resulting tree or outcome category",
			map[string]any{"side": "package os on tree B", "tree": re.osTree, "category": oc, "error": re.osErr},
			map[string]any{"side": "Client/Server on tree A", "tree": re.clientTree, "category": cc, "error": re.clientErr, "snapshot_diff(-os,+sftp)": re.snapDiff}})
	}
	return fs, false
}

// c05cEvalOne runs one case completely (model included): replay and shrinking.
func c05cEvalOne(c *lib.Ctx, env *c05cEnv, cfg string, in c05cInput) (skip string, fs []c05cFinding, re c05cReal, mc, mo string, err error) {
	if err = c05cValidate(in); err != nil {
		return
	}
	out, err := c.Model(c05cModelLines(cfg, in))
	if err != nil {
		return
	}
	mc, mo = out[0], out[1]
	if mc == "bad-op" || mo == "bad-op" {
		err = errors.New("the driver answers bad-op")
		return
	}
	if skip = c05cSkipReason(in, mc, mo); skip != "" {
		return
	}
	re = env.run(in)
	if re.tie != "" {
		err = errors.New(re.tie)
		return
	}
	fs, _ = c05cJudge(in, mc, mo, re)
	return
}

func c05cHasKey(fs []c05cFinding, key string) *c05cFinding {
	for i := range fs {
		if fs[i].Key == key {
			return &fs[i]
		}
	}
	return nil
}

// c05cShrink removes tree entries (with what hangs below them) and trailing path components while the key stays.
func c05cShrink(c *lib.Ctx, env *c05cEnv, cfg string, in c05cInput, key string) c05cInput {
	still := func(cand c05cInput) bool {
		skip, fs, _, _, _, err := c05cEvalOne(c, env, cfg, cand)
		return err == nil && skip == "" && c05cHasKey(fs, key) != nil
	}
	if !still(in) {
		return in
	}
	for round := 0; round < 3; round++ {
		before := len(in.Tree) + len(in.Path)
		for i := len(in.Tree) - 1; i >= 0; i-- {
			if i >= len(in.Tree) {
				continue
			}
			cand := in
			cand.Tree = nil
			for _, e := range in.Tree {
				if e.P != in.Tree[i].P && !strings.HasPrefix(e.P, in.Tree[i].P+"/") {
					cand.Tree = append(cand.Tree, e)
				}
			}
			if still(cand) {
				in = cand
			}
		}
		if j := strings.LastIndexByte(in.Path, '/'); j > 0 {
			cand := in
			cand.Path = in.Path[:j]
			if still(cand) {
				in = cand
			}
		}
		if in.Mode == "rel" {
			cand := in
			cand.Mode = "abs"
			if still(cand) {
				in = cand
			}
		}
		if len(in.Tree)+len(in.Path) == before {
			break
		}
	}
	if in.Tree == nil {
		in.Tree = []c05cEnt{}
	}
	return in
}

// ---------------------------------------------------------------------------------------------
// the family

const c05cRule = " || family composite-model: PRNG trees (0..12 entries, depth <= 4, names a b c: directories, files, symbolic links to a file / directory / link (chains) / nothing / themselves / the root / below a file) and paths (an entry, a child or grandchild of an entry, a link, below a link, below a file, a directory, the root (MkdirAll only), random up to 5 components, a certainly missing name) for each of Remove / MkdirAll / RemoveAll; path mode abs or rel (server working directory) drawn per case; the tree is materialised under roots A and B, the real Client composite runs through a real os-backed Server on A and the package os call on B; (resulting tree in the driver's syntax, error class) of the client is compared with driver op c05c.<op> (Model/Composite.lean in the configuration of `cur.cfg composite`), that of package os with c05c.os.<op> (Spec/OsComposite.lean), and client with os (full snapshot incl. modes, coarse category); cases the driver marks oom (path through a link in a non-final position) or whose link chain leaves the model in a later hop are skipped and counted; the documented RemoveAll-of-a-missing-path difference is counted, not reported; Remove/RemoveAll of the root are not generated (the model's root is unremovable, a scratch root is not). One case = (op, path mode, tree, path); non-trivial = the os outcome is an error, or the tree changes, or the path ends in a link. quick: 400 cases per op; thorough: 25000 per op"

func checkC05Composite(c *lib.Ctx) {
	r := c.R
	if c.ModelPath == "" {
		r.Skip("family %s: no model driver given (--model)", c05cFamily)
		return
	}
	saved := r.ModelCases
	probe, err := c.Model([]string{"c05c.cfg"})
	r.ModelCases = saved
	if err != nil || len(probe) != 1 || probe[0] == "bad-op" || probe[0] == "" {
		r.Skip("family %s: the driver does not serve the c05c.* ops", c05cFamily)
		return
	}
	cfg := gCurCfg(c, "composite", "cur")
	if v := os.Getenv("VERIF_C05C_CFG"); v != "" { // self-test of the comparison: another configuration must be told apart
		cfg = v
		r.Note("family %s: configuration token overridden by VERIF_C05C_CFG", c05cFamily)
	}
	r.Note("family %s: model configuration token %s (c05c.cfg prints %s)", c05cFamily, cfg, probe[0])

	perOp := 400
	budget := 25 * time.Second
	if c.Tier == "thorough" {
		perOp = 25000
		budget = 5 * time.Minute
	}
	started := time.Now()
	deadline := started.Add(budget)

	// 1. generate
	cases := make([]c05cInput, 0, 3*perOp)
	for i := 0; i < perOp; i++ {
		for _, op := range c05cOps {
			tree := c05cGenTree(c.Rand)
			in := c05cInput{Family: c05cFamily, Op: op, Tree: tree, Path: c05cGenPath(c.Rand, tree, op), Mode: "abs", Cfg: cfg}
			if c.Rand.Intn(2) == 0 {
				in.Mode = "rel"
			}
			if in.Tree == nil {
				in.Tree = []c05cEnt{}
			}
			cases = append(cases, in)
		}
	}

	// 2. the model, in few batches
	mc := make([]string, len(cases))
	mo := make([]string, len(cases))
	const batch = 30000
	for lo := 0; lo < len(cases); lo += batch {
		hi := lo + batch
		if hi > len(cases) {
			hi = len(cases)
		}
		lines := make([]string, 0, 2*(hi-lo))
		for _, in := range cases[lo:hi] {
			lines = append(lines, c05cModelLines(cfg, in)...)
		}
		out, err := c.Model(lines)
		if err != nil {
			r.Fail(lib.Failure{Kind: "tie", Key: "c05c/model-driver", What: err.Error()})
			return
		}
		for i := lo; i < hi; i++ {
			mc[i], mo[i] = out[2*(i-lo)], out[2*(i-lo)+1]
		}
	}

	// 3. the real sides, in parallel (one environment per worker)
	skip := make([]string, len(cases))
	todo := make(chan int, len(cases))
	for i, in := range cases {
		if mc[i] == "bad-op" || mo[i] == "bad-op" {
			skip[i] = "bad-op"
			continue
		}
		if skip[i] = c05cSkipReason(in, mc[i], mo[i]); skip[i] == "" {
			todo <- i
		}
	}
	close(todo)
	reals := make([]*c05cReal, len(cases))
	workers := runtime.NumCPU()
	if workers > 16 {
		workers = 16
	}
	var wg sync.WaitGroup
	var envErr error
	var mu sync.Mutex
	for w := 0; w < workers; w++ {
		wg.Add(1)
		go func() {
			defer wg.Done()
			var env *c05cEnv
			defer func() {
				if env != nil {
					env.close()
				}
			}()
			for i := range todo {
				if time.Now().After(deadline) || c.Stop("c05/composite") {
					continue
				}
				if env == nil {
					var err error
					if env, err = c05cNewEnv(); err != nil {
						mu.Lock()
						envErr = err
						mu.Unlock()
						return
					}
				}
				re := env.run(cases[i])
				reals[i] = &re
				if re.abnormal != "" { // the connection is in an unknown state
					env.close()
					env = nil
				}
			}
		}()
	}
	wg.Wait()
	if envErr != nil {
		r.Fail(lib.Failure{Kind: "tie", Key: "c05c/harness", What: "setup: " + envErr.Error()})
	}

	// 4. judge, in case order
	type pending struct {
		in c05cInput
		f  c05cFinding
	}
	var toReport []pending
	perKey := map[string]int{}
	notRun, evaluated, samples := 0, map[string]int{}, 0
	for i, in := range cases {
		shape, _ := c05cShape(in.Tree, in.Path)
		if skip[i] == "bad-op" {
			r.Fail(lib.Failure{Kind: "tie", Key: "c05c/model-bad-op", What: "the driver answers bad-op for a generated case", Input: in, Actual: mc[i] + " | " + mo[i]})
			continue
		}
		if skip[i] != "" {
			r.Hist("c05c:skipped/" + in.Op + "/" + skip[i])
			continue
		}
		re := reals[i]
		if re == nil {
			notRun++
			continue
		}
		if re.tie != "" {
			r.Fail(lib.Failure{Kind: "tie", Key: "c05c/harness", What: re.tie, Input: in})
			continue
		}
		fs, documented := c05cJudge(in, mc[i], mo[i], *re)
		evaluated[in.Op]++
		nontrivial := re.osClass != "ok" || re.changed || strings.HasPrefix(shape, "link")
		r.Case("c05c|"+in.Op+"|"+in.Mode+"|"+c05cRenderEnts(in.Tree)+"|"+in.Path, nontrivial)
		r.Hist("c05c:outcome/" + in.Op + "/client=" + re.clientClass + ",os=" + re.osClass)
		r.Hist("c05c:shape/" + in.Op + "/" + shape)
		r.Hist("c05c:mode/" + in.Mode)
		r.Hist(fmt.Sprintf("c05c:tree-entries/%02d", len(in.Tree)))
		if re.changed {
			r.Hist("c05c:effect/" + in.Op + "/tree-changed")
		}
		if documented {
			r.Hist("c05c:documented/removeall-missing-path")
		}
		if samples < 4 && nontrivial && len(in.Tree) > 2 {
			samples++
			r.Sample(map[string]any{"family": c05cFamily, "op": in.Op, "mode": in.Mode, "fs": c05cRenderEnts(in.Tree), "path": in.Path,
				"model": mc[i], "os_spec": mo[i], "client": re.clientTree + " " + re.clientClass, "os": re.osTree + " " + re.osClass})
		}
		for _, f := range fs {
			r.Hist("failure:" + f.Key)
			perKey[f.Key]++
			if perKey[f.Key] <= 3 {
				toReport = append(toReport, pending{in, f})
			}
		}
	}
	if notRun > 0 {
		r.Skip("family %s: %d of %d cases not run: time budget of the tier exhausted", c05cFamily, notRun, len(cases))
	}
	r.Note("family %s: cases compared per op: remove %d, mkdirall %d, removeall %d (of %d generated per op; the rest is outside the model, see histogram c05c:skipped/*); %.1f s",
		c05cFamily, evaluated["remove"], evaluated["mkdirall"], evaluated["removeall"], perOp, time.Since(started).Seconds())

	// 5. minimise and report
	if len(toReport) > 0 {
		env, err := c05cNewEnv()
		if err != nil {
			r.Fail(lib.Failure{Kind: "tie", Key: "c05c/harness", What: "setup: " + err.Error()})
			env = nil
		} else {
			defer env.close()
		}
		for _, p := range toReport {
			in, f := p.in, p.f
			if env != nil && !strings.HasSuffix(f.Key, "/hang") && !strings.HasSuffix(f.Key, "/panic") {
				saved := r.ModelCases
				min := c05cShrink(c, env, cfg, in, f.Key)
				if _, fs, _, _, _, err := c05cEvalOne(c, env, cfg, min); err == nil {
					if g := c05cHasKey(fs, f.Key); g != nil {
						in, f = min, *g
					}
				}
				r.ModelCases = saved
			}
			r.Fail(lib.Failure{Kind: f.Kind, Key: f.Key, What: fmt.Sprintf("%s %s on %s [%s paths]: %s", in.Op, in.Path, c05cRenderEnts(in.Tree), in.Mode, f.What),
				Input: in, Expected: f.Expected, Actual: f.Actual})
		}
	}
}

// c05cReplay re-runs one case of the family from a replay file.
func c05cReplay(c *lib.Ctx, in c05cInput) {
	r := c.R
	if err := c05cValidate(in); err != nil {
		r.Fail(lib.Failure{Kind: "tie", Key: "replay", What: err.Error()})
		return
	}
	if c.ModelPath == "" {
		r.Skip("family %s: no model driver given (--model)", c05cFamily)
		return
	}
	cfg := gCurCfg(c, "composite", "cur")
	in.Cfg = cfg
	env, err := c05cNewEnv()
	if err != nil {
		r.Fail(lib.Failure{Kind: "tie", Key: "c05c/harness", What: "setup: " + err.Error()})
		return
	}
	defer env.close()
	skip, fs, re, mc, mo, err := c05cEvalOne(c, env, cfg, in)
	if err != nil {
		r.Fail(lib.Failure{Kind: "tie", Key: "c05c/harness", What: err.Error(), Input: in})
		return
	}
	if skip != "" {
		r.Skip("family %s: the case is outside the model (%s)", c05cFamily, skip)
		return
	}
	r.Case("c05c|"+in.Op+"|"+in.Mode+"|"+c05cRenderEnts(in.Tree)+"|"+in.Path, true)
	r.Hist("c05c:outcome/" + in.Op + "/client=" + re.clientClass + ",os=" + re.osClass)
	r.Sample(map[string]any{"family": c05cFamily, "op": in.Op, "mode": in.Mode, "fs": c05cRenderEnts(in.Tree), "path": in.Path,
		"model": mc, "os_spec": mo, "client": re.clientTree + " " + re.clientClass, "os": re.osTree + " " + re.osClass})
	for _, f := range fs {
		r.Fail(lib.Failure{Kind: f.Kind, Key: f.Key, What: fmt.Sprintf("%s %s on %s [%s paths]: %s", in.Op, in.Path, c05cRenderEnts(in.Tree), in.Mode, f.What),
			Input: in, Expected: f.Expected, Actual: f.Actual})
	}
}
