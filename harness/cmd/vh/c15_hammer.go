package main

// C15, the "hammer" family: MANY goroutines issuing single-packet operations over one Client for thousands of
// operations each.  The small histories of c15.go (2…8 goroutines, 4…23 operations each) explore the interleavings of
// a handful of requests; what they cannot reach are defects of the per-request bookkeeping that need two goroutines
// inside the same few instructions at once (request ids, the table that routes replies to callers, buffer pools):
// those show up only after thousands of requests from many goroutines running back to back.
//
// Every goroutine owns one region of the file: it writes a fresh pattern into it (one WRITE packet) and reads it back
// (one READ packet).  Nobody else writes there, so — whatever the interleaving — the only sequential explanation of a
// completed read-back is the pattern this goroutine wrote last.  Direct oracle, per operation: WriteAt returns
// (len, nil); ReadAt returns (len, nil) and exactly those bytes; no call hangs; the connection stays up.  The first
// operations of every goroutine are also stamped and handed to the proved linearizability checker.
//
// A hammer runs in a process of its own (vh child c15hammer): misrouted replies may do anything to a Client.

import (
	"bytes"
	"encoding/binary"
	"encoding/json"
	"fmt"
	"io"
	"io/fs"
	"os"
	"os/exec"
	"path/filepath"
	"runtime"
	"sort"
	"strings"
	"sync"
	"sync/atomic"
	"time"

	"github.com/pkg/sftp"

	"verifharness/lib"
)

func init() { children["c15hammer"] = c15HammerChild }

type c15HammerCfg struct {
	Hammer     bool   `json:"hammer"` // distinguishes the replay input from a c15Cfg
	Server     string `json:"server"` // rs | os
	Alloc      bool   `json:"allocator"`
	Goroutines int    `json:"goroutines"`
	// PairsEach: every goroutine does this many (WriteAt own region, ReadAt own region) pairs …
	PairsEach int `json:"pairs_each"`
	// … or stops when the run has lasted MaxMs (a cap on the time, not part of the case: a faster machine gets further).
	MaxMs int `json:"max_ms"`
	// Volley (> 0): before every Volley-th pair the goroutines wait for each other and start together (parallel workers
	// released by one event); 0: every goroutine runs back to back at its own pace.
	Volley  int   `json:"volley_every,omitempty"`
	Region  int   `json:"region_bytes"`
	Handles int   `json:"handles"` // O_RDWR handles of the one file; goroutine g works through handle g mod Handles
	Sample  int   `json:"stamped_pairs_each"`
	Seed    int64 `json:"seed"`
	// Mode "distinct" (c15_distinct.go): Spec lists handles that differ observably ("A:r", "B:rw" …: file and open
	// mode); goroutine g works through handle g mod len(Spec) on region g.
	Mode string   `json:"mode,omitempty"`
	Spec []string `json:"handle_spec,omitempty"`
}

func (c c15HammerCfg) text() string {
	if c.Mode == "distinct" {
		return fmt.Sprintf("hammer distinct-handles %s alloc=%v goroutines=%d region=%d handles=%s ms=%d seed=%d", c.Server, c.Alloc, c.Goroutines, c.Region, strings.Join(c.Spec, ","), c.MaxMs, c.Seed)
	}
	return fmt.Sprintf("hammer %s alloc=%v goroutines=%d pairs=%d region=%d handles=%d stamped=%d volley=%d seed=%d", c.Server, c.Alloc, c.Goroutines, c.PairsEach, c.Region, c.Handles, c.Sample, c.Volley, c.Seed)
}

func (c c15HammerCfg) valid() error {
	switch {
	case c.Server != "rs" && c.Server != "os":
		return fmt.Errorf("hammer: server %q", c.Server)
	case c.Goroutines < 1 || c.Goroutines > 255:
		return fmt.Errorf("hammer: %d goroutines", c.Goroutines)
	case c.Region < 8 || c.Region > 32768:
		return fmt.Errorf("hammer: region of %d bytes (8…32768: one packet)", c.Region)
	case c.Handles < 1 || c.Handles > 16 || c.PairsEach < 1 || c.Sample < 0 || c.Volley < 0:
		return fmt.Errorf("hammer: handles %d, pairs %d, stamped %d", c.Handles, c.PairsEach, c.Sample)
	}
	return nil
}

type c15HammerOut struct {
	Key     string   `json:"key,omitempty"` // "" = every oracle held
	What    string   `json:"what,omitempty"`
	Exp     string   `json:"expected,omitempty"`
	Act     any      `json:"actual,omitempty"`
	More    []string `json:"more,omitempty"` // further observations of the same run (other goroutines)
	Ops     int64    `json:"ops"`            // completed operations
	Ms      int64    `json:"ms"`
	Line    string   `json:"line,omitempty"` // stamped sample for the model checker
	SampleN int      `json:"sample_ops"`
	Harness string   `json:"harness,omitempty"` // set-up problem (not an observation about the package)
}

// c15Pattern: what goroutine g writes in its k-th pair: g, k, then bytes derived from (seed, g, k, position).
func c15Pattern(seed int64, g, k, n int) []byte {
	b := make([]byte, n)
	b[0] = byte(g)
	binary.BigEndian.PutUint32(b[1:5], uint32(k))
	s := uint64(seed)*0x9E3779B97F4A7C15 + uint64(g)<<32 + uint64(k)
	for i := 5; i < n; i++ {
		b[i] = gByte(s, int64(i))
	}
	return b
}

// c15Explain says whose bytes b are, if they are anybody's.
func c15Explain(cfg c15HammerCfg, init []byte, b []byte) string {
	if len(b) == 0 {
		return "no bytes"
	}
	if len(b) == cfg.Region {
		g, k := int(b[0]), int(binary.BigEndian.Uint32(b[1:5]))
		if g < cfg.Goroutines && bytes.Equal(b, c15Pattern(cfg.Seed, g, k, cfg.Region)) {
			return fmt.Sprintf("exactly the bytes goroutine %d wrote to ITS region in its pair number %d", g, k)
		}
		for g := 0; g < cfg.Goroutines; g++ {
			if bytes.Equal(b, init[g*cfg.Region:(g+1)*cfg.Region]) {
				return fmt.Sprintf("the initial content of the region of goroutine %d", g)
			}
		}
	}
	return "bytes that nobody wrote as a whole: " + gDigest(b)
}

// c15HStore is the mutex-protected (atomic) backing store of a hammer; it stamps and logs its steps only while sampling.
type c15HStore struct {
	mu       sync.Mutex
	b        []byte
	clk      *c15Clock
	sampling bool
	log      []c15StoreEv
	steps    int64
}

func (s *c15HStore) ReadAt(p []byte, off int64) (int, error) {
	s.mu.Lock()
	defer s.mu.Unlock()
	s.steps++
	if off >= int64(len(s.b)) {
		return 0, io.EOF
	}
	n := copy(p, s.b[off:])
	if s.sampling {
		s.log = append(s.log, c15StoreEv{kind: 'r', stamp: s.clk.tick(), off: off, data: append([]byte(nil), p[:n]...)})
	}
	if n < len(p) {
		return n, io.EOF
	}
	return n, nil
}

func (s *c15HStore) WriteAt(p []byte, off int64) (int, error) {
	s.mu.Lock()
	defer s.mu.Unlock()
	s.steps++
	if need := int(off) + len(p); need > len(s.b) {
		s.b = append(s.b, make([]byte, need-len(s.b))...)
	}
	copy(s.b[off:], p)
	if s.sampling {
		s.log = append(s.log, c15StoreEv{kind: 'w', stamp: s.clk.tick(), off: off, data: append([]byte(nil), p...)})
	}
	return len(p), nil
}

type c15HHandlers struct{ s *c15HStore }

func (h c15HHandlers) Fileread(*sftp.Request) (io.ReaderAt, error)  { return h.s, nil }
func (h c15HHandlers) Filewrite(*sftp.Request) (io.WriterAt, error) { return h.s, nil }
func (h c15HHandlers) OpenFile(*sftp.Request) (sftp.WriterAtReaderAt, error) {
	return h.s, nil
}
func (h c15HHandlers) Filecmd(*sftp.Request) error { return nil }
func (h c15HHandlers) Filelist(*sftp.Request) (sftp.ListerAt, error) {
	h.s.mu.Lock()
	n := len(h.s.b)
	h.s.mu.Unlock()
	return c15One{c16Info{name: "f", idx: n}}, nil
}

// c15HFile wraps the os-backed server's open file: the real pread/pwrite inside the store's critical section.
type c15HFile struct {
	sftp.VerifFile
	s *c15HStore
}

func (f c15HFile) ReadAt(b []byte, off int64) (int, error) {
	f.s.mu.Lock()
	defer f.s.mu.Unlock()
	f.s.steps++
	n, err := f.VerifFile.ReadAt(b, off)
	if f.s.sampling {
		f.s.log = append(f.s.log, c15StoreEv{kind: 'r', stamp: f.s.clk.tick(), off: off, data: append([]byte(nil), b[:n]...)})
	}
	return n, err
}

func (f c15HFile) WriteAt(b []byte, off int64) (int, error) {
	f.s.mu.Lock()
	defer f.s.mu.Unlock()
	f.s.steps++
	n, err := f.VerifFile.WriteAt(b, off)
	if f.s.sampling {
		f.s.log = append(f.s.log, c15StoreEv{kind: 'w', stamp: f.s.clk.tick(), off: off, data: append([]byte(nil), b[:n]...)})
	}
	return n, err
}

func (f c15HFile) Stat() (fs.FileInfo, error) { return f.VerifFile.Stat() }

// c15HammerRun runs one hammer in this process.
func c15HammerRun(cfg c15HammerCfg) (out c15HammerOut) {
	if cfg.Mode == "distinct" {
		return c15DistinctRun(cfg)
	}
	if cfg.Mode != "" {
		out.Harness = "hammer: mode " + cfg.Mode
		return
	}
	if err := cfg.valid(); err != nil {
		out.Harness = err.Error()
		return
	}
	class := "c15/hammer/" + cfg.Server
	kase := lib.NewCase(class)
	G, R := cfg.Goroutines, cfg.Region
	clk := &c15Clock{}
	init := make([]byte, G*R)
	for i := range init {
		init[i] = byte(0xA0 + i%16)
	}
	store := &c15HStore{b: append([]byte(nil), init...), clk: clk}
	var pair *vhPair
	var err error
	path := "/f"
	if cfg.Server == "rs" {
		var so []sftp.RequestServerOption
		if cfg.Alloc {
			so = append(so, sftp.WithRSAllocator())
		}
		h := c15HHandlers{store}
		pair, err = vhStartRS(sftp.Handlers{FileGet: h, FilePut: h, FileCmd: h, FileList: h}, nil, so...)
	} else {
		dir, e := lib.MkScratch("vh-c15h-")
		if e != nil {
			out.Harness = e.Error()
			return
		}
		defer os.RemoveAll(dir)
		path = filepath.Join(dir, "f")
		if e := os.WriteFile(path, init, 0o600); e != nil {
			out.Harness = e.Error()
			return
		}
		var so []sftp.ServerOption
		if cfg.Alloc {
			so = append(so, sftp.WithAllocator())
		}
		pair, err = vhStartOS(nil, so...)
	}
	if err != nil {
		out.Harness = "start: " + err.Error()
		return
	}
	defer func() {
		if out.Key == "" { // (after a finding the Client may never go away; the process exits anyway)
			pair.Close()
		}
	}()
	var files []*sftp.File
	for i := 0; i < cfg.Handles; i++ {
		var f *sftp.File
		var err error
		if !kase.Within(20*time.Second, func() { f, err = pair.Client.OpenFile(path, os.O_RDWR) }) {
			out.Key, out.What = "hammer/call-did-not-return", "OpenFile did not return within 20 s"
			return
		}
		if err != nil {
			out.Harness = "open: " + err.Error()
			return
		}
		files = append(files, f)
	}
	if cfg.Server == "os" {
		for i := 1; i <= cfg.Handles; i++ {
			if !sftp.VerifSwapFile(pair.OS, fmt.Sprint(i), func(f sftp.VerifFile) sftp.VerifFile { return c15HFile{f, store} }) {
				out.Harness = fmt.Sprintf("handle %d not in the server's table", i)
				return
			}
		}
	}
	store.mu.Lock()
	store.sampling = cfg.Sample > 0
	store.mu.Unlock()

	type finding struct {
		key, what, exp string
		act            any
		g, k           int
		at             int64
	}
	var fmu sync.Mutex
	var finds []finding
	var stop, found atomic.Bool
	var epoch, arrived atomic.Int64 // volleys: the last goroutine to arrive lets all of them go
	var nops atomic.Int64
	var sampled atomic.Int32         // goroutines that have finished their stamped pairs
	state := make([]atomic.Int64, G) // pair number << 1 | (0 writing, 1 reading); -1 = returned
	samples := make([][]c15Op, G)
	t0 := time.Now()
	deadline := t0.Add(time.Duration(cfg.MaxMs) * time.Millisecond)
	report := func(g, k int, key, what, exp string, act any) {
		fmu.Lock()
		finds = append(finds, finding{key, what, exp, act, g, k, nops.Load()})
		fmu.Unlock()
		found.Store(true)
		stop.Store(true)
	}
	var wg sync.WaitGroup
	for g := 0; g < G; g++ {
		wg.Add(1)
		go func(g int) {
			defer wg.Done()
			defer state[g].Store(-1)
			f := files[g%len(files)]
			off := int64(g * R)
			rb := make([]byte, R)
			if cfg.Volley > 0 {
				defer stop.Store(true) // (the others would wait for this goroutine at the next volley)
			}
			my := int64(0)
		pairs:
			for k := 0; k < cfg.PairsEach; k++ {
				if stop.Load() || (cfg.MaxMs > 0 && k%64 == 0 && time.Now().After(deadline)) {
					break
				}
				if cfg.Volley > 0 && k%cfg.Volley == 0 {
					if arrived.Add(1) == int64(G) {
						arrived.Store(0)
						epoch.Add(1)
					} else {
						for spins := 0; epoch.Load() == my; spins++ {
							if spins%256 == 255 {
								if stop.Load() || (cfg.MaxMs > 0 && time.Now().After(deadline)) {
									break pairs
								}
								runtime.Gosched()
							}
						}
					}
					my++
				}
				stamped := k < cfg.Sample
				pat := c15Pattern(cfg.Seed, g, k, R)
				state[g].Store(int64(k) << 1)
				var call int64
				if stamped {
					call = clk.tick()
				}
				n, err := f.WriteAt(pat, off)
				if stamped {
					samples[g] = append(samples[g], c15Op{Kind: 'w', K: "w", Call: call, Ret: clk.tick(), Off: off, Len: R, Data: pat})
				}
				nops.Add(1)
				if err != nil || n != R {
					report(g, k, "hammer/write-failed", fmt.Sprintf("goroutine %d, pair %d: WriteAt of %d bytes at %d (one packet, inside the file) returned (%d, %v)", g, k, R, off, n, err), fmt.Sprintf("(%d, nil)", R), fmt.Sprintf("(%d, %v)", n, err))
					break
				}
				state[g].Store(int64(k)<<1 | 1)
				for i := range rb {
					rb[i] = 0xEE
				}
				if stamped {
					call = clk.tick()
				}
				n, err = f.ReadAt(rb, off)
				if stamped {
					samples[g] = append(samples[g], c15Op{Kind: 'r', K: "r", Call: call, Ret: clk.tick(), Off: off, Len: R, Data: append([]byte(nil), rb[:max(n, 0)]...)})
					if k == cfg.Sample-1 {
						if int(sampled.Add(1)) == G {
							store.mu.Lock()
							store.sampling = false
							store.mu.Unlock()
						}
					}
				}
				nops.Add(1)
				if err != nil || n != R {
					report(g, k, "hammer/read-failed", fmt.Sprintf("goroutine %d, pair %d: ReadAt of %d bytes at %d (one packet, inside the file, whose size never changes) returned (%d, %v)", g, k, R, off, n, err), fmt.Sprintf("(%d, nil)", R), fmt.Sprintf("(%d, %v)", n, err))
					break
				}
				if !bytes.Equal(rb, pat) {
					report(g, k, "hammer/read-back-differs", fmt.Sprintf("goroutine %d, pair %d: ReadAt at %d returned other bytes than this goroutine had just written there (nobody else writes to this region): it got %s", g, k, off, c15Explain(cfg, init, rb)),
						gDigest(pat), gDigest(rb))
					break
				}
			}
		}(g)
	}
	done := make(chan struct{})
	go func() { wg.Wait(); close(done) }()
	// no call hangs: the goroutines return — within MaxMs plus the hang deadline; once a goroutine has reported a
	// finding (and told the others to stop after their current operation) within 3 s
	hung := false
	limit := time.Duration(cfg.MaxMs)*time.Millisecond + 20*time.Second
	if cfg.MaxMs <= 0 {
		limit = 10 * time.Minute
	}
	tick := time.NewTicker(20 * time.Millisecond)
	defer tick.Stop()
wait:
	for {
		select {
		case <-done:
			break wait
		case <-tick.C:
			lib.Touch()
			if found.Load() {
				if _, ok := lib.WaitCase(kase, 3*time.Second, done); !ok {
					hung = true
				}
				break wait
			}
			if time.Since(t0) > limit-20*time.Second && (cfg.MaxMs > 0 || time.Since(t0) > limit) {
				// the time cap has passed: every goroutine notices within 64 pairs
				if _, ok := lib.WaitCase(kase, 20*time.Second, done); !ok {
					hung = true
				}
				break wait
			}
		}
	}
	out.Ops, out.Ms = nops.Load(), time.Since(t0).Milliseconds()
	var stuck []string
	if hung {
		for g := range state {
			if v := state[g].Load(); v >= 0 {
				stuck = append(stuck, fmt.Sprintf("goroutine %d in the %s of pair %d", g, []string{"WriteAt", "ReadAt"}[v&1], v>>1))
			}
		}
	}
	fmu.Lock()
	sort.SliceStable(finds, func(i, j int) bool { return finds[i].at < finds[j].at })
	fs := append([]finding(nil), finds...)
	fmu.Unlock()
	// the data findings first: a lost connection is what the others see once one reply has gone astray
	rank := map[string]int{"hammer/read-back-differs": 0, "hammer/read-failed": 1, "hammer/write-failed": 1}
	first := -1
	for i, f := range fs {
		lost := strings.Contains(fmt.Sprint(f.act), "connection lost")
		if first < 0 || (rank[f.key] < rank[fs[first].key] && !lost) || (strings.Contains(fmt.Sprint(fs[first].act), "connection lost") && !lost) {
			first = i
		}
	}
	if first >= 0 {
		f := fs[first]
		out.Key, out.What, out.Exp, out.Act = f.key, f.what+fmt.Sprintf(" (after %d completed operations of all goroutines)", f.at), f.exp, f.act
		for i, o := range fs {
			if i != first && len(out.More) < 8 {
				out.More = append(out.More, o.what)
			}
		}
		if len(stuck) > 0 {
			out.More = append(out.More, "3 s after the goroutines were told to stop these calls had not returned: "+strings.Join(stuck, "; "))
		}
		return
	}
	if hung {
		out.Key, out.What, out.Exp, out.Act = "hammer/call-did-not-return", "operations of a hammer did not return within 20 s", "every call returns", stuck
		return
	}
	// the stamped prefix: every goroutine's first Sample pairs, matched to the store steps that served them
	store.mu.Lock()
	log := append([]c15StoreEv(nil), store.log...)
	store.mu.Unlock()
	if cfg.Sample > 0 {
		byOff := map[int64][2][]c15StoreEv{}
		for _, ev := range log {
			p := byOff[ev.off]
			if ev.kind == 'w' {
				p[0] = append(p[0], ev)
			} else {
				p[1] = append(p[1], ev)
			}
			byOff[ev.off] = p
		}
		var ops []c15Op
		for g := 0; g < G; g++ {
			p := byOff[int64(g*R)]
			nw, nr := 0, 0
			for _, op := range samples[g] {
				var evs []c15StoreEv
				var i *int
				if op.Kind == 'w' {
					evs, i = p[0], &nw
				} else {
					evs, i = p[1], &nr
				}
				if *i >= len(evs) || evs[*i].stamp < op.Call || evs[*i].stamp > op.Ret {
					out.Key, out.What = "history/unmatched-operation", fmt.Sprintf("no store step found for operation %c off=%d len=%d of goroutine %d (call %d, ret %d): the store logged %d steps of this kind at this offset", op.Kind, op.Off, op.Len, g, op.Call, op.Ret, len(evs))
					return
				}
				op.Stamp = evs[*i].stamp
				*i++
				ops = append(ops, op)
			}
		}
		sort.Slice(ops, func(i, j int) bool { return ops[i].Ret < ops[j].Ret })
		out.Line, out.SampleN = c15Line(init, ops), len(ops)
	}
	return
}

func c15HammerChild(args []string) {
	if len(args) != 2 {
		os.Exit(2)
	}
	var cfg c15HammerCfg
	b, err := os.ReadFile(args[0])
	if err == nil {
		err = json.Unmarshal(b, &cfg)
	}
	if err != nil {
		fmt.Fprintln(os.Stderr, err)
		os.Exit(2)
	}
	out := c15HammerRun(cfg)
	ob, _ := json.Marshal(out)
	if err := os.WriteFile(args[1], ob, 0o644); err != nil {
		fmt.Fprintln(os.Stderr, err)
		os.Exit(2)
	}
	lib.FlushBudget()
	lib.CleanupScratch()
	os.Exit(0) // goroutines stuck inside the package must not keep the process
}

// c15HammerExec runs one hammer in a child process. died != "": the process died (a panic inside the package).
func c15HammerExec(dir string, n int, cfg c15HammerCfg) (out c15HammerOut, died string) {
	inF := filepath.Join(dir, fmt.Sprintf("h%d.in.json", n))
	outF := filepath.Join(dir, fmt.Sprintf("h%d.out.json", n))
	b, _ := json.Marshal(cfg)
	if err := os.WriteFile(inF, b, 0o644); err != nil {
		return c15HammerOut{Harness: err.Error()}, ""
	}
	cmd := exec.Command(os.Args[0], "child", "c15hammer", inF, outF)
	cmd.Env = append(os.Environ(), "GOTRACEBACK=single", "GOMEMLIMIT=4GiB")
	var se bytes.Buffer
	cmd.Stderr = &se
	if err := cmd.Start(); err != nil {
		return c15HammerOut{Harness: err.Error()}, ""
	}
	defer lib.KeepAlive()()
	done := make(chan error, 1)
	go func() { done <- cmd.Wait() }()
	// the child bounds itself by MaxMs and the hang budget; the kill is the backstop behind that
	limit := time.Duration(cfg.MaxMs)*time.Millisecond + 90*time.Second
	if cfg.MaxMs <= 0 {
		limit = 15 * time.Minute
	}
	var werr error
	select {
	case werr = <-done:
	case <-time.After(limit):
		lib.SpendHang("c15/hammer/"+cfg.Server, limit)
		cmd.Process.Kill()
		<-done
		return c15HammerOut{Key: "hammer/call-did-not-return", What: fmt.Sprintf("the process running the hammer did not finish within %v", limit), Exp: "every call returns"}, ""
	}
	if werr != nil {
		lines := strings.Split(se.String(), "\n")
		what := "the process running this hammer died: " + werr.Error()
		for _, l := range lines {
			if strings.HasPrefix(l, "panic:") || strings.HasPrefix(l, "fatal error:") {
				what += ": " + l
				break
			}
		}
		if len(lines) > 24 {
			lines = lines[:24]
		}
		return c15HammerOut{Act: strings.Join(lines, "\n")}, what
	}
	ob, err := os.ReadFile(outF)
	if err == nil {
		err = json.Unmarshal(ob, &out)
	}
	if err != nil {
		return c15HammerOut{Harness: "result of the hammer process: " + err.Error()}, ""
	}
	return out, ""
}

// c15HammerCfgs: the hammers of a run. quick: one per (server, allocator), 16…32 goroutines, 1.5 s each, two side by
// side (3 s of wall time), two of them in volleys (all goroutines start every pair together), two at the goroutines'
// own pace; thorough: twelve of 5 s, two side by side (30 s), also with regions of 64 bytes and of a whole default
// packet, with several handles, and with a volley before every pair, before every 8th, or never.
func c15HammerCfgs(c *lib.Ctx) []c15HammerCfg {
	var out []c15HammerCfg
	mk := func(server string, alloc bool, ms, pairs int) c15HammerCfg {
		return c15HammerCfg{Hammer: true, Server: server, Alloc: alloc, Goroutines: 16 + c.Rand.Intn(17), PairsEach: pairs, MaxMs: ms,
			Region: 256, Handles: 1 + c.Rand.Intn(2), Sample: 6, Seed: c.Rand.Int63()}
	}
	flip := c.Rand.Intn(2)
	if c.Tier != "thorough" {
		for i, alloc := range []bool{false, true} {
			for j, server := range []string{"rs", "os"} {
				cfg := mk(server, alloc, 1500, 4000)
				if (i+j+flip)%2 == 0 { // two of the four in volleys, two at the goroutines' own pace
					cfg.Volley = 1
				}
				out = append(out, cfg)
			}
		}
		return out
	}
	for k := 0; k < 6; k++ {
		for j, server := range []string{"rs", "os"} {
			cfg := mk(server, k%2 == 1, 5000, 40000)
			cfg.Volley = []int{1, 0, 8}[(k+j+flip)%3]
			cfg.Region = []int{256, 64, 256, 4096, 1024, 32768}[k]
			cfg.Handles = []int{1, 1, 2, 4, 3, 1}[k]
			cfg.Goroutines = []int{16, 32, 24, 16, 32, 20}[k]
			if cfg.Region*cfg.Sample > 32768 {
				cfg.Sample = 2
			}
			out = append(out, cfg)
		}
	}
	return out
}

// c15Hammers runs the hammers two side by side and folds their outcomes into the result.
func c15Hammers(c *lib.Ctx, cfgs []c15HammerCfg) {
	r := c.R
	dir, err := lib.MkScratch("vh-c15-hammer-")
	if err != nil {
		r.Fail(lib.Failure{Kind: "tie", Key: "harness/tmpdir", What: err.Error()})
		return
	}
	defer os.RemoveAll(dir)
	type res struct {
		out  c15HammerOut
		died string
		ran  bool
	}
	results := make([]res, len(cfgs))
	var wg sync.WaitGroup
	sem := make(chan struct{}, 2)
	for i, cfg := range cfgs {
		if c.Stop("c15/hammer/" + cfg.Server) {
			continue
		}
		wg.Add(1)
		sem <- struct{}{}
		go func(i int, cfg c15HammerCfg) {
			defer wg.Done()
			defer func() { <-sem }()
			o, died := c15HammerExec(dir, i, cfg)
			results[i] = res{o, died, true}
		}(i, cfg)
	}
	wg.Wait()
	var lines []string
	var keep []c15HammerCfg
	var total int64
	for i, cfg := range cfgs {
		x := results[i]
		if !x.ran {
			continue
		}
		o := x.out
		r.Case(cfg.text(), true)
		r.Hist(fmt.Sprintf("hammer/%s-alloc=%v", cfg.Server, cfg.Alloc))
		r.Hist(fmt.Sprintf("hammer/goroutines=%d", cfg.Goroutines))
		r.Hist(fmt.Sprintf("hammer/region=%d/handles=%d", cfg.Region, cfg.Handles))
		if cfg.Mode == "distinct" {
			r.Hist("hammer/distinct/" + cfg.Server + "/" + strings.Join(cfg.Spec, ","))
		}
		total += o.Ops
		switch {
		case x.died != "":
			r.Fail(lib.Failure{Kind: "oracle", Key: "hammer/crash/" + cfg.Server, What: x.died, Input: cfg, Expected: "every operation returns what this goroutine wrote last", Actual: o.Act})
		case o.Harness != "":
			r.Fail(lib.Failure{Kind: "tie", Key: "harness/hammer", What: o.Harness, Input: cfg})
		case o.Key != "":
			act := o.Act
			if len(o.More) > 0 {
				act = map[string]any{"actual": o.Act, "further_observations_of_the_same_run": o.More}
			}
			r.Fail(lib.Failure{Kind: "oracle", Key: o.Key, What: o.What + fmt.Sprintf(" [%s; a race: replaying the configuration reproduces it with high probability, not at the same operation]", cfg.text()), Input: cfg, Expected: o.Exp, Actual: act})
		default:
			r.Hist(fmt.Sprintf("hammer/%s/completed-operations>=%d0000", cfg.Server, o.Ops/10000))
			if o.Line != "" {
				lines = append(lines, o.Line)
				keep = append(keep, cfg)
			}
		}
		if len(r.Samples) < 3 && x.died == "" && o.Harness == "" {
			r.Sample(map[string]any{"hammer": cfg, "completed_operations": o.Ops, "ms": o.Ms, "stamped_operations_checked_by_the_model": o.SampleN})
		}
	}
	r.Note("hammer family: %d runs, %d completed single-packet operations in all", len(cfgs), total)
	if len(lines) > 0 && c.ModelPath != "" {
		outm, err := c.Model(lines)
		if err != nil {
			r.Fail(lib.Failure{Kind: "tie", Key: "c15/model-driver", What: err.Error()})
			return
		}
		for i, o := range outm {
			if o != "ok" {
				r.Fail(lib.Failure{Kind: "oracle", Key: "history/not-linearizable", What: "stamped prefix of a hammer rejected by the proved checker: " + o, Input: keep[i], Actual: c15Short(lines[i])})
			}
		}
	}
}
