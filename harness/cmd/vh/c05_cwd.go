package main

// C05, path mode "cwd": the os-backed server constructed WITHOUT a working directory, driven with RELATIVE paths.
//
// The package documents that case ("If unset the default is current working directory (os.Getwd)"), and the server
// implements it by handing a relative path to the kernel as the client wrote it: it then means what it means to
// package os at the moment of the call, in the directory the process is in at that moment.  The differential of
// c05.go is applied to exactly that statement:
//
//   - the process chdirs into the place <rootA>/<d> of the served tree, the client call is made with a relative path;
//     the process chdirs into the same place <rootB>/<d> of the twin tree, and package os gets THE SAME STRING;
//   - d changes in the course of a sequence (operation kind "chdir": into a directory, through a symbolic link to a
//     directory — the process then is where the link leads —, back to the root), so a path is spelled from where the
//     process is: "x" below it, "../x", "../../x" above it, "." for the directory itself, and — one path in eight —
//     non-canonically ("./x", "link/../x" through a directory link, "x/", "a//b" …; c05Gen.spell): the kernel
//     resolves what the client wrote;
//   - the server is constructed while the process is in the root of the served tree (cons "root") or in a third copy
//     of the tree next to the twins (cons "elsewhere") and used after the process has moved on.
//
// The directory of a process is process-global, so such a sequence cannot share a process with anything else that
// names files: it runs in a child process (`vh child c05cwd`, one sequence at a time), which the parent feeds with
// jobs and which answers with the sequence's result; minimising and --replay go the same way (c05RunJob).
//
// Containment: the three trees hang two levels below the scratch directory of the run (<scratch>/{A,B,C}/r), the
// process directory is never deeper than two levels below a root and always physically inside it, and an operation
// is run only if its path — from the process directory, as the kernel walks it and lexically cleaned — stays below
// <scratch>/{A,B} (c05Run.escapes).  A server that resolves a relative path against one of the other directories the
// process has been in (a root, a place below one) therefore still ends inside <scratch>; the transport guard of
// peers.NewOSServer judges every frame against the working directory the server value holds, if it holds one.

import (
	"bufio"
	"encoding/json"
	"errors"
	"fmt"
	"io"
	"math/rand"
	"os"
	"os/exec"
	"path/filepath"
	"strings"
	"sync"
	"syscall"
	"time"

	"github.com/pkg/sftp"

	"verifharness/lib"
)

func init() { children["c05cwd"] = c05CwdChild }

// c05InCwdChild: this process is a child made for sequences of path mode cwd (it runs one sequence at a time and
// nothing else).
var c05InCwdChild bool

// c05CwdProcs is the number of such children the parent keeps busy.
const c05CwdProcs = 6

// c05Job is one sequence to run: a written-out one (Tree, Ops) or a generated one (tree and N operations drawn from Seed).
type c05Job struct {
	Mode  string   `json:"mode"`
	Cons  string   `json:"cons,omitempty"`
	Tree  []c05Ent `json:"tree,omitempty"`
	Ops   []c05Op  `json:"ops,omitempty"`
	Gen   bool     `json:"gen,omitempty"`
	Seed  int64    `json:"seed,omitempty"`
	N     int      `json:"n,omitempty"`
	Light bool     `json:"light,omitempty"`
	Phase string   `json:"phase,omitempty"` // hang class of the calls (c05Phase)
}

// c05RunJob runs one sequence: here, or — path mode cwd — in a child process.
func c05RunJob(j c05Job) *c05SeqResult {
	if j.Mode == "cwd" && !c05InCwdChild {
		j.Phase = c05Phase()
		return c05CwdDelegate(j)
	}
	if j.Gen {
		rng := rand.New(rand.NewSource(j.Seed))
		tree := c05SeedTree(rng)
		return c05RunSeq(j.Mode, j.Cons, tree, nil, rng, j.N, j.Light)
	}
	return c05RunSeq(j.Mode, j.Cons, j.Tree, j.Ops, nil, 0, j.Light)
}

func c05RunInput(in c05Input, light bool) *c05SeqResult {
	return c05RunJob(c05Job{Mode: in.Mode, Cons: in.Cons, Tree: in.Tree, Ops: in.Ops, Light: light})
}

// ---------------------------------------------------------------------------------------------
// the result of a sequence on the wire between child and parent

type c05WireCase struct {
	C string `json:"c"`
	N bool   `json:"n,omitempty"`
}

type c05WireRes struct {
	In       c05Input       `json:"in"`
	Failures []c05Failure   `json:"failures,omitempty"`
	Cases    []c05WireCase  `json:"cases,omitempty"`
	Hist     map[string]int `json:"hist,omitempty"`
	TieErr   string         `json:"tie,omitempty"`
	OrderOff int            `json:"order_off,omitempty"`
	Dirty    bool           `json:"dirty,omitempty"` // a call of the sequence never returned: the child ends after this answer
}

func c05ToWire(res *c05SeqResult) c05WireRes {
	w := c05WireRes{In: res.in, Failures: res.failures, Hist: res.hist, TieErr: res.tieErr, OrderOff: res.orderOff}
	for _, cs := range res.cases {
		w.Cases = append(w.Cases, c05WireCase{cs.canon, cs.nontrivial})
	}
	for _, f := range res.failures {
		if strings.HasPrefix(f.Key, "hang/") {
			w.Dirty = true
		}
	}
	return w
}

func c05FromWire(w c05WireRes) *c05SeqResult {
	res := &c05SeqResult{in: w.In, failures: w.Failures, hist: w.Hist, tieErr: w.TieErr, orderOff: w.OrderOff}
	if res.hist == nil {
		res.hist = map[string]int{}
	}
	for _, cs := range w.Cases {
		res.cases = append(res.cases, c05Case{cs.C, cs.N})
	}
	return res
}

// ---------------------------------------------------------------------------------------------
// the child

func c05CwdChild(args []string) {
	c05InCwdChild = true
	syscall.Umask(0o022) // documented: create/mode
	dec := json.NewDecoder(bufio.NewReaderSize(os.Stdin, 1<<20))
	out := bufio.NewWriterSize(os.Stdout, 1<<20)
	for {
		var j c05Job
		if err := dec.Decode(&j); err != nil {
			return
		}
		if j.Phase != "" {
			c05PhaseV.Store(j.Phase)
		}
		w := c05ToWire(c05RunJob(j))
		b, err := json.Marshal(w)
		if err != nil {
			b, _ = json.Marshal(c05WireRes{In: w.In, TieErr: "result of the sequence cannot be written: " + err.Error()})
		}
		out.Write(append(b, '\n'))
		if out.Flush() != nil || w.Dirty {
			return
		}
	}
}

// ---------------------------------------------------------------------------------------------
// the parent's side: a few children, each given one job at a time

type c05CwdProc struct {
	cmd    *exec.Cmd
	in     io.WriteCloser
	out    *bufio.Reader
	stderr *cliTail
}

var c05CwdPool struct {
	once  sync.Once
	slots chan *c05CwdProc // nil: a child is started when the slot is used
}

func c05CwdStart() (*c05CwdProc, error) {
	cmd := exec.Command(os.Args[0], "child", "c05cwd")
	cmd.Env = append(os.Environ(), "GOTRACEBACK=all", "GOMAXPROCS=4")
	in, err := cmd.StdinPipe()
	if err != nil {
		return nil, err
	}
	out, err := cmd.StdoutPipe()
	if err != nil {
		return nil, err
	}
	tail := &cliTail{}
	cmd.Stderr = tail
	if err := cmd.Start(); err != nil {
		return nil, err
	}
	return &c05CwdProc{cmd: cmd, in: in, out: bufio.NewReaderSize(out, 1<<20), stderr: tail}, nil
}

func (p *c05CwdProc) kill() {
	p.in.Close()
	p.cmd.Process.Kill()
	p.cmd.Wait()
}

// c05CwdDelegate has one of the children run the job.  The child bounds every wait on the code under test by the
// shared hang budget; the wait for the child as a whole is bounded here (it is killed when it does not answer).
func c05CwdDelegate(j c05Job) *c05SeqResult {
	c05CwdPool.once.Do(func() {
		c05CwdPool.slots = make(chan *c05CwdProc, c05CwdProcs)
		for i := 0; i < c05CwdProcs; i++ {
			c05CwdPool.slots <- nil
		}
	})
	fail := func(format string, a ...any) *c05SeqResult {
		return &c05SeqResult{in: c05Input{Mode: j.Mode, Cons: j.Cons, Tree: j.Tree, Ops: j.Ops}, hist: map[string]int{}, tieErr: fmt.Sprintf(format, a...) + fmt.Sprintf(" (job: generated=%v seed=%d n=%d)", j.Gen, j.Seed, j.N)}
	}
	p := <-c05CwdPool.slots
	if p == nil {
		var err error
		if p, err = c05CwdStart(); err != nil {
			c05CwdPool.slots <- nil
			return fail("child process for path mode cwd: %v", err)
		}
	}
	line, _ := json.Marshal(j)
	type rd struct {
		b   []byte
		err error
	}
	ch := make(chan rd, 1)
	go func() {
		p.in.Write(append(line, '\n')) // a child that is gone shows in the read
		b, err := p.out.ReadBytes('\n')
		ch <- rd{b, err}
	}()
	limit := 4 * time.Minute
	if rem := lib.Remaining() + 30*time.Second; rem < limit {
		limit = max(rem, 30*time.Second)
	}
	select {
	case r := <-ch:
		var w c05WireRes
		if r.err == nil {
			if err := json.Unmarshal(r.b, &w); err == nil {
				if w.Dirty {
					p.kill()
					p = nil
				}
				c05CwdPool.slots <- p
				lib.Touch()
				return c05FromWire(w)
			}
		}
		p.kill()
		c05CwdPool.slots <- nil
		tail := p.stderr.String()
		if len(tail) > 3000 {
			tail = tail[:3000] + "…"
		}
		if strings.Contains(tail, "panic:") || strings.Contains(tail, "fatal error:") {
			// the code under test brought the process down (a panic in a goroutine of the server or the client)
			res := fail("the child process died")
			res.tieErr = ""
			step := len(j.Ops) - 1
			res.failures = []c05Failure{{Key: "panic/process-died", Sig: "panic", Step: step, What: "the process running the client/server pair died while the sequence ran (relative paths, server without a working directory)" + map[bool]string{true: fmt.Sprintf("; generated sequence: seed %d, %d operations, server constructed %s", j.Seed, j.N, j.Cons)}[j.Gen],
				Expected: "every call returns", Actual: tail}}
			return res
		}
		return fail("the child process for path mode cwd died or answered unreadably (%v): %s", r.err, tail)
	case <-time.After(limit):
		p.kill()
		c05CwdPool.slots <- nil
		lib.SpendHang(j.Phase, limit)
		return fail("the child process for path mode cwd did not answer within %.0f s and was killed", limit.Seconds())
	}
}

// c05CwdShutdown ends the children (called when no job is running any more: every slot is back in the pool).
func c05CwdShutdown() {
	if c05CwdPool.slots == nil {
		return
	}
	taken := 0
drain:
	for taken < c05CwdProcs {
		select {
		case p := <-c05CwdPool.slots:
			taken++
			if p == nil {
				continue
			}
			p.in.Close() // the child returns at the end of its input
			done := make(chan struct{})
			go func() { p.cmd.Wait(); close(done) }()
			if _, ok := lib.WaitCleanup("c05/cwd-child-exit", 5*time.Second, done); !ok {
				p.cmd.Process.Kill()
			}
		default:
			break drain
		}
	}
	for ; taken > 0; taken-- {
		c05CwdPool.slots <- nil
	}
}

// ---------------------------------------------------------------------------------------------
// the process directory of a run

// cwdSetup makes the third copy of the tree and the directory the process waits in between operations.
func (r *c05Run) cwdSetup(tree []c05Ent) error {
	if r.cons != "root" && r.cons != "elsewhere" {
		return fmt.Errorf("path mode cwd: unknown place of construction %q", r.cons)
	}
	r.rootC, r.home = r.base+"/C/r", r.base+"/H"
	for _, d := range []string{r.base + "/C", r.rootC, r.home} {
		if err := os.Mkdir(d, 0o755); err != nil {
			return err
		}
	}
	c05Build(r.rootC, tree)
	return os.Chdir(r.home)
}

// startPair is c05StartPair; in path mode cwd the process is in the directory named by cons while the server is
// constructed and until the handshake is over, then leaves it.
func (r *c05Run) startPair() (*sftp.Client, func(), error) {
	if r.mode == "cwd" {
		d := r.rootA
		if r.cons == "elsewhere" {
			d = r.rootC
		}
		if err := os.Chdir(d); err != nil {
			return nil, nil, err
		}
		defer r.leave()
	}
	cli, stop, end, err := c05StartPairEnd(r.opts...)
	r.end = end
	r.escSeen = len(r.guardRefusals())
	return cli, stop, err
}

// ---------------------------------------------------------------------------------------------
// who ended a connection (all path modes)

// guardRefusals returns the refusals of the transport guard recorded so far that concern this run: those that name
// its scratch directory and, in the child made for path mode cwd (one sequence at a time; a relative path is judged
// from the process directory), those that name the child's scratch area.
func (r *c05Run) guardRefusals() []string {
	var out []string
	for _, e := range lib.Escapes() {
		if strings.Contains(e, r.base) || c05InCwdChild && strings.Contains(e, filepath.Dir(r.base)+"/") {
			out = append(out, e)
		}
	}
	return out
}

// serverEnded: Serve of the pair in use has returned.
func (r *c05Run) serverEnded() bool {
	if r.end == nil {
		return false
	}
	select {
	case <-r.end.done:
		return true
	default:
		return false
	}
}

// endedByHarness says whether — and why — the connection of the pair is gone because of the harness: the transport
// guard refused a frame of this run (the server then sees its input end), or the harness stopped the pair.
func (r *c05Run) endedByHarness(outA c05Out) string {
	if !r.serverEnded() && !errors.Is(outA.err, sftp.ErrSSHFxConnectionLost) {
		return ""
	}
	if r.end != nil && r.end.byHarness.Load() {
		return "the-pair-was-stopped"
	}
	// the guard records a refusal before the server can see its input end; the server's end reaches the client later
	if n := len(r.guardRefusals()); n > r.escSeen {
		r.escSeen = n
		return "transport-guard-refused-a-frame"
	}
	return ""
}

// connectionState describes, for a failure, the pair whose connection is gone: what Serve returned, the goroutines
// the package started and the goroutines blocked inside it (in the child of path mode cwd these are the pair's own;
// in the process shared by the other sequences, those of all pairs).
func (r *c05Run) connectionState() map[string]any {
	started, callers := cliPkgGoroutines()
	trim := func(l []string) []string {
		if len(l) > 24 {
			l = append(l[:24:24], fmt.Sprintf("… %d in all", len(l)))
		}
		return l
	}
	return map[string]any{"server": r.end.describe(), "transport_guard_refusals_of_this_run": r.guardRefusals(),
		"goroutines_started_by_the_package": trim(cliDescribe(started)), "goroutines_blocked_inside_the_package": trim(cliDescribe(callers))}
}

// cwdDir is the process directory of the operations in the tree with the given root.
func (r *c05Run) cwdDir(root string) string {
	if r.cwd == "" {
		return root
	}
	return root + "/" + r.cwd
}

func (r *c05Run) cwdDepth() int {
	if r.cwd == "" {
		return 0
	}
	return strings.Count(r.cwd, "/") + 1
}

// enter moves the process to its place in tree A or B; leave takes it out of the trees.
func (r *c05Run) enter(side byte) {
	if r.mode != "cwd" {
		return
	}
	root := r.rootA
	if side == 'B' {
		root = r.rootB
	}
	if os.Chdir(r.cwdDir(root)) != nil { // (cwdCheck has looked: it is there)
		os.Chdir(r.home)
	}
}

func (r *c05Run) leave() {
	if r.mode == "cwd" {
		os.Chdir(r.home)
	}
}

// physIn returns where, relative to root, the directory root/rel physically is ("" = the root itself); ok is false
// when it is no directory or not inside root.
func c05PhysIn(root, rel string) (string, bool) {
	p, err := filepath.EvalSymlinks(c05Join(root, rel))
	if err != nil {
		return "", false
	}
	if fi, err := os.Lstat(p); err != nil || !fi.IsDir() {
		return "", false
	}
	if p == root {
		return "", true
	}
	if !strings.HasPrefix(p, root+"/") {
		return "", false
	}
	return p[len(root)+1:], true
}

// cwdCheck looks, before a step, whether the process directory still exists at its place in both trees (an
// operation may have removed or renamed it or replaced a directory above it by a link); if not, the process goes
// back to the root.  It reports whether that happened.
func (r *c05Run) cwdCheck() bool {
	if r.cwd == "" {
		return false
	}
	for _, root := range []string{r.rootA, r.rootB} {
		if at, ok := c05PhysIn(root, r.cwd); !ok || at != r.cwd {
			r.cwd = ""
			return true
		}
	}
	return false
}

// chdir performs the operation kind "chdir": the directory op.P names — the same place in both trees, at most two
// levels below the root (see the containment note at the top) — becomes the process directory of the next operations.
func (r *c05Run) chdir(op c05Op) bool {
	a, okA := c05PhysIn(r.rootA, op.P)
	b, okB := c05PhysIn(r.rootB, op.P)
	if !okA || !okB || a != b || strings.Count(a, "/") > 1 {
		return false
	}
	r.cwd = a
	return true
}

// fromCwd spells the root-relative path rel from the process directory: what lies below it without the leading
// components, the directory itself ".", everything else with one "../" per level (the process directory is
// physically <root>/<cwd>, so the kernel arrives at the root).
func (r *c05Run) fromCwd(rel string) string {
	if r.cwd == "" || rel == "" || strings.HasPrefix(rel, "/") {
		return rel
	}
	if rel == r.cwd {
		return "."
	}
	if strings.HasPrefix(rel, r.cwd+"/") && strings.Trim(rel[len(r.cwd)+1:], "/") != "" {
		return strings.TrimLeft(rel[len(r.cwd)+1:], "/")
	}
	up := strings.Repeat("../", r.cwdDepth())
	if rel == "." {
		return strings.TrimSuffix(up, "/")
	}
	return up + rel
}

// cwdSpelling names the form of the (first) path of an operation for the histogram.
func (r *c05Run) cwdSpelling(op c05Op) string {
	p := op.P
	if op.K == "symlink" {
		p = op.Q
	}
	if p == "" {
		return "none"
	}
	s := r.fromCwd(p)
	form := "plain"
	switch {
	case s == ".":
		form = "dot"
	case strings.HasPrefix(s, "../") || s == "..":
		form = "up-from-the-process-directory"
	case r.cwd != "":
		form = "below-the-process-directory"
	}
	if op.K != "glob" && filepath.Clean(s) != s {
		form += ",non-canonical"
		if strings.Contains(s, "/..") {
			form += ",dotdot-inside"
		}
	}
	return form
}

// movesCwd: the operation would remove or rename the directory the process is in, or one above it (path mode cwd).
// That is not run: what a process whose directory is gone can still name is the same for the server and for package
// os, but the two sides are applied one after the other by this one process, and the composites (RemoveAll) name
// paths through a directory that disappears on the way, where package os holds descriptors.
func (r *c05Run) movesCwd(op c05Op) bool {
	if r.mode != "cwd" {
		return false
	}
	switch op.K {
	case "remove", "rmdir", "removeall", "rename", "posixrename":
	default:
		return false
	}
	for _, root := range []string{r.rootA, r.rootB} {
		cwd := r.cwdDir(root)
		for _, p := range []string{op.P, op.Q} {
			if p == "" {
				continue
			}
			abs := c05Join(root, p)
			full, _, _ := lib.ResolveLike(abs) // links followed to the end
			trimmed := strings.TrimRight(abs, "/")
			dir, _, _ := lib.ResolveLike(filepath.Dir(trimmed)) // the entry itself, its directory resolved
			for _, x := range []string{full, filepath.Join(dir, filepath.Base(trimmed)), filepath.Clean(abs)} {
				if x == cwd || strings.HasPrefix(cwd, strings.TrimRight(x, "/")+"/") {
					return true
				}
			}
		}
	}
	return false
}

// ---------------------------------------------------------------------------------------------
// directed sequences of path mode cwd

// c05CwdSeqs: the six families of non-canonical spellings (c05NonCanonSeqs: 41 spellings x every operation kind but
// RemoveAll, over a tree where "a/up/.." is not "a") with paths relative to the process directory — once with the
// server constructed in the root of the served tree and the process staying there, once with the server constructed
// elsewhere and the process moving every few operations (into a, a/sub, b, b/c, through the links ld and la, back to
// the root) — and one sequence of plain names that goes through every place and looks, creates, renames and removes
// from there.
func c05CwdSeqs(tier string) []c05Directed {
	var out []c05Directed
	places := []string{"a", "b/c", ".", "ld", "a/sub", "la", "b", "a/up", "missing", "f", "."}
	for _, d := range c05NonCanonSeqs() {
		fam := "cwd/" + d.fam
		out = append(out, c05Directed{fam + "/server-constructed-in-the-root", c05Input{Mode: "cwd", Cons: "root", Tree: d.in.Tree, Ops: d.in.Ops}})
		var ops []c05Op
		for i, op := range d.in.Ops {
			if i%7 == 3 {
				ops = append(ops, c05Op{K: "chdir", P: places[(i/7)%len(places)]})
			}
			ops = append(ops, op)
		}
		out = append(out, c05Directed{fam + "/server-constructed-elsewhere,process-moves", c05Input{Mode: "cwd", Cons: "elsewhere", Tree: d.in.Tree, Ops: ops}})
	}
	tree := []c05Ent{
		{P: "a", K: "dir", Mode: 0o755}, {P: "a/x", K: "file", Data: "1", Mode: 0o644}, {P: "a/sub", K: "dir", Mode: 0o755}, {P: "a/sub/z", K: "file", Data: "zz", Mode: 0o600},
		{P: "b", K: "dir", Mode: 0o755}, {P: "b/c", K: "dir", Mode: 0o755}, {P: "b/x", K: "file", Data: "22", Mode: 0o600}, {P: "b/c/y", K: "file", Data: "333", Mode: 0o644},
		{P: "a/up", K: "sym", T: "../b/c"}, {P: "f", K: "file", Data: "4444", Mode: 0o644}, {P: "ld", K: "sym", T: "b/c"}, {P: "la", K: "sym", T: "a", TAbs: true},
	}
	for _, cons := range []string{"root", "elsewhere"} {
		var ops []c05Op
		n := 0
		for _, place := range []string{".", "a", "a/sub", "ld", "b", "la", "a/up", "."} {
			n++
			nm := fmt.Sprintf("n%d", n)
			ops = append(ops, c05Op{K: "chdir", P: place}, c05Op{K: "getwd"}, c05Op{K: "realpath", P: "."}, c05Op{K: "realpath", P: "a/x"})
			for _, p := range []string{"f", "a/x", "a/sub/z", "b/x", "b/c/y", "a", "b/c", ".", "ld", "a/up", "missing"} {
				ops = append(ops, c05Op{K: "stat", P: p}, c05Op{K: "lstat", P: p})
			}
			ops = append(ops,
				c05Op{K: "readdir", P: "."}, c05Op{K: "readdir", P: "a"}, c05Op{K: "readdir", P: "b/c"}, c05Op{K: "readdirctx", P: "a/sub", Ctx: "live"},
				c05Op{K: "glob", P: "*"}, c05Op{K: "glob", P: "a/*"}, c05Op{K: "walk", P: "."}, c05Op{K: "walk", P: "b"}, c05Op{K: "statvfs", P: "a"}, c05Op{K: "readlink", P: "ld"},
				c05Op{K: "mkdir", P: nm}, c05Op{K: "mkdir", P: "a/" + nm}, c05Op{K: "mkdirall", P: "b/c/" + nm + "/deep"}, c05Op{K: "create", P: "a/sub/" + nm + "f", Data: "c"},
				c05Op{K: "openfile", P: nm + "/o", Flag: os.O_WRONLY | os.O_CREATE, Data: "w"}, c05Op{K: "symlink", P: "f", Q: "b/" + nm + "s"}, c05Op{K: "link", P: "f", Q: "a/" + nm + "h"},
				c05Op{K: "rename", P: "a/" + nm, Q: "b/" + nm + "r"}, c05Op{K: "posixrename", P: "a/sub/" + nm + "f", Q: nm + "g"},
				c05Op{K: "chmod", P: "b/x", Mode: 0o640}, c05Op{K: "chtimes", P: "a/x", N: 1_234_567_890 + int64(n)}, c05Op{K: "truncate", P: "b/c/y", N: int64(n)}, c05Op{K: "chown", P: "f", UID: c05P(int64(n)), GID: c05P(1)},
				c05Op{K: "remove", P: nm + "g"}, c05Op{K: "rmdir", P: "b/" + nm + "r"}, c05Op{K: "removeall", P: "b/c/" + nm}, c05Op{K: "remove", P: "a/" + nm + "h"},
				c05Op{K: "readdir", P: "."}, c05Op{K: "walk", P: "."})
		}
		out = append(out, c05Directed{"cwd/every-place/server-constructed-" + cons, c05Input{Mode: "cwd", Cons: cons, Tree: tree, Ops: ops}})
	}
	return out
}
