package main

import (
	"errors"
	"fmt"
	"io"
	"os"
	"path"
	"path/filepath"
	"sync"
	"syscall"
	"time"

	"github.com/pkg/sftp"

	"verifharness/lib"
	"verifharness/peers"
	"verifharness/wire"
)

// Fourth part of C17: BOUNDARY VALUES of every numeric attribute, in both directions, judged against the file
// system (never against the package's own other end: a conversion that errs the same way on both ends looks
// consistent through the package alone).
//
//   unit    the conversions themselves (hooks): FileStat.ModTime / AccessTime, fileInfoFromStat (what the client
//           reports for a decoded attribute block), fileStatFromInfo (what a server puts on the wire for an
//           os.FileInfo), and the whole loop FileInfo -> attrs -> bytes -> attrs -> FileInfo
//   report  files dated / sized / owned at the boundaries on disk, served by the os-backed server, and handler
//           FileInfos with the same and with claimed values served by a request server: Stat, Lstat, File.Stat and
//           ReadDir of a real client (and raw LSTAT) must report exactly what os.Lstat resp. the FileInfo reports
//   set     Client.Chtimes / Truncate / Chown, File.Truncate / Chown, raw SETSTAT / FSETSTAT with these values:
//           afterwards os.Lstat of the file equals os.Lstat of a control file that received the same change
//           directly through package os (atime and mtime independently, unflagged attributes untouched); a
//           request-server handler must see exactly the flags and values sent (Request.AttrFlags / Attributes,
//           FileStat.ModTime / AccessTime)
//
// Boundaries: times 0, 1, 2^31-1, 2^31, 2^31+1, 2^32-1; sizes 0, 1, 2^31-1, 2^31, 2^32-1, 2^32, 2^32+1, 2^63-1
// (sparse; raw requests also 2^63 and 2^64-1); ids 0, 1, 2^31-1, 2^31, 2^32-2, 2^32-1; plus seeded random values
// between them (thorough: 2^k-1, 2^k, 2^k+1 for every k).

type c17BV struct {
	Sub    string `json:"sub"`              // unit | report | set
	Server string `json:"server,omitempty"` // os | rs
	API    string `json:"api,omitempty"`    // Stat, Lstat, Fstat, ReadDir, raw-LSTAT | Client.Chtimes, … raw-SETSTAT, raw-FSETSTAT
	Kind   string `json:"kind,omitempty"`   // report: file | dir (real entries), iface | stat_t (scripted FileInfos)
	Flags  uint32 `json:"flags,omitempty"`  // set: the attribute flags of the request
	Size   uint64 `json:"size"`
	Atime  int64  `json:"atime"`
	Mtime  int64  `json:"mtime"`
	Nsec   int64  `json:"nsec,omitempty"` // sub-second part of the mtime on disk / in the FileInfo ("to the second")
	UID    uint32 `json:"uid"`
	GID    uint32 `json:"gid"`
}

func (v c17BV) String() string {
	return fmt.Sprintf("%s %s %s %s flags=%d size=%d atime=%d mtime=%d.%09d uid=%d gid=%d", v.Sub, v.Server, v.API, v.Kind, v.Flags, v.Size, v.Atime, v.Mtime, v.Nsec, v.UID, v.GID)
}

func c17BVIn(v c17BV) c17In { return c17In{Part: "bv", BV: &v} }

// ---------- boundary generators ----------

func c17BVTimes(c *lib.Ctx, deep bool) []int64 {
	t := []int64{0, 1, 1<<31 - 1, 1 << 31, 1<<31 + 1, 1<<32 - 1}
	t = append(t, 2+c.Rand.Int63n(1<<31-3), 1<<31+2+c.Rand.Int63n(1<<31-3)) // an ordinary date, a date after 2038-01-19
	if deep {
		for k := uint(1); k < 32; k++ {
			t = append(t, 1<<k-1, 1<<k, 1<<k+1)
		}
		for i := 0; i < 24; i++ {
			t = append(t, c.Rand.Int63n(1<<32))
		}
	}
	return c17BVDedup(t)
}

func c17BVSizes(c *lib.Ctx, deep bool) []uint64 {
	s := []uint64{0, 1, 1<<31 - 1, 1 << 31, 1<<32 - 1, 1 << 32, 1<<32 + 1, 1<<63 - 1}
	s = append(s, 2+uint64(c.Rand.Int63n(1<<31)), 1<<32+2+uint64(c.Rand.Int63n(1<<43)))
	if deep {
		for k := uint(1); k < 63; k++ {
			s = append(s, 1<<k-1, 1<<k, 1<<k+1)
		}
		for i := 0; i < 24; i++ {
			s = append(s, uint64(c.Rand.Int63())>>uint(c.Rand.Intn(40)))
		}
	}
	return c17BVDedup(s)
}

func c17BVIDs(c *lib.Ctx, deep bool) []uint32 {
	s := []uint32{0, 1, 1<<31 - 1, 1 << 31, 1<<32 - 2, 1<<32 - 1}
	s = append(s, 2+uint32(c.Rand.Int63n(65000)), 1<<31+1+uint32(c.Rand.Int63n(1<<31-3)))
	if deep {
		for k := uint(1); k < 32; k++ {
			s = append(s, 1<<k-1, 1<<k, 1<<k+1)
		}
		for i := 0; i < 24; i++ {
			s = append(s, c.Rand.Uint32())
		}
	}
	return c17BVDedup(s)
}

func c17BVDedup[T comparable](in []T) []T {
	seen := map[T]bool{}
	var out []T
	for _, v := range in {
		if !seen[v] {
			seen[v] = true
			out = append(out, v)
		}
	}
	return out
}

func c17BVPick[T any](c *lib.Ctx, s []T) T { return s[c.Rand.Intn(len(s))] }

// c17BVTuples: one tuple per boundary of every attribute, the other attributes drawn from their boundary lists.
func c17BVTuples(c *lib.Ctx, deep bool) []c17BV {
	ts, ss, ids := c17BVTimes(c, deep), c17BVSizes(c, deep), c17BVIDs(c, deep)
	nsecs := []int64{0, 1, 999_999_999, 500_000_000}
	var out []c17BV
	add := func(v c17BV) {
		v.Nsec = nsecs[len(out)%len(nsecs)]
		out = append(out, v)
	}
	for _, t := range ts {
		add(c17BV{Mtime: t, Atime: c17BVPick(c, ts), Size: c17BVPick(c, ss), UID: c17BVPick(c, ids), GID: c17BVPick(c, ids)})
	}
	for _, s := range ss {
		add(c17BV{Size: s, Mtime: c17BVPick(c, ts), Atime: c17BVPick(c, ts), UID: c17BVPick(c, ids), GID: c17BVPick(c, ids)})
	}
	for _, id := range ids {
		add(c17BV{UID: id, GID: c17BVPick(c, ids), Size: c17BVPick(c, ss), Mtime: c17BVPick(c, ts), Atime: c17BVPick(c, ts)})
		add(c17BV{GID: id, UID: c17BVPick(c, ids), Size: c17BVPick(c, ss), Mtime: c17BVPick(c, ts), Atime: c17BVPick(c, ts)})
	}
	return out
}

// ---------- hang budget ----------

// c17BVGuard runs calls of the code under test under the run's hang budget; a class that hung is not called again.
type c17BVGuard struct {
	c    *lib.Ctx
	hung map[string]bool
}

func (g *c17BVGuard) run(v c17BV, f func()) bool {
	class := "c17/bv/" + v.Sub + "/" + v.Server + "/" + v.API
	if g.hung[class] || g.c.Stop(class) {
		return false
	}
	if lib.Within(class, hangDeadline, f) {
		return true
	}
	g.hung[class] = true
	g.c.R.Fail(lib.Failure{Kind: "oracle", Key: "bv/" + v.Sub + "/" + v.Server + "/" + v.API + "/hang", What: v.API + " did not return within the hang deadline", Input: c17BVIn(v)})
	return false
}

// ---------- unit: the conversions through the hooks ----------

func c17BVUnitOne(r *lib.Result, v c17BV) {
	v.Sub = "unit"
	fail := func(key, what string, want, got any) {
		r.Fail(lib.Failure{Kind: "oracle", Key: "bv/unit/" + key, What: what, Input: c17BVIn(v), Expected: want, Actual: got})
	}
	// decode direction: what the client (and a SETSTAT-applying server) makes of the wire fields
	fs := &sftp.FileStat{Size: v.Size, Mode: 0o100644, Mtime: uint32(v.Mtime), Atime: uint32(v.Atime), UID: v.UID, GID: v.GID}
	if got := fs.ModTime(); got.Unix() != v.Mtime || got.Nanosecond() != 0 {
		fail("FileStat.ModTime", "FileStat.ModTime is not the instant the unsigned 32-bit wire seconds denote", time.Unix(v.Mtime, 0).UTC().String(), got.UTC().String())
	}
	if got := fs.AccessTime(); got.Unix() != v.Atime || got.Nanosecond() != 0 {
		fail("FileStat.AccessTime", "FileStat.AccessTime is not the instant the unsigned 32-bit wire seconds denote", time.Unix(v.Atime, 0).UTC().String(), got.UTC().String())
	}
	fi := sftp.VerifFileInfoFromStat(fs, "n")
	if got := fi.ModTime(); got.Unix() != v.Mtime {
		fail("fileInfo.ModTime", "ModTime of the os.FileInfo the client builds from an attribute block is not the wire mtime", v.Mtime, got.Unix())
	}
	if v.Size < 1<<63 && fi.Size() != int64(v.Size) {
		fail("fileInfo.Size", "Size of the os.FileInfo the client builds from an attribute block is not the wire size", v.Size, fi.Size())
	}
	if sys, ok := fi.Sys().(*sftp.FileStat); !ok || sys.UID != v.UID || sys.GID != v.GID || sys.Size != v.Size || sys.Mtime != uint32(v.Mtime) || sys.Atime != uint32(v.Atime) {
		fail("fileInfo.Sys", "Sys() of the os.FileInfo the client builds from an attribute block does not carry the wire values", fmt.Sprint(*fs), fmt.Sprint(fi.Sys()))
	}
	// encode direction: what a server puts on the wire for an os.FileInfo (owner through either source)
	if v.Size >= 1<<63 {
		return
	}
	base := c17FI{name: "n", size: int64(v.Size), mode: 0o644, mtime: time.Unix(v.Mtime, v.Nsec), uid: v.UID, gid: v.GID}
	withSys := base
	withSys.sys = &syscall.Stat_t{Uid: v.UID, Gid: v.GID}
	for _, src := range []struct {
		name string
		fi   os.FileInfo
	}{{"iface", &c17FIU{base}}, {"stat_t", &withSys}, {"iface+ext", &c17FIUE{base}}, {"iface+stat_t", &c17FIU{c17FI{name: "n", size: base.size, mode: 0o644, mtime: base.mtime, uid: v.UID, gid: v.GID, sys: &syscall.Stat_t{Uid: ^v.UID, Gid: ^v.GID}}}}} {
		flags, st := sftp.VerifFileStatFromInfo(src.fi)
		if flags&(wire.ASize|wire.AUIDGID|wire.APerm|wire.ATime) != wire.ASize|wire.AUIDGID|wire.APerm|wire.ATime {
			fail("fileStatFromInfo/flags", "attribute block of an os.FileInfo lacks a flag", 15, flags)
		}
		if st.Mtime != uint32(v.Mtime) {
			fail("fileStatFromInfo/mtime", "wire mtime of an os.FileInfo is not its ModTime in whole seconds", v.Mtime, st.Mtime)
		}
		if st.Size != v.Size {
			fail("fileStatFromInfo/size", "wire size of an os.FileInfo is not its Size", v.Size, st.Size)
		}
		if st.UID != v.UID || st.GID != v.GID {
			fail("fileStatFromInfo/owner/"+src.name, "wire owner of an os.FileInfo is not its owner", fmt.Sprint(v.UID, ":", v.GID), fmt.Sprint(st.UID, ":", st.GID))
		}
		// the whole loop: bytes written by the package, read by the harness's codec and by the package, reported by the client
		blk := sftp.VerifMarshalFileStat(sftp.VerifMarshalUint32(nil, flags), flags, st) // flags word, then the fields it names
		d := wire.D{B: blk}
		w := d.St()
		if d.Err != nil || len(d.B) != 0 || w.Size != v.Size || w.Mtime != uint32(v.Mtime) || w.UID != v.UID || w.GID != v.GID {
			fail("roundtrip/wire", "the marshalled attribute block of an os.FileInfo does not carry its values", v.String(), c17StText(w))
		}
		back, rest, err := sftp.VerifUnmarshalAttrs(blk)
		if err != nil || len(rest) != 0 {
			fail("roundtrip/unmarshal", "the package does not read back its own attribute block", nil, fmt.Sprint(err, len(rest)))
			continue
		}
		bfi := sftp.VerifFileInfoFromStat(back, "n")
		if bfi.ModTime().Unix() != v.Mtime {
			fail("roundtrip/mtime", "FileInfo -> attribute block -> FileInfo does not keep the modification time (to the second)", v.Mtime, bfi.ModTime().Unix())
		}
		if bfi.Size() != int64(v.Size) {
			fail("roundtrip/size", "FileInfo -> attribute block -> FileInfo does not keep the size", v.Size, bfi.Size())
		}
	}
}

func checkC17BVUnit(c *lib.Ctx, only *c17BV) {
	r := c.R
	if only != nil {
		c17BVUnitOne(r, *only)
		r.Case("bv unit "+only.String(), true)
		return
	}
	ts, ss, ids := c17BVTimes(c, true), c17BVSizes(c, true), c17BVIDs(c, true)
	ss = append(ss, 1<<63, 1<<63+1, 1<<64-1)
	n := 3 * len(ss)
	if c.Tier == "thorough" {
		n = 200000
	}
	nsecs := []int64{0, 1, 999_999_999}
	var lines, impl []string
	for i := 0; i < n; i++ {
		v := c17BV{Sub: "unit", Mtime: ts[i%len(ts)], Atime: ts[(i*7+3)%len(ts)], Size: ss[i%len(ss)], UID: ids[i%len(ids)], GID: ids[(i*5+1)%len(ids)], Nsec: nsecs[i%3]}
		if i >= 3*len(ss) { // thorough: random values everywhere
			v.Mtime, v.Atime, v.Size, v.UID, v.GID = c.Rand.Int63n(1<<32), c.Rand.Int63n(1<<32), c.Rand.Uint64()>>uint(c.Rand.Intn(64)), c.Rand.Uint32(), c.Rand.Uint32()
		}
		c17BVUnitOne(r, v)
		r.Case("bv unit "+v.String(), v.Mtime >= 1<<31 || v.Mtime == 0 || v.Size >= 1<<31 || v.UID >= 1<<31)
		r.Hist("bv-unit")
		if i < 4096 {
			fs := &sftp.FileStat{Mtime: uint32(v.Mtime), Atime: uint32(v.Atime)}
			lines = append(lines, fmt.Sprintf("c17.wtime mtime %d", v.Mtime), fmt.Sprintf("c17.wtime atime %d", v.Atime))
			impl = append(impl, fmt.Sprint(fs.ModTime().Unix()), fmt.Sprint(fs.AccessTime().Unix()))
		}
	}
	// model: the conversion chains of FileStat.ModTime / AccessTime as regenerated from attrs.go (driver op c17.wtime)
	if probe, err := c.Model([]string{"c17.wtime mtime 0"}); err == nil && len(probe) == 1 && probe[0] != "bad-op" {
		c.Compare("c17", lines, impl)
	} else {
		r.Skip("driver op c17.wtime is not in this sftpmodel binary: FileStat.ModTime / AccessTime are compared with the unsigned reading of the wire seconds only")
	}
}

// ---------- report: boundary-valued entries through both servers and a real client ----------

type c17BVWant struct {
	size, mtime int64
	uid, gid    uint32
	mode        os.FileMode
}

type c17BVEnt struct {
	v    c17BV
	name string
	path string // what the client asks for
	fi   os.FileInfo
	want c17BVWant
}

func c17BVJudge(r *lib.Result, v c17BV, got os.FileInfo, w c17BVWant) {
	r.Case("bv "+v.String(), true)
	r.Hist("bv-report-" + v.Server + "-" + v.API)
	fail := func(attr string, want, have any) {
		r.Fail(lib.Failure{Kind: "oracle", Key: "bv/report/" + v.Server + "/" + v.API + "/" + attr,
			What:  "the " + attr + " reported for a served file is not what the file system (resp. the handler's os.FileInfo) reports",
			Input: c17BVIn(v), Expected: want, Actual: have})
	}
	if got.Size() != w.size {
		fail("size", w.size, got.Size())
	}
	if w.mtime >= 0 && w.mtime < 1<<32 && got.ModTime().Unix() != w.mtime {
		fail("mtime", time.Unix(w.mtime, 0).UTC().String(), got.ModTime().UTC().String())
	}
	if got.Mode() != w.mode {
		fail("mode", w.mode.String(), got.Mode().String())
	}
	if st, ok := got.Sys().(*sftp.FileStat); !ok || st.UID != w.uid || st.GID != w.gid {
		fail("owner", fmt.Sprint(w.uid, ":", w.gid), fmt.Sprint(got.Sys()))
	}
}

func c17BVWantOf(fi os.FileInfo) c17BVWant {
	w := c17BVWant{size: fi.Size(), mtime: fi.ModTime().Unix(), mode: fi.Mode()}
	if ug, ok := fi.(sftp.FileInfoUidGid); ok {
		w.uid, w.gid = ug.Uid(), ug.Gid()
	} else if st, ok := fi.Sys().(*syscall.Stat_t); ok {
		w.uid, w.gid = st.Uid, st.Gid
	}
	return w
}

// c17BVMakeReal creates one real entry with the tuple's values and returns what os.Lstat says about it afterwards.
func c17BVMakeReal(dir, name string, v c17BV) (os.FileInfo, error) {
	p := filepath.Join(dir, name)
	if v.Kind == "dir" {
		if err := os.Mkdir(p, 0o750); err != nil {
			return nil, err
		}
	} else {
		if err := os.WriteFile(p, nil, 0o640); err != nil {
			return nil, err
		}
		if v.Size >= 1<<63 {
			return nil, errors.New("size is not an int64")
		}
		if err := os.Truncate(p, int64(v.Size)); err != nil { // sparse
			return nil, err
		}
	}
	if err := os.Lchown(p, int(v.UID), int(v.GID)); err != nil {
		return nil, err
	}
	if err := os.Chtimes(p, time.Unix(v.Atime, 0), time.Unix(v.Mtime, v.Nsec)); err != nil {
		return nil, err
	}
	return os.Lstat(p)
}

// c17BVRoots: the scratch roots — the temp directory and, when it is another file system that accepts larger files
// (tmpfs), a directory under /dev/shm.
func c17BVRoots(r *lib.Result) (roots []string, cleanup func()) {
	for _, parent := range []string{"", "/dev/shm"} {
		if parent != "" {
			if fi, err := os.Stat(parent); err != nil || !fi.IsDir() {
				continue
			}
		}
		d, err := lib.MkScratchIn(parent, "vh-c17bv-")
		if err != nil {
			if parent == "" {
				r.Fail(lib.Failure{Kind: "tie", Key: "tmpdir", What: err.Error()})
			}
			continue
		}
		roots = append(roots, d)
	}
	return roots, func() {
		for _, d := range roots {
			os.RemoveAll(d)
		}
	}
}

func checkC17BVReport(c *lib.Ctx, only *c17BV) {
	r := c.R
	roots, cleanup := c17BVRoots(r)
	defer cleanup()
	if len(roots) == 0 {
		return
	}
	g := &c17BVGuard{c: c, hung: map[string]bool{}}
	want := func(server, api string) bool {
		return only == nil || (only.Server == server && only.API == api)
	}
	var tuples []c17BV
	if only != nil {
		tuples = []c17BV{*only}
	} else {
		tuples = c17BVTuples(c, true)
		if c.Tier == "thorough" {
			for i := 0; i < 400; i++ {
				tuples = append(tuples, c17BV{Mtime: c.Rand.Int63n(1 << 32), Atime: c.Rand.Int63n(1 << 32), Nsec: c.Rand.Int63n(1_000_000_000),
					Size: uint64(c.Rand.Int63()) >> uint(c.Rand.Intn(63)), UID: c.Rand.Uint32(), GID: c.Rand.Uint32()})
			}
		}
	}
	// real entries (first root that can hold the value) and scripted FileInfos
	dirs := make([]string, len(roots))
	for i, root := range roots {
		dirs[i] = filepath.Join(root, "served")
		os.Mkdir(dirs[i], 0o755)
	}
	var real, scripted []*c17BVEnt
	stored := map[string]int{}
	for i, v := range tuples {
		v.Sub = "report"
		if only == nil || only.Server == "os" || only.Kind == "file" || only.Kind == "dir" {
			rv := v
			if only == nil {
				rv.Kind = "file"
				if i%4 == 3 {
					rv.Kind = "dir"
				}
			}
			if rv.Kind != "dir" {
				rv.Kind = "file"
			}
			name := fmt.Sprintf("%s%03d", rv.Kind[:1], i)
			var fi os.FileInfo
			var err error
			dir := ""
			for _, d := range dirs {
				if fi, err = c17BVMakeReal(d, name, rv); err == nil {
					dir = d
					break
				}
				os.RemoveAll(filepath.Join(d, name))
			}
			if err != nil {
				r.Skip("a %s with size=%d uid=%d gid=%d mtime=%d cannot be created on this host: %v", rv.Kind, rv.Size, rv.UID, rv.GID, rv.Mtime, err)
			} else {
				w := c17BVWantOf(fi)
				if w.mtime != rv.Mtime {
					stored["mtime-not-kept"]++
				}
				if rv.Kind == "file" && w.size != int64(rv.Size) {
					stored["size-not-kept"]++
				}
				real = append(real, &c17BVEnt{v: rv, name: name, path: filepath.Join(dir, name), fi: fi, want: w})
			}
		}
		if v.Size < 1<<63 && (only == nil || only.Kind == "iface" || only.Kind == "stat_t") {
			sv := v
			base := c17FI{name: fmt.Sprintf("s%03d", i), size: int64(v.Size), mode: 0o640, mtime: time.Unix(v.Mtime, v.Nsec), uid: v.UID, gid: v.GID}
			if only == nil {
				sv.Kind = []string{"iface", "stat_t"}[i%2]
			}
			var fi os.FileInfo = &c17FIU{base}
			if sv.Kind == "stat_t" {
				base.sys = &syscall.Stat_t{Uid: v.UID, Gid: v.GID, Nlink: 1}
				b := base
				fi = &b
			}
			scripted = append(scripted, &c17BVEnt{v: sv, name: base.name, path: "/" + base.name, fi: fi, want: c17BVWantOf(fi)})
		}
	}
	for k, n := range stored {
		r.Note("bv report: %s for %d entries on this host (they are compared with what os.Lstat reports)", k, n)
	}
	byPath := func(ents []*c17BVEnt) map[string]*c17BVEnt {
		m := map[string]*c17BVEnt{}
		for _, e := range ents {
			m[e.name] = e
		}
		return m
	}
	// one real client against one server; the per-entry calls, then one ReadDir per directory
	through := func(server string, cl *sftp.Client, ents []*c17BVEnt, listDirs []string) {
		for _, e := range ents {
			v := e.v
			v.Server = server
			var got os.FileInfo
			var err error
			call := func(api string, f func()) {
				v.API = api
				if !want(server, api) || !g.run(v, f) {
					return
				}
				if err != nil {
					r.Fail(lib.Failure{Kind: "oracle", Key: "bv/report/" + server + "/" + api + "/failed", What: api + " of a served entry failed: " + err.Error(), Input: c17BVIn(v)})
					return
				}
				c17BVJudge(r, v, got, e.want)
			}
			call("Lstat", func() { got, err = cl.Lstat(e.path) })
			call("Stat", func() { got, err = cl.Stat(e.path) })
			if v.Kind != "dir" {
				call("Fstat", func() {
					var f *sftp.File
					if f, err = cl.Open(e.path); err == nil {
						got, err = f.Stat()
						f.Close()
					}
				})
			}
		}
		if !want(server, "ReadDir") {
			return
		}
		idx := byPath(ents)
		for _, d := range listDirs {
			var fis []os.FileInfo
			var err error
			v := c17BV{Sub: "report", Server: server, API: "ReadDir"}
			if !g.run(v, func() { fis, err = cl.ReadDir(d) }) {
				continue
			}
			if err != nil {
				r.Fail(lib.Failure{Kind: "oracle", Key: "bv/report/" + server + "/ReadDir/failed", What: "ReadDir of the served directory failed: " + err.Error()})
				continue
			}
			for _, fi := range fis {
				if e := idx[fi.Name()]; e != nil {
					v := e.v
					v.Server, v.API = server, "ReadDir"
					c17BVJudge(r, v, fi, e.want)
				}
			}
		}
	}
	if only == nil || only.Server == "os" {
		if only == nil || only.API != "raw-LSTAT" {
			if pair, err := vhStartOS(nil); err != nil {
				r.Fail(lib.Failure{Kind: "tie", Key: "os-start", What: err.Error()})
			} else {
				through("os", pair.Client, real, dirs)
				pair.Close()
			}
		}
		// the server half alone: raw LSTAT
		if want("os", "raw-LSTAT") {
			if srv, err := peers.StartOS(); err == nil {
				hHandshake(srv, nil)
				id := uint32(40)
				for _, e := range real {
					if c.Stop(c17ReqClass(wire.Lstat)) {
						continue
					}
					id++
					v := e.v
					v.Server, v.API = "os", "raw-LSTAT"
					st, err := c17Attrs(srv, wire.Lstat, id, e.path)
					r.Case("bv "+v.String(), true)
					r.Hist("bv-report-os-raw-LSTAT")
					if err != nil {
						r.Fail(lib.Failure{Kind: "oracle", Key: "bv/report/os/raw-LSTAT/failed", What: "LSTAT of a real entry failed: " + err.Error(), Input: c17BVIn(v)})
						continue
					}
					w := wire.St{Flags: wire.ASize | wire.AUIDGID | wire.APerm | wire.ATime, Size: uint64(e.want.size), UID: e.want.uid, GID: e.want.gid, Perm: st.Perm, Atime: uint32(e.want.mtime), Mtime: uint32(e.want.mtime)}
					if e.want.mtime < 0 || e.want.mtime >= 1<<32 {
						w.Atime, w.Mtime = st.Atime, st.Mtime
					}
					for _, b := range c17StDiff(st, w) {
						r.Fail(lib.Failure{Kind: "oracle", Key: "bv/report/os/raw-LSTAT/" + b, What: "LSTAT attributes of a real entry differ from what the file system reports (" + b + ")",
							Input: c17BVIn(v), Expected: c17StText(w), Actual: c17StText(st)})
					}
				}
				srv.CloseInput()
				hCleanupSrv(srv, "c17/server-exit", 5*time.Second)
			}
		}
	}
	if only == nil || only.Server == "rs" {
		// a handler that keeps its files on disk hands out the real os.FileInfos; another one claims values
		var ents []os.FileInfo
		var all []*c17BVEnt
		for _, e := range real {
			ee := *e
			ee.path = "/" + e.name
			ents = append(ents, e.fi)
			all = append(all, &ee)
		}
		for _, e := range scripted {
			ents = append(ents, e.fi)
			all = append(all, e)
		}
		if len(ents) > 0 {
			h := newC17H(ents)
			if pair, err := vhStartRS(sftp.Handlers{FileGet: h, FileList: h}, nil); err != nil {
				r.Fail(lib.Failure{Kind: "tie", Key: "rs-start", What: err.Error()})
			} else {
				through("rs", pair.Client, all, []string{"/"})
				pair.Close()
			}
		}
	}
}

// ---------- set: boundary values through SETSTAT / FSETSTAT ----------

const (
	c17BVOldAtime = 1_100_000_000
	c17BVOldMtime = 1_100_000_123
	c17BVOldUID   = 12
	c17BVOldGID   = 34
)

type c17BVStat struct {
	Size         int64
	Mode         uint32
	UID, GID     uint32
	Atime, Mtime int64
}

func c17BVLstat(p string) (c17BVStat, error) {
	var st syscall.Stat_t
	if err := syscall.Lstat(p, &st); err != nil {
		return c17BVStat{}, err
	}
	return c17BVStat{Size: st.Size, Mode: st.Mode, UID: st.Uid, GID: st.Gid, Atime: st.Atim.Sec, Mtime: st.Mtim.Sec}, nil
}

func c17BVFresh(p string) error {
	if err := os.WriteFile(p, []byte("0123456789"), 0o644); err != nil {
		return err
	}
	if err := os.Lchown(p, c17BVOldUID, c17BVOldGID); err != nil {
		return err
	}
	return os.Chtimes(p, time.Unix(c17BVOldAtime, 0), time.Unix(c17BVOldMtime, 0))
}

// c17BVApplyOS changes the control file directly through package os: the flagged attributes, to the values of v.
func c17BVApplyOS(p string, v c17BV) error {
	if v.Flags&wire.ASize != 0 {
		if err := os.Truncate(p, int64(v.Size)); err != nil {
			return err
		}
	}
	if v.Flags&wire.APerm != 0 {
		if err := os.Chmod(p, 0o600); err != nil {
			return err
		}
	}
	if v.Flags&wire.AUIDGID != 0 {
		if err := os.Chown(p, int(v.UID), int(v.GID)); err != nil {
			return err
		}
	}
	if v.Flags&wire.ATime != 0 {
		return os.Chtimes(p, time.Unix(v.Atime, 0), time.Unix(v.Mtime, 0))
	}
	return nil
}

func c17BVStatusErr(p wire.Pkt, err error) error {
	if err != nil {
		return err
	}
	if p.Typ != wire.Status {
		return fmt.Errorf("answered with type %d", p.Typ)
	}
	d := wire.D{B: p.Body[4:]}
	if code := d.U32(); code != 0 {
		return fmt.Errorf("status %d %q", code, d.Str())
	}
	return nil
}

type c17BVSetEnv struct {
	c     *lib.Ctx
	g     *c17BVGuard
	roots []string
	n     int
	cl    *sftp.Client
	raw   *peers.Srv
	id    uint32
}

// apply sends the change of v to path through v.API; ran is false when the call was not made (hang budget).
func (e *c17BVSetEnv) apply(v c17BV, p string) (err error, ran bool) {
	withFile := func(f func(*sftp.File) error) func() {
		return func() {
			var fh *sftp.File
			if fh, err = e.cl.OpenFile(p, os.O_RDWR); err == nil {
				err = f(fh)
				fh.Close()
			}
		}
	}
	attrs := wire.St{Flags: v.Flags, Size: v.Size, UID: v.UID, GID: v.GID, Perm: 0o100600, Atime: uint32(v.Atime), Mtime: uint32(v.Mtime)}
	class := lib.NewCase("c17/bv/set/" + v.Server + "/" + v.API)
	next := func() uint32 { e.id++; return e.id }
	switch v.API {
	case "Client.Chtimes":
		ran = e.g.run(v, func() { err = e.cl.Chtimes(p, time.Unix(v.Atime, 0), time.Unix(v.Mtime, 0)) })
	case "Client.Truncate":
		ran = e.g.run(v, func() { err = e.cl.Truncate(p, int64(v.Size)) })
	case "Client.Chown":
		ran = e.g.run(v, func() { err = e.cl.Chown(p, int(v.UID), int(v.GID)) })
	case "File.Truncate":
		ran = e.g.run(v, withFile(func(f *sftp.File) error { return f.Truncate(int64(v.Size)) }))
	case "File.Chown":
		ran = e.g.run(v, withFile(func(f *sftp.File) error { return f.Chown(int(v.UID), int(v.GID)) }))
	case "raw-SETSTAT":
		if e.c.Stop(class.Class()) {
			return nil, false
		}
		err = c17BVStatusErr(hCall(e.raw, class, wire.Req(wire.Setstat, next(), wire.B{}.Str(p).Raw(attrs.Block()))))
		ran = class.Hung() == 0
	case "raw-FSETSTAT":
		if e.c.Stop(class.Class()) {
			return nil, false
		}
		op, oerr := hCall(e.raw, class, wire.Req(wire.Open, next(), wire.B{}.Str(p).U32(wire.FRead|wire.FWrite).U32(0)))
		if oerr != nil || op.Typ != wire.Handle {
			return fmt.Errorf("OPEN for FSETSTAT failed: %v type %d", oerr, op.Typ), class.Hung() == 0
		}
		hd := wire.D{B: op.Body[4:]}
		h := hd.Str()
		err = c17BVStatusErr(hCall(e.raw, class, wire.Req(wire.Fsetstat, next(), wire.B{}.Str(h).Raw(attrs.Block()))))
		hCall(e.raw, class, wire.Req(wire.Close, next(), wire.B{}.Str(h)))
		ran = class.Hung() == 0
	default:
		return fmt.Errorf("unknown api %q", v.API), false
	}
	if !ran && (v.API == "raw-SETSTAT" || v.API == "raw-FSETSTAT") {
		e.c.R.Fail(lib.Failure{Kind: "oracle", Key: "bv/set/" + v.Server + "/" + v.API + "/hang", What: v.API + " was not answered within the hang deadline", Input: c17BVIn(v)})
	}
	return err, ran
}

func c17BVSetAPIs(flags uint32) []string {
	switch flags {
	case wire.ATime:
		return []string{"Client.Chtimes", "raw-SETSTAT", "raw-FSETSTAT"}
	case wire.ASize:
		return []string{"Client.Truncate", "File.Truncate", "raw-SETSTAT", "raw-FSETSTAT"}
	case wire.AUIDGID:
		return []string{"Client.Chown", "File.Chown", "raw-SETSTAT", "raw-FSETSTAT"}
	}
	return []string{"raw-SETSTAT", "raw-FSETSTAT"}
}

func c17BVClientAPI(api string) bool { return api != "raw-SETSTAT" && api != "raw-FSETSTAT" }

// osCase: one set-attributes request against the os-backed server, judged against a control file.
func (e *c17BVSetEnv) osCase(v c17BV) {
	r := e.c.R
	v.Sub, v.Server = "set", "os"
	if c17BVClientAPI(v.API) && v.Size >= 1<<63 {
		return
	}
	for ri, root := range e.roots {
		e.n++
		sut, ctl := filepath.Join(root, fmt.Sprintf("sut%05d", e.n)), filepath.Join(root, fmt.Sprintf("ctl%05d", e.n))
		if err := errors.Join(c17BVFresh(sut), c17BVFresh(ctl)); err != nil {
			r.Skip("bv set: scratch files cannot be prepared on this host: %v", err)
			return
		}
		before, _ := c17BVLstat(sut)
		ctlErr := c17BVApplyOS(ctl, v)
		if ctlErr != nil && ri+1 < len(e.roots) && (errors.Is(ctlErr, syscall.EFBIG) || errors.Is(ctlErr, syscall.ENOSPC)) {
			os.Remove(sut)
			os.Remove(ctl)
			continue // this file system cannot hold the size: try the next scratch root
		}
		err, ran := e.apply(v, sut)
		if !ran {
			os.Remove(sut)
			os.Remove(ctl)
			return
		}
		after, _ := c17BVLstat(sut)
		want, _ := c17BVLstat(ctl)
		os.Remove(sut)
		os.Remove(ctl)
		r.Case("bv "+v.String(), v.Flags != 0)
		r.Hist("bv-set-os-" + v.API)
		fail := func(attr, what string, w, a any) {
			r.Fail(lib.Failure{Kind: "oracle", Key: "bv/set/os/" + v.API + "/" + attr, What: what, Input: c17BVIn(v), Expected: w, Actual: a})
		}
		if (err == nil) != (ctlErr == nil) {
			fail("status", "a set-attributes request and the same change made directly through package os do not both succeed / both fail", fmt.Sprint(ctlErr), fmt.Sprint(err))
		}
		// flagged attributes: what the file system shows after the same change through package os (= the values sent)
		// unflagged attributes: untouched (a truncation legitimately moves the mtime when no times are sent)
		exp := before
		if v.Flags&wire.ASize != 0 {
			exp.Size = want.Size
		}
		if v.Flags&wire.APerm != 0 {
			exp.Mode = want.Mode
		}
		if v.Flags&wire.AUIDGID != 0 {
			exp.UID, exp.GID = want.UID, want.GID
		}
		if v.Flags&wire.ATime != 0 {
			exp.Atime, exp.Mtime = want.Atime, want.Mtime
		} else if v.Flags&wire.ASize != 0 {
			exp.Mtime = after.Mtime
		}
		const msg = "after a set-attributes request the file does not show exactly the flagged attributes changed, to the values sent (control: the same change through package os)"
		if after.Size != exp.Size {
			fail("size", msg, exp.Size, after.Size)
		}
		if after.Mode != exp.Mode {
			fail("mode", msg, fmt.Sprintf("%#o", exp.Mode), fmt.Sprintf("%#o", after.Mode))
		}
		if after.UID != exp.UID || after.GID != exp.GID {
			fail("owner", msg, fmt.Sprint(exp.UID, ":", exp.GID), fmt.Sprint(after.UID, ":", after.GID))
		}
		if after.Atime != exp.Atime {
			fail("atime", msg, time.Unix(exp.Atime, 0).UTC().String(), time.Unix(after.Atime, 0).UTC().String())
		}
		if after.Mtime != exp.Mtime {
			fail("mtime", msg, time.Unix(exp.Mtime, 0).UTC().String(), time.Unix(after.Mtime, 0).UTC().String())
		}
		return
	}
}

// c17BVSetH records what a request-server handler is shown for a set-attributes request.
type c17BVSetRec struct {
	Path         string
	Flags        sftp.FileAttrFlags
	St           sftp.FileStat
	Mtime, Atime int64
}

type c17BVSetH struct {
	mu   sync.Mutex
	recs []c17BVSetRec
}

type c17BVNullW struct{}

func (c17BVNullW) WriteAt(b []byte, off int64) (int, error) { return len(b), nil }

func (h *c17BVSetH) Filecmd(r *sftp.Request) error {
	if r.Method != "Setstat" {
		return sftp.ErrSSHFxOpUnsupported
	}
	a := r.Attributes()
	h.mu.Lock()
	h.recs = append(h.recs, c17BVSetRec{Path: r.Filepath, Flags: r.AttrFlags(), St: *a, Mtime: a.ModTime().Unix(), Atime: a.AccessTime().Unix()})
	h.mu.Unlock()
	return nil
}
func (h *c17BVSetH) Filewrite(r *sftp.Request) (io.WriterAt, error) { return c17BVNullW{}, nil }
func (h *c17BVSetH) take() []c17BVSetRec {
	h.mu.Lock()
	defer h.mu.Unlock()
	out := h.recs
	h.recs = nil
	return out
}

// rsCase: one set-attributes request against a request server; the handler must be shown exactly what was sent.
func (e *c17BVSetEnv) rsCase(h *c17BVSetH, v c17BV) {
	r := e.c.R
	v.Sub, v.Server = "set", "rs"
	if c17BVClientAPI(v.API) && v.Size >= 1<<63 {
		return
	}
	e.n++
	p := path.Join("/", fmt.Sprintf("f%05d", e.n))
	h.take()
	err, ran := e.apply(v, p)
	if !ran {
		return
	}
	recs := h.take()
	r.Case("bv "+v.String(), v.Flags != 0)
	r.Hist("bv-set-rs-" + v.API)
	fail := func(attr, what string, w, a any) {
		r.Fail(lib.Failure{Kind: "oracle", Key: "bv/set/rs/" + v.API + "/" + attr, What: what, Input: c17BVIn(v), Expected: w, Actual: a})
	}
	if err != nil || len(recs) != 1 || recs[0].Path != p {
		fail("status", "a set-attributes request was not handed to the handler exactly once, or failed", "one Setstat of "+p, fmt.Sprint(err, " ", len(recs), " requests"))
		return
	}
	rec := recs[0]
	wantF := sftp.FileAttrFlags{Size: v.Flags&wire.ASize != 0, UidGid: v.Flags&wire.AUIDGID != 0, Permissions: v.Flags&wire.APerm != 0, Acmodtime: v.Flags&wire.ATime != 0}
	if rec.Flags != wantF {
		fail("flags", "the handler is not shown exactly the flags the request carries", fmt.Sprint(wantF), fmt.Sprint(rec.Flags))
	}
	const msg = "the handler of a set-attributes request is not shown the value sent"
	if wantF.Size && rec.St.Size != v.Size {
		fail("size", msg, v.Size, rec.St.Size)
	}
	if wantF.UidGid && (rec.St.UID != v.UID || rec.St.GID != v.GID) {
		fail("owner", msg, fmt.Sprint(v.UID, ":", v.GID), fmt.Sprint(rec.St.UID, ":", rec.St.GID))
	}
	if wantF.Acmodtime && rec.Atime != v.Atime {
		fail("atime", msg+" (Request.Attributes().AccessTime())", time.Unix(v.Atime, 0).UTC().String(), time.Unix(rec.Atime, 0).UTC().String())
	}
	if wantF.Acmodtime && rec.Mtime != v.Mtime {
		fail("mtime", msg+" (Request.Attributes().ModTime())", time.Unix(v.Mtime, 0).UTC().String(), time.Unix(rec.Mtime, 0).UTC().String())
	}
}

// c17BVSetCases: every pair of time boundaries (atime and mtime independently), every size, every pair of ids, and
// requests carrying several flags at once, through every API that can carry them.
func c17BVSetCases(c *lib.Ctx) []c17BV {
	deep := c.Tier == "thorough"
	ts, ss, ids := c17BVTimes(c, false), c17BVSizes(c, false), c17BVIDs(c, false)
	var tuples []c17BV
	for _, a := range ts {
		for _, m := range ts {
			tuples = append(tuples, c17BV{Flags: wire.ATime, Atime: a, Mtime: m})
		}
	}
	for _, s := range append(ss, 1<<63, 1<<64-1) {
		tuples = append(tuples, c17BV{Flags: wire.ASize, Size: s})
	}
	for _, u := range ids {
		for _, g := range ids {
			tuples = append(tuples, c17BV{Flags: wire.AUIDGID, UID: u, GID: g})
		}
	}
	{
		dt, ds, di := c17BVTimes(c, true), c17BVSizes(c, true), c17BVIDs(c, true)
		for i, t := range dt {
			tuples = append(tuples, c17BV{Flags: wire.ATime, Atime: t, Mtime: dt[(i*7+5)%len(dt)]}, c17BV{Flags: wire.ATime, Mtime: t, Atime: dt[(i*11+3)%len(dt)]})
		}
		for _, s := range ds {
			tuples = append(tuples, c17BV{Flags: wire.ASize, Size: s})
		}
		for i, id := range di {
			tuples = append(tuples, c17BV{Flags: wire.AUIDGID, UID: id, GID: di[(i*7+5)%len(di)]}, c17BV{Flags: wire.AUIDGID, GID: id, UID: di[(i*11+3)%len(di)]})
		}
	}
	n := 48
	if deep {
		n = 2000
		for i := 0; i < 600; i++ {
			tuples = append(tuples, c17BV{Flags: wire.ATime, Atime: c.Rand.Int63n(1 << 32), Mtime: c.Rand.Int63n(1 << 32)},
				c17BV{Flags: wire.AUIDGID, UID: c.Rand.Uint32(), GID: c.Rand.Uint32()},
				c17BV{Flags: wire.ASize, Size: c.Rand.Uint64() >> uint(1+c.Rand.Intn(63))})
		}
	}
	for i := 0; i < n; i++ {
		flags := uint32(i%16) | []uint32{wire.ATime, wire.ASize, wire.AUIDGID}[i%3]
		if i < 16 {
			flags = uint32(i) // every flag subset once, the empty one included
		}
		s := c17BVPick(c, ss)
		for s > 1<<44 { // several flags at once: only sizes every scratch file system holds
			s = c17BVPick(c, ss)
		}
		tuples = append(tuples, c17BV{Flags: flags, Size: s, Atime: c17BVPick(c, ts), Mtime: c17BVPick(c, ts), UID: c17BVPick(c, ids), GID: c17BVPick(c, ids)})
	}
	var out []c17BV
	for _, t := range tuples {
		for _, api := range c17BVSetAPIs(t.Flags) {
			t.API = api
			out = append(out, t)
		}
	}
	return out
}

func checkC17BVSet(c *lib.Ctx, only *c17BV) {
	r := c.R
	roots, cleanup := c17BVRoots(r)
	defer cleanup()
	if len(roots) == 0 {
		return
	}
	var cases []c17BV
	if only != nil {
		cases = []c17BV{*only}
	} else {
		cases = c17BVSetCases(c)
	}
	g := &c17BVGuard{c: c, hung: map[string]bool{}}
	if only == nil || only.Server == "os" {
		pair, err := vhStartOS(nil)
		raw, err2 := peers.StartOS()
		if err != nil || err2 != nil {
			r.Fail(lib.Failure{Kind: "tie", Key: "os-start", What: fmt.Sprint(err, err2)})
		} else {
			hHandshake(raw, nil)
			e := &c17BVSetEnv{c: c, g: g, roots: roots, cl: pair.Client, raw: raw, id: 100}
			for _, v := range cases {
				e.osCase(v)
			}
			pair.Close()
			raw.CloseInput()
			hCleanupSrv(raw, "c17/server-exit", 5*time.Second)
		}
	}
	if only == nil || only.Server == "rs" {
		h := &c17BVSetH{}
		hs := sftp.Handlers{FileGet: newC17H(nil), FilePut: h, FileCmd: h, FileList: newC17H(nil)}
		pair, err := vhStartRS(hs, nil)
		if err != nil {
			r.Fail(lib.Failure{Kind: "tie", Key: "rs-start", What: err.Error()})
			return
		}
		raw := peers.StartRS(hs)
		hHandshake(raw, nil)
		e := &c17BVSetEnv{c: c, g: g, roots: roots, cl: pair.Client, raw: raw, id: 100}
		for _, v := range cases {
			e.rsCase(h, v)
		}
		pair.Close()
		raw.CloseInput()
		hCleanupSrv(raw, "c17/server-exit", 5*time.Second)
	}
}

// ---------- entry points ----------

func checkC17Boundaries(c *lib.Ctx) {
	checkC17BVUnit(c, nil)
	checkC17BVReport(c, nil)
	checkC17BVSet(c, nil)
	c.R.Rule += "; boundary values: times {0, 1, 2^31-1, 2^31, 2^31+1, 2^32-1, random before and after 2038}, sizes {0, 1, 2^31-1, 2^31, 2^32-1, 2^32, 2^32+1, 2^63-1 (sparse), random; raw requests also 2^63, 2^64-1}, ids {0, 1, 2^31-1, 2^31, 2^32-2, 2^32-1, random} — through the conversion hooks (FileStat.ModTime/AccessTime, fileInfoFromStat, fileStatFromInfo and the loop through the bytes), reported by Stat/Lstat/File.Stat/ReadDir of a real client and raw LSTAT for real entries behind the os-backed server and for real and scripted FileInfos behind a request server (oracle: os.Lstat resp. the FileInfo), and set by Client.Chtimes/Truncate/Chown, File.Truncate/Chown and raw SETSTAT/FSETSTAT (all pairs of time boundaries, all sizes, all pairs of ids, every flag subset) against the os-backed server (oracle: os.Lstat equals a control file changed through package os; unflagged attributes untouched) and a recording request-server handler (oracle: flags and values shown = sent)"
}

func c17BVReplay(c *lib.Ctx, v *c17BV) bool {
	if v == nil {
		return false
	}
	switch v.Sub {
	case "unit":
		checkC17BVUnit(c, v)
	case "report":
		checkC17BVReport(c, v)
	case "set":
		checkC17BVSet(c, v)
	default:
		return false
	}
	return true
}
