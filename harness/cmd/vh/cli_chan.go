package main

// Comparison of the schedules forced by the C03 harness with the Lean model of result channels as resources
// (lean/Sftp/Model/ClientChan.lean through the driver op `chan.run <cfgbits> <ncallers> <token>*`): what
// conn.run cannot express — a channel that outlives a call (pooled by the transfers' workers, re-used by the
// sequential loops) and a request abandoned by its caller (ctx cancelled) whose reply arrives late.
//
// What the harness observes: the order in which requests ARRIVED at the peer, the order in which the peer SENT
// replies (with a 4-byte hash of the reply frame as payload tag), which request was abandoned, that every call
// returned the result built for its own request, and — from the operation each caller ran — how the request's
// result channel is obtained in the code:
//   y  sync     sendPacket with no channel: `make(chan result, 1)`, forgotten when the call returns
//   v  victim   the same, but the caller's ctx is cancelled while the request is outstanding
//   p  pooled   a work item of File.readAt / WriteTo / writeAtConcurrent / readFromWithConcurrency:
//               `pool.Get()` before the dispatch, `pool.Put()` after the receive
//   s<n>        the n-th sequential loop with ONE reusable channel (writeToSequential, writeAt's loop,
//               ReadFrom's loop): the next request is dispatched after the previous reply was consumed
// Channel identities are not observable. The schedule handed to the model takes, among the acquisitions the
// CONFIGURATION allows, the one that shares most: a pooled work item takes the lowest pooled channel (a fresh
// one if the pool is empty); a sync call makes a fresh channel when the configuration says so (today), takes a
// pooled one when the configuration lets sync calls put channels into a pool (poolPutOnlyAfterRecv or
// abandonedNotReturned off: Get / deferred Put), takes an unheld existing one when freshPerSyncCall is off.
// One model caller per request (per loop for s<n>). Caller steps are placed as early as the observations
// allow: acquire+dispatch at the arrival, receive (+ Put / drop) right after the reply, abandon right after
// the arrival of the held request, re-use right before the loop's next dispatch.
// Compared: the model accepts the schedule (`ok`), foreign=0 (no call received another request's reply),
// dead=0, every answered request's caller received exactly `<sid>:<sid>:<tag>` of its own reply, an abandoned
// request's caller received nothing and is listed in gaveup=.

import (
	"fmt"
	"os"
	"sort"
	"strconv"
	"strings"

	"verifharness/lib"
)

// chanClassifier attributes the requests on the wire to the channel discipline of the operation that issued
// them, by content: seq chains are ordered lists of canonical request texts, pooled requests a multiset,
// tails the speculative reads of concurrent WriteTo calls; everything else is a sync call. Two requests of
// equal content are interchangeable; a request is attributed to a sequential loop only while the loop has no
// request outstanding (otherwise it is taken for a sync call of equal content), so that the attribution is
// always one the code could have produced.
type chanClassifier struct {
	seq     [][]string
	pool    map[string]int
	tails   []c03OptTail
	victims map[uint32]bool
	Counts  map[string]int

	cursor []int
	busy   []bool
	loopOf map[uint32]int
}

func (k *chanClassifier) arrive(id uint32, canon string) string {
	if k.Counts == nil {
		k.Counts = map[string]int{}
		k.loopOf = map[uint32]int{}
		k.cursor = make([]int, len(k.seq))
		k.busy = make([]bool, len(k.seq))
	}
	if k.victims[id] {
		k.Counts["victim"]++
		return "v"
	}
	for i, ch := range k.seq {
		if !k.busy[i] && k.cursor[i] < len(ch) && ch[k.cursor[i]] == canon {
			k.cursor[i]++
			k.busy[i] = true
			k.loopOf[id] = i
			k.Counts["sequential-reuse"]++
			last := ""
			if k.cursor[i] == len(ch) {
				last = "!" // the loop's last request: the channel is forgotten after its receive
			}
			return fmt.Sprintf("s%d%s", i, last)
		}
	}
	if k.pool[canon] > 0 {
		k.pool[canon]--
		k.Counts["pooled"]++
		return "p"
	}
	for _, t := range k.tails {
		if t.matches(canon) {
			k.Counts["pooled"]++
			return "p"
		}
	}
	k.Counts["sync"]++
	return "y"
}

func (k *chanClassifier) replied(id uint32) {
	if i, ok := k.loopOf[id]; ok {
		k.busy[i] = false
	}
}

// chanObsTokens renders a window of peer events for the parent: `a<sid>/<class>` and `r<sid>:<tag>`,
// class = y | v | p | s<n> | s<n>! (the loop's last request).
func chanObsTokens(evs []connEv, base uint32, canon map[uint32]string, k *chanClassifier) []string {
	var out []string
	for _, e := range evs {
		sid := e.ID - base
		switch e.K {
		case "a":
			out = append(out, fmt.Sprintf("a%d/%s", sid, k.arrive(e.ID, canon[e.ID])))
		case "r":
			k.replied(e.ID)
			out = append(out, fmt.Sprintf("r%d:%s", sid, e.T))
		}
	}
	return out
}

// chanLine is a schedule ready for the driver plus the expectations.
type chanLine struct {
	Rest     string         // "<ncallers> <token>*"
	Recv     map[int]string // caller -> the one receive expected ("<sid>:<sid>:<tag>")
	GaveUp   map[int]string // caller -> sid of its abandoned request
	NReq     int
	Policies map[string]int // acquisitions / releases chosen, for the histogram
}

// chanBuild turns observation tokens into a chan.run schedule under a configuration.
func chanBuild(obs []string, cfg string) chanLine {
	bit := func(i int) bool { return i < len(cfg) && cfg[i] == '1' }
	fresh, putAfterRecv, abandonedNotReturned := bit(0), bit(1), bit(2)
	syncUsesPool := !(putAfterRecv && abandonedNotReturned)
	l := chanLine{Recv: map[int]string{}, GaveUp: map[int]string{}, Policies: map[string]int{}}
	var toks []string
	ncallers, nchan := 0, 0
	var pool, unheld []int // the harness's picture of the model's pool / of the unheld, unpooled channels
	chanOf := map[int]int{}
	callerOf := map[string]int{} // sid -> caller
	classOf := map[string]string{}
	seqCaller := map[string]int{}
	takeLowest := func(s *[]int) int {
		sort.Ints(*s)
		ch := (*s)[0]
		*s = (*s)[1:]
		return ch
	}
	makeFresh := func(c int) {
		toks = append(toks, fmt.Sprintf("f%d", c))
		chanOf[c] = nchan
		nchan++
		l.Policies["acquire/fresh"]++
	}
	for _, o := range obs {
		switch o[0] {
		case 'a':
			i := strings.IndexByte(o, '/')
			sid, class := o[1:i], o[i+1:]
			l.NReq++
			last := strings.HasSuffix(class, "!")
			class = strings.TrimSuffix(class, "!")
			var c int
			switch {
			case class[0] == 's':
				if prev, ok := seqCaller[class]; ok {
					c = prev
					toks = append(toks, fmt.Sprintf("u%d", c))
					l.Policies["acquire/reuse-own"]++
				} else {
					c = ncallers
					ncallers++
					seqCaller[class] = c
					makeFresh(c)
				}
				if last {
					classOf[sid] = "s-last"
				} else {
					classOf[sid] = "s"
				}
			case class == "p":
				c = ncallers
				ncallers++
				if len(pool) > 0 {
					ch := takeLowest(&pool)
					toks = append(toks, fmt.Sprintf("g%d:%d", c, ch))
					chanOf[c] = ch
					l.Policies["acquire/pooled"]++
				} else {
					makeFresh(c)
				}
				classOf[sid] = "p"
			default: // y, v
				c = ncallers
				ncallers++
				switch {
				case syncUsesPool && len(pool) > 0:
					ch := takeLowest(&pool)
					toks = append(toks, fmt.Sprintf("g%d:%d", c, ch))
					chanOf[c] = ch
					l.Policies["acquire/sync-call-takes-pooled"]++
				case !fresh && len(unheld) > 0:
					ch := takeLowest(&unheld)
					toks = append(toks, fmt.Sprintf("x%d:%d", c, ch))
					chanOf[c] = ch
					l.Policies["acquire/sync-call-takes-existing"]++
				default:
					makeFresh(c)
				}
				classOf[sid] = class
			}
			callerOf[sid] = c
			toks = append(toks, fmt.Sprintf("d%d:%s", c, sid))
			if class == "v" {
				toks = append(toks, fmt.Sprintf("a%d", c))
				l.GaveUp[c] = sid
				if abandonedNotReturned {
					unheld = append(unheld, chanOf[c])
				} else {
					pool = append(pool, chanOf[c])
				}
				l.Policies["abandon"]++
			}
		case 'r':
			i := strings.IndexByte(o, ':')
			sid, tag := o[1:i], o[i+1:]
			c, ok := callerOf[sid]
			if !ok {
				continue // the reply to a request that arrived before the window (cannot happen: windows start with the session)
			}
			toks = append(toks, fmt.Sprintf("R%s:%s", sid, tag))
			switch classOf[sid] {
			case "v":
				// nobody receives: the reply stays in whatever channel the id was registered with
			case "p":
				toks = append(toks, fmt.Sprintf("r%d", c), fmt.Sprintf("p%d", c))
				l.Recv[c] = appendRecv(l.Recv[c], sid, tag)
				pool = append(pool, chanOf[c])
				l.Policies["release/put"]++
			case "s":
				toks = append(toks, fmt.Sprintf("r%d", c))
				l.Recv[c] = appendRecv(l.Recv[c], sid, tag)
			case "s-last":
				toks = append(toks, fmt.Sprintf("r%d", c), fmt.Sprintf("q%d", c))
				l.Recv[c] = appendRecv(l.Recv[c], sid, tag)
				unheld = append(unheld, chanOf[c])
				l.Policies["release/drop"]++
			default:
				toks = append(toks, fmt.Sprintf("r%d", c))
				l.Recv[c] = appendRecv(l.Recv[c], sid, tag)
				if syncUsesPool {
					toks = append(toks, fmt.Sprintf("p%d", c))
					pool = append(pool, chanOf[c])
					l.Policies["release/sync-call-puts"]++
				} else {
					toks = append(toks, fmt.Sprintf("q%d", c))
					unheld = append(unheld, chanOf[c])
					l.Policies["release/drop"]++
				}
			}
		}
	}
	l.Rest = fmt.Sprintf("%d %s", ncallers, strings.Join(toks, " "))
	return l
}

func appendRecv(prev, sid, tag string) string {
	e := sid + ":" + sid + ":" + tag
	if prev == "" {
		return e
	}
	return prev + "," + e
}

// chanDiff compares one driver answer with the expectations; "" = agree.
func chanDiff(l chanLine, model string) string {
	f := strings.Fields(model)
	if len(f) == 0 {
		return "empty answer"
	}
	var diffs []string
	if f[0] != "ok" {
		diffs = append(diffs, "the model rejects the schedule the implementation ran: "+f[0])
	}
	kv := map[string]string{}
	for _, x := range f[1:] {
		if i := strings.IndexByte(x, '='); i > 0 {
			kv[x[:i]] = x[i+1:]
		}
	}
	if kv["foreign"] != "0" {
		diffs = append(diffs, fmt.Sprintf("foreign: implementation 0 (every call returned the result of its own request), model %s", kv["foreign"]))
	}
	if kv["dead"] != "0" {
		diffs = append(diffs, "dead: implementation 0 (the receiver kept running), model "+kv["dead"])
	}
	if f[0] == "ok" {
		callers := make([]int, 0, len(l.Recv))
		for c := range l.Recv {
			callers = append(callers, c)
		}
		sort.Ints(callers)
		for _, c := range callers {
			got := kv["c"+strconv.Itoa(c)]
			if i := strings.IndexByte(got, '/'); i >= 0 {
				got = got[i+1:]
			}
			if got != l.Recv[c] {
				diffs = append(diffs, fmt.Sprintf("caller %d: implementation received %s, model %s", c, l.Recv[c], got))
			}
		}
		gave := map[string]bool{}
		for _, g := range strings.Split(kv["gaveup"], ",") {
			gave[g] = true
		}
		for c, sid := range l.GaveUp {
			got := kv["c"+strconv.Itoa(c)]
			if !strings.HasSuffix(got, "/-") {
				diffs = append(diffs, fmt.Sprintf("caller %d abandoned request %s and returned without a reply, model %s", c, sid, got))
			}
			if !gave[fmt.Sprintf("%d:%s", c, sid)] {
				diffs = append(diffs, fmt.Sprintf("abandoned request %d:%s is not in the model's gaveup=%s", c, sid, cliTrim(kv["gaveup"], 100)))
			}
		}
	}
	if len(diffs) > 6 {
		diffs = append(diffs[:6], fmt.Sprintf("… %d more", len(diffs)-6))
	}
	return strings.Join(diffs, "; ")
}

// chanCompare builds the schedules under the regenerated configuration, sends them to the driver in
// batches and reports every difference. inputs[i] is the replayable case that produced obs[i].
func chanCompare(c *lib.Ctx, prefix string, obs [][]string, inputs []any, family []string) (compared int) {
	r := c.R
	if len(obs) == 0 {
		return 0
	}
	if c.ModelPath == "" {
		r.Skip("no model driver given (--model): %d recorded schedules were not compared with chan.run", len(obs))
		r.HistAdd("chan-model/skipped/no-driver", len(obs))
		return 0
	}
	cfg := gCurCfg(c, "chan", "111101")
	if o := os.Getenv("VH_CHAN_CFG"); o != "" {
		cfg = o // debugging aid / non-vacuity check: replay the schedules in another configuration (expected to differ)
		r.Note("VH_CHAN_CFG: the channel schedules are built for and replayed in configuration %s", cfg)
	}
	var lines []chanLine
	var in []string
	var keptI []any
	var keptF []string
	for i, o := range obs {
		l := chanBuild(o, cfg)
		n, _ := strconv.Atoi(strings.SplitN(l.Rest, " ", 2)[0])
		if n > 4096 {
			r.Hist("chan-model/skipped/more-than-4096-callers")
			continue
		}
		if l.NReq == 0 {
			r.Hist("chan-model/skipped/empty-window")
			continue
		}
		lines = append(lines, l)
		in = append(in, "chan.run "+cfg+" "+l.Rest)
		keptI, keptF = append(keptI, inputs[i]), append(keptF, family[i])
	}
	out, err := connModel(c, in)
	if err != nil {
		r.Fail(lib.Failure{Kind: "tie", Key: prefix + "/chan-model-driver", What: err.Error()})
		return 0
	}
	for i := range in {
		compared++
		r.Hist("chan-model/compared/" + keptF[i])
		for k, v := range lines[i].Policies {
			r.HistAdd("chan-model/step/"+k, v)
		}
		if d := chanDiff(lines[i], out[i]); d == "" {
			r.Hist("chan-model/agrees/" + keptF[i])
		} else {
			switch {
			case strings.Contains(d, "rejects"):
				r.Hist("chan-model/differs/model-rejects-the-schedule/" + keptF[i])
			case strings.Contains(d, "foreign:"):
				r.Hist("chan-model/differs/model-predicts-foreign-receives/" + keptF[i])
			default:
				r.Hist("chan-model/differs/other/" + keptF[i])
			}
			r.Fail(lib.Failure{Kind: "correspondence", Key: prefix + "/chan.run", What: "recorded schedule and result-channel model differ: " + d,
				Input: keptI[i], Expected: map[string]any{"model": cliTrim(out[i], 1500)},
				Actual: map[string]any{"schedule": cliTrim(in[i], 3000), "implementation_receives": lines[i].Recv, "abandoned": lines[i].GaveUp}})
		}
	}
	return compared
}
