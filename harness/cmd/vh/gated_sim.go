package main

// A bounded, eager simulation of the server pipeline (Serve loop → pktChan →
// dispatcher → rwChan/8 pool workers | cmdChan/1 command worker → controller),
// written from packet-manager.go. The harness uses it for three things:
//   1. to know which handler calls MUST be sitting on their gates after a given set
//      of gates has been opened (so that it can wait for exactly that set instead of
//      sleeping), and which responses must have left the server by then;
//   2. to enumerate the completion orders that the server can be forced into;
//   3. to write the forced schedule down as a trace of the actions of the Lean
//      pipeline model (Sftp/Model/Pipe.lean, driver ops c02.run / c14.check / c14.handled).
// Every internal step that is enabled is taken at once; the only free choices are
// the returns of gated handler calls, which the harness makes.

import (
	"fmt"
	"math/rand"
	"sort"
	"strings"
)

type simReq struct {
	Kind byte   // 'w' READ/WRITE, 'c' CLOSE, 'o' anything else
	ID   uint32 // request id
	Gate string // key of the gated handler call this request makes; "" = returns without being held
}

type gSim struct {
	reqs     []simReq
	pool     int
	chanCap  int
	nextRecv int
	recvHold int
	pktChan  []int
	dispHold int
	dispReg  bool
	rwChan   []int
	slots    []int // request index or -1
	cmd      int
	working  int
	done     []bool // gate opened by the harness (handler allowed to return)
	handled  []int  // request indices in the order their handlers returned
	incoming []int
	outgoing []int
	sent     []int
	trace    []string
}

func newSim(reqs []simReq) *gSim {
	s := &gSim{reqs: reqs, pool: 8, chanCap: 8, recvHold: -1, dispHold: -1, cmd: -1, done: make([]bool, len(reqs))}
	for i := 0; i < s.pool; i++ {
		s.slots = append(s.slots, -1)
	}
	s.settle()
	return s
}

func (s *gSim) clone() *gSim {
	c := *s
	c.pktChan = append([]int(nil), s.pktChan...)
	c.rwChan = append([]int(nil), s.rwChan...)
	c.slots = append([]int(nil), s.slots...)
	c.done = append([]bool(nil), s.done...)
	c.handled = append([]int(nil), s.handled...)
	c.incoming = append([]int(nil), s.incoming...)
	c.outgoing = append([]int(nil), s.outgoing...)
	c.sent = append([]int(nil), s.sent...)
	c.trace = append([]string(nil), s.trace...)
	return &c
}

func (s *gSim) emit(f string, a ...any) { s.trace = append(s.trace, fmt.Sprintf(f, a...)) }

func (s *gSim) maybeSend() {
	for len(s.incoming) > 0 && len(s.outgoing) > 0 && s.incoming[0] == s.outgoing[0] {
		s.sent = append(s.sent, s.outgoing[0])
		s.incoming = s.incoming[1:]
		s.outgoing = s.outgoing[1:]
	}
}

func (s *gSim) register(i int) {
	s.working++
	s.emit("d")
	s.incoming = append(s.incoming, i)
	sort.Ints(s.incoming)
	s.emit("q")
	s.maybeSend()
}

func (s *gSim) ready(i int) {
	s.working--
	s.outgoing = append(s.outgoing, i)
	sort.Ints(s.outgoing)
	s.emit("p")
	s.maybeSend()
}

func (s *gSim) canReturn(i int) bool { return s.reqs[i].Gate == "" || s.done[i] }

func (s *gSim) settle() {
	for progress := true; progress; {
		progress = false
		// Serve loop
		if s.recvHold < 0 && s.nextRecv < len(s.reqs) {
			s.recvHold = s.nextRecv
			s.nextRecv++
			s.emit("r%d%c", s.reqs[s.recvHold].ID, s.reqs[s.recvHold].Kind)
			progress = true
		}
		if s.recvHold >= 0 && len(s.pktChan) < s.chanCap {
			s.pktChan = append(s.pktChan, s.recvHold)
			s.recvHold = -1
			progress = true
		}
		// dispatcher
		if s.dispHold < 0 && len(s.pktChan) > 0 {
			s.dispHold, s.pktChan = s.pktChan[0], s.pktChan[1:]
			s.dispReg = false
			progress = true
		}
		if s.dispHold >= 0 {
			i := s.dispHold
			switch s.reqs[i].Kind {
			case 'w':
				if !s.dispReg {
					s.register(i)
					s.dispReg = true
					progress = true
				}
				if len(s.rwChan) < s.chanCap {
					s.rwChan = append(s.rwChan, i)
					s.dispHold = -1
					progress = true
				}
			default:
				if !s.dispReg && (s.reqs[i].Kind != 'c' || s.working == 0) {
					s.register(i)
					s.dispReg = true
					progress = true
				}
				if s.dispReg && s.cmd < 0 {
					s.cmd = i
					s.emit("ct")
					s.dispHold = -1
					progress = true
				}
			}
		}
		// pool workers
		for w := range s.slots {
			if s.slots[w] < 0 && len(s.rwChan) > 0 {
				s.slots[w], s.rwChan = s.rwChan[0], s.rwChan[1:]
				s.emit("wt%d", w)
				progress = true
			}
			if i := s.slots[w]; i >= 0 && s.canReturn(i) {
				s.handled = append(s.handled, i)
				s.emit("wh%d", w)
				s.emit("wr%d", w)
				s.slots[w] = -1
				s.ready(i)
				progress = true
			}
		}
		// command worker
		if i := s.cmd; i >= 0 && s.canReturn(i) {
			s.handled = append(s.handled, i)
			s.emit("ch")
			s.emit("cr")
			s.cmd = -1
			s.ready(i)
			progress = true
		}
	}
}

// started lists the requests whose gated call is running (taken by a worker, gate still closed).
func (s *gSim) started() []int {
	var out []int
	for _, i := range s.slots {
		if i >= 0 && !s.canReturn(i) {
			out = append(out, i)
		}
	}
	if s.cmd >= 0 && !s.canReturn(s.cmd) {
		out = append(out, s.cmd)
	}
	sort.Ints(out)
	return out
}

func (s *gSim) isStarted(i int) bool {
	for _, j := range s.started() {
		if j == i {
			return true
		}
	}
	return false
}

// finish opens the gate of request i.
func (s *gSim) finish(i int) {
	s.done[i] = true
	s.settle()
}

func (s *gSim) allSent() bool { return len(s.sent) == len(s.reqs) }

// endOfInput appends the shutdown actions of a clean end of stream after everything was sent.
func (s *gSim) traceText() string {
	if len(s.trace) == 0 {
		return "-"
	}
	return strings.Join(s.trace, ",")
}

// sentText renders the sent list the way the model driver prints it.
func simSentText(reqs []simReq, sent []int) string {
	if len(sent) == 0 {
		return "-"
	}
	var p []string
	for _, i := range sent {
		p = append(p, fmt.Sprintf("%d:%d:%c", i+1, reqs[i].ID, reqs[i].Kind))
	}
	return strings.Join(p, ",")
}

// feasibleOrders enumerates (up to limit) the orders in which the gated calls of reqs can be made to return.
// complete is false when the enumeration was cut at limit.
func feasibleOrders(reqs []simReq, limit int) (orders [][]int, complete bool) {
	complete = true
	var rec func(s *gSim, pre []int)
	rec = func(s *gSim, pre []int) {
		if len(orders) >= limit {
			complete = false
			return
		}
		st := s.started()
		if len(st) == 0 {
			orders = append(orders, append([]int(nil), pre...))
			return
		}
		for _, i := range st {
			c := s.clone()
			c.finish(i)
			rec(c, append(pre, i))
		}
	}
	rec(newSim(reqs), nil)
	return
}

// randomOrder walks the choice tree once. pick selects among the currently running gated calls.
func randomOrder(reqs []simReq, rng *rand.Rand, style string) []int {
	s := newSim(reqs)
	var out []int
	for {
		st := s.started()
		if len(st) == 0 {
			return out
		}
		var i int
		switch style {
		case "fifo":
			i = st[0]
		case "lifo":
			i = st[len(st)-1]
		case "first-last": // keep the earliest running call back as long as anything else can return
			i = st[len(st)-1]
			if len(st) > 1 {
				i = st[1+rng.Intn(len(st)-1)]
			}
		default:
			i = st[rng.Intn(len(st))]
		}
		out = append(out, i)
		s.finish(i)
	}
}
