package main

// One transfer = one call of a File transfer method under a given option set, server kind,
// file size, offset, length and (for the scripted peer) reply schedule / failure set.
// xfExec runs it and returns everything the oracles of C01 and C13 look at.

import (
	"bytes"
	"errors"
	"fmt"
	"io"
	"sort"
	"strconv"

	"github.com/pkg/sftp"

	"verifharness/lib"
	"verifharness/wire"
)

type xfCase struct {
	Srv xfSrvSpec `json:"server"`
	Cfg xfCfg     `json:"client_options"`
	API string    `json:"api"`           // ReadAt Read WriteTo WriteAt Write ReadFrom ReadFromWithConcurrency
	Src string    `json:"src,omitempty"` // ReadFrom source kind
	RFC int       `json:"rf_concurrency,omitempty"`
	RW  bool      `json:"open_rdwr"`
	// Open names the open mode (xfOpenModeList); "": O_RDONLY for reads, O_WRONLY|O_CREATE for writes, O_RDWR|O_CREATE
	// when open_rdwr is set. For the modes that empty the file (O_TRUNC, Create(), O_EXCL on a new name) file_len is
	// the size AFTER the open, i.e. 0, and pre_open_len what the name held before (O_EXCL: nothing).
	Open   string `json:"open,omitempty"`
	PreLen int    `json:"pre_open_len,omitempty"`
	// geometry
	FileLen int   `json:"file_len"`
	Off     int64 `json:"off"`
	Len     int   `json:"len"`
	Seed    int   `json:"data_seed"`
	// scripted peer only
	Window       int               `json:"window,omitempty"`
	PermSeed     int64             `json:"perm_seed,omitempty"`
	ShortCap     int               `json:"short_cap,omitempty"`
	NoPerm       bool              `json:"attrs_without_perm,omitempty"`
	Fail         map[string]xfFail `json:"fail,omitempty"` // request offset (decimal) -> status
	StatFail     *xfFail           `json:"stat_fail,omitempty"`
	SrcFailAfter int               `json:"src_fail_after,omitempty"` // > 0: the ReadFrom source fails after that many bytes (value-1)
	// scripted peer: the READ/WRITE requests at these offsets are answered in this order (a request listed later is held
	// until the ones before it have been answered; a short pause follows each), whatever order they arrive in
	Order []int64 `json:"reply_order,omitempty"`
	// request server: the handler's backend breaks at a byte offset (xfer_fault.go)
	HFault *xfHFault `json:"handler_fault,omitempty"`
}

func (cs xfCase) Text() string {
	var fk []string
	for k, v := range cs.Fail {
		fk = append(fk, fmt.Sprintf("%s=%d", k, v.Code))
	}
	sort.Strings(fk)
	sf := ""
	if cs.StatFail != nil {
		sf = fmt.Sprint(cs.StatFail.Code)
	}
	t := fmt.Sprintf("%s %s %s/%s/%d rw%d S%d o%d L%d w%d cap%d np%d f%v sf%s sfa%d", cs.Srv, cs.Cfg, cs.API, cs.Src, cs.RFC, xfB(cs.RW),
		cs.FileLen, cs.Off, cs.Len, cs.Window, cs.ShortCap, xfB(cs.NoPerm), fk, sf, cs.SrcFailAfter)
	if cs.Open != "" {
		t += fmt.Sprintf(" open=%s pre%d", cs.Open, cs.PreLen)
	}
	if len(cs.Order) > 0 {
		t += fmt.Sprintf(" ord%v", cs.Order)
	}
	if cs.HFault != nil {
		t += " hf=" + cs.HFault.String()
	}
	return t
}

// Mode is the open mode of the case.
func (cs xfCase) Mode() xfOpenMode {
	name := cs.Open
	if name == "" {
		switch {
		case cs.RW:
			name = "rdwr+creat"
		case cs.IsRead():
			name = "rdonly"
		default:
			name = "wronly+creat"
		}
	}
	m, ok := xfOpenModeByName(name)
	if !ok {
		return xfOpenMode{Name: "unknown:" + name}
	}
	return m
}

// ReadsRefused: the transfer reads through a handle the request server opened with Filewrite because its FilePut
// handler is no OpenFileWriter (any of WRITE, APPEND, CREAT, TRUNC in the flags sends the open there): such a handle
// serves no READ.
func (cs xfCase) ReadsRefused() bool {
	return cs.Srv.Kind == "rs" && cs.Srv.NoOFW && cs.IsRead() && cs.Mode().Wire&^wire.FRead != 0
}

func (cs xfCase) IsRead() bool { return cs.API == "ReadAt" || cs.API == "Read" || cs.API == "WriteTo" }

// Path names the code path the documented option rules select.
func (cs xfCase) Path() string {
	mp := cs.Cfg.MP
	switch cs.API {
	case "ReadAt", "Read":
		switch {
		case cs.Len <= mp:
			return "single"
		case !cs.Cfg.CR:
			return "sequential"
		}
		return "concurrent"
	case "WriteTo":
		switch {
		case !cs.Cfg.CR:
			return "sequential"
		case cs.FileLen <= mp || cs.NoPerm:
			return "sequential-after-stat"
		}
		return "concurrent"
	case "WriteAt", "Write":
		switch {
		case cs.Len <= mp:
			return "single"
		case cs.Cfg.CW:
			return "concurrent"
		}
		return "sequential"
	case "ReadFrom":
		if xfReadFromConcurrent(cs.Cfg, cs.Src, cs.Len) {
			return "concurrent"
		}
		return "sequential"
	case "ReadFromWithConcurrency":
		return "concurrent"
	}
	return "?"
}

// EffConc is the number of workers the documented rules give the concurrent paths.
func (cs xfCase) EffConc() int {
	mp, mc := cs.Cfg.MP, cs.Cfg.Conc
	capTo := func(n int) int {
		if n > mc || n < 1 {
			return mc
		}
		return n
	}
	switch cs.API {
	case "ReadAt", "Read", "WriteAt", "Write":
		return capTo(cs.Len/mp + 1)
	case "WriteTo":
		return capTo(cs.FileLen/mp + 1)
	case "ReadFrom":
		k := xfSrcKnownSize(cs.Src, cs.Len)
		if k < 0 {
			return mc
		}
		return capTo(int(k/int64(mp)) + 1)
	case "ReadFromWithConcurrency":
		return capTo(cs.RFC)
	}
	return 1
}

func (cs xfCase) failMap() map[int64]xfFail {
	if len(cs.Fail) == 0 {
		return nil
	}
	m := map[int64]xfFail{}
	for k, v := range cs.Fail {
		o, _ := strconv.ParseInt(k, 10, 64)
		m[o] = v
	}
	return m
}

type xfOutcome struct {
	SetupErr  error
	OpenErr   error  // the open itself answered an error (expected for the O_EXCL-on-existing modes)
	OpenWire  uint32 // scripted peer: the pflags word of the OPEN request
	OpenSeen  bool   // … and whether one was recorded
	HandlerOp xfMemOpen
	AtOpen    []byte // modes that empty the file: what the name holds right after the open
	AtOpenSet bool
	Hang      bool
	Panic     any
	N         int64
	Err       error
	Data      []byte // bytes handed to the caller (read side)
	OffAfter  int64
	OffErr    error
	CloseErr  error
	FileAfter []byte
	Consumed  int64 // ReadFrom: bytes the source handed out
	Log       []xfReq
	Closes    int
	Timeouts  int
	LeftOpen  int
	Applied   []xfChunk // handler fault: the WriteAt calls the handler stored
	FaultHits int       // handler fault: handler calls that met it
	Ordered   int       // scripted peer: how many of the reply_order entries were answered in their turn
}

type xfPeerHold struct {
	slot int // the worker's in-flight slot (see xfInflight)
	p    *xfPeer
	cfg  xfCfg
	n    int // bytes moved through the held connection (its raw log grows with them)
}

// get returns the held peer if it belongs to cfg and can be reset for a new case.
func (h *xfPeerHold) get(cfg xfCfg, po xfPeerOpts, bytes int) *xfPeer {
	if h == nil || h.p == nil {
		return nil
	}
	h.n += bytes
	if h.cfg != cfg || h.n > 32<<20 || !h.p.Reset(po) {
		h.Close()
		return nil
	}
	return h.p
}

func (h *xfPeerHold) put(cfg xfCfg, p *xfPeer) {
	if h != nil {
		h.p, h.cfg, h.n = p, cfg, 0
	}
}

func (h *xfPeerHold) Close() {
	if h != nil && h.p != nil {
		h.p.Shutdown()
		h.p = nil
	}
}

type xfSrcErr struct{}

func (xfSrcErr) Error() string { return "source failed (injected)" }

// xfExec runs one case; real is the running pair for os/rs kinds (nil for the peer).
// hold (optional) keeps one scripted peer + client alive across the cases of a job: a fresh
// peers.NewClient per case costs a 2 MB request channel.
func xfExec(cs xfCase, real *xfReal, srcDir string, hold *xfPeerHold) (out xfOutcome) {
	kase := lib.NewCase(xfClass(cs.Srv) + "/" + cs.API) // hang account of this case (lib/budget.go)
	if hold != nil {
		xfInflight(hold.slot, cs)
	} else {
		xfInflight(0, cs)
	}
	mode := cs.Mode()
	if mode.Wire == 0 {
		out.SetupErr = errors.New("unknown open mode " + mode.Name)
		return
	}
	initial := xfFilePat(cs.FileLen)
	if mode.Empties() {
		initial = xfFilePat(cs.PreLen) // what the name holds before the open empties it
	}
	var cli *sftp.Client
	var peer *xfPeer
	path := "/f"
	if cs.Srv.Kind == "peer" {
		po := xfPeerOpts{File: initial, Exists: !mode.Fresh, Window: 1, PermSeed: cs.PermSeed, ShortCap: cs.ShortCap, NoPerm: cs.NoPerm}
		if mode.Fresh {
			po.File = nil
		}
		if peer = hold.get(cs.Cfg, po, cs.FileLen+cs.PreLen+cs.Len); peer == nil {
			var err error
			peer, err = xfNewPeer(cs.Cfg, po)
			if err != nil {
				out.SetupErr = err
				return
			}
			hold.put(cs.Cfg, peer)
		}
		defer func() {
			switch {
			case hold == nil:
				peer.Shutdown()
			case out.Hang || out.SetupErr != nil || out.Panic != nil:
				// do not reuse a connection something went wrong on
				hold.p = nil
				peer.Shutdown()
			}
		}()
		cli = peer.Cli
	} else {
		cli = real.Cli
		path = real.Path("f")
		var err error
		if mode.Fresh {
			err = real.Remove("f")
		} else {
			err = real.Put("f", initial)
		}
		if err != nil {
			out.SetupErr = err
			return
		}
	}
	var f *sftp.File
	if ok, _ := xfGuardK(kase, func() { f, out.OpenErr = mode.Open(cli, path) }); !ok {
		out.OpenErr = nil
		out.SetupErr = errors.New("open: " + xfErrHang.Error())
		return
	}
	if peer != nil {
		for _, q := range peer.Log() {
			if q.Typ == wire.Open {
				out.OpenWire, out.OpenSeen = uint32(q.Len), true
			}
		}
	} else if real.Mem != nil {
		out.HandlerOp = real.Mem.LastOpen()
	}
	if out.OpenErr != nil || mode.Refuse {
		// nothing to transfer through; what the name holds now is all there is to look at
		if f != nil {
			xfGuardK(kase, func() { f.Close() })
		}
		if peer != nil {
			out.FileAfter = peer.Get()
		} else {
			out.FileAfter, _ = real.Get("f")
			out.LeftOpen = real.OpenHandles()
		}
		return
	}
	if mode.Empties() {
		if peer != nil {
			out.AtOpen, out.AtOpenSet = peer.Get(), true
		} else if b, err := real.Get("f"); err == nil {
			out.AtOpen, out.AtOpenSet = b, true
		}
	}
	implicit := cs.API != "ReadAt" && cs.API != "WriteAt"
	if implicit && cs.Off != 0 {
		if _, err := f.Seek(cs.Off, io.SeekStart); err != nil {
			out.SetupErr = fmt.Errorf("seek: %w", err)
			return
		}
	}
	var src xfSource
	var data []byte
	if !cs.IsRead() {
		data = xfPat(cs.Seed, cs.Len)
		if cs.API == "ReadFrom" || cs.API == "ReadFromWithConcurrency" {
			kind := cs.Src
			if cs.API == "ReadFromWithConcurrency" && kind == "" {
				kind = "opaque"
			}
			var err error
			src, err = xfNewSource(kind, data, srcDir)
			if err != nil {
				out.SetupErr = err
				return
			}
			if src.Cleanup != nil {
				defer src.Cleanup()
			}
			if cs.SrcFailAfter > 0 {
				cr := &xfCountReader{r: bytes.NewReader(data), failAfter: int64(cs.SrcFailAfter - 1), failErr: xfSrcErr{}}
				src = xfSource{R: struct{ io.Reader }{cr}, Consumed: cr.count}
			}
		}
	}
	if peer != nil {
		peer.SetBehaviour(func(o *xfPeerOpts) {
			o.Window = cs.Window
			o.Fail = cs.failMap()
			o.StatFail = cs.StatFail
		})
		peer.SetOrder(cs.Order)
		peer.ResetLog()
	}
	if cs.HFault != nil {
		if real == nil || real.Mem == nil {
			out.SetupErr = errors.New("a handler fault needs the request server")
			return
		}
		if err := real.Mem.SetFault(cs.HFault); err != nil {
			out.SetupErr = err
			return
		}
		defer real.Mem.SetFault(nil)
	}
	var sink bytes.Buffer
	buf := make([]byte, cs.Len)
	ok, pn := xfGuardK(kase, func() {
		switch cs.API {
		case "ReadAt":
			n, err := f.ReadAt(buf, cs.Off)
			out.N, out.Err = int64(n), err
		case "Read":
			n, err := f.Read(buf)
			out.N, out.Err = int64(n), err
		case "WriteTo":
			out.N, out.Err = f.WriteTo(&sink)
		case "WriteAt":
			n, err := f.WriteAt(data, cs.Off)
			out.N, out.Err = int64(n), err
		case "Write":
			n, err := f.Write(data)
			out.N, out.Err = int64(n), err
		case "ReadFrom":
			out.N, out.Err = f.ReadFrom(src.R)
		case "ReadFromWithConcurrency":
			out.N, out.Err = f.ReadFromWithConcurrency(src.R, cs.RFC)
		default:
			out.Err = errors.New("unknown api " + cs.API)
		}
	})
	if !ok {
		out.Hang = true
		return
	}
	if pn != nil {
		out.Panic = pn
		return
	}
	switch cs.API {
	case "ReadAt", "Read":
		if out.N >= 0 && out.N <= int64(len(buf)) {
			out.Data = buf[:out.N]
		}
	case "WriteTo":
		out.Data = sink.Bytes()
	}
	if src.Consumed != nil {
		out.Consumed = src.Consumed()
	}
	if peer != nil {
		out.Log = peer.Log()
		out.Ordered = peer.SetOrder(nil)
		peer.SetBehaviour(func(o *xfPeerOpts) { o.Window = 1; o.Fail = nil; o.StatFail = nil })
	}
	if cs.HFault != nil {
		// the concurrent paths may have requests in flight when the call returns: the request server answers in request
		// order, so after one more round trip every READ/WRITE of the transfer has met the handler (and the fault)
		if ok, _ := xfGuardK(kase, func() { cli.Lstat(path) }); !ok {
			out.Hang = true
			return
		}
		out.FaultHits = real.Mem.FaultHits()
		out.Applied = real.Mem.TakeApplied()
		real.Mem.SetFault(nil)
	}
	if ok, _ := xfGuardK(kase, func() {
		out.OffAfter, out.OffErr = f.Seek(0, io.SeekCurrent)
		out.CloseErr = f.Close()
	}); !ok {
		out.Hang = true
		return
	}
	if peer != nil {
		out.FileAfter = peer.Get()
		out.Closes = peer.Closes()
		peer.mu.Lock()
		out.Timeouts = peer.timeouts
		peer.mu.Unlock()
	} else {
		b, err := real.Get("f")
		if err != nil {
			out.SetupErr = fmt.Errorf("reading the backing file: %w", err)
		}
		out.FileAfter = b
		out.LeftOpen = real.OpenHandles()
	}
	return
}

// ---------- expected request streams (no failures) ----------

type xfWireExpect struct {
	Typ      byte
	Required []xfChunk
	Optional func(xfChunk) bool
	StatTyp  byte // 0: no stat request expected
	PurePlan bool // Required is exactly xfPlan(mp, off, len): comparable with the driver's xfer.plan
}

// xfExpectWire states which READ/WRITE requests the transfer must put on the wire when the server
// fails nothing. It is written from the documented protocol behaviour (chunks of the packet size
// from the start offset; a short answer is followed by a request for the rest; a concurrent
// whole-file read asks for full packets at off+i*mp until the first EOF and may over-read beyond).
func xfExpectWire(cs xfCase) xfWireExpect {
	mp, S, o, L := cs.Cfg.MP, int64(cs.FileLen), cs.Off, cs.Len
	e := xfWireExpect{}
	switch cs.API {
	case "ReadAt", "Read":
		e.Typ = wire.Read
		switch cs.Path() {
		case "single":
			e.Required, _, _ = xfReadChunkSim(S, o, L, cs.ShortCap)
		case "sequential":
			for _, c := range xfPlan(mp, o, L) {
				rq, _, eof := xfReadChunkSim(S, c.Off, c.Len, cs.ShortCap)
				e.Required = append(e.Required, rq...)
				if eof {
					break
				}
			}
		case "concurrent":
			plan := xfPlan(mp, o, L)
			stop := len(plan)
			for i, c := range plan {
				if c.Off+int64(c.Len) > S {
					stop = i + 1
					break
				}
			}
			e.Required = plan[:stop]
			rest := map[xfChunk]bool{}
			for _, c := range plan[stop:] {
				rest[c] = true
			}
			e.Optional = func(c xfChunk) bool { return rest[c] }
		}
		e.PurePlan = L > 0 && o+int64(L) <= S && cs.ShortCap == 0
	case "WriteTo":
		e.Typ = wire.Read
		if cs.Cfg.CR {
			e.StatTyp = wire.Stat
			if cs.Cfg.Fstat {
				e.StatTyp = wire.Fstat
			}
		}
		if cs.Path() != "concurrent" {
			cur := o
			for {
				rq, got, eof := xfReadChunkSim(S, cur, mp, cs.ShortCap)
				e.Required = append(e.Required, rq...)
				cur += int64(got)
				if eof {
					break
				}
			}
		} else {
			i := int64(0)
			for ; ; i++ {
				e.Required = append(e.Required, xfChunk{o + i*int64(mp), mp})
				if o+i*int64(mp) >= S {
					break
				}
			}
			last := o + i*int64(mp)
			e.Optional = func(c xfChunk) bool { return c.Len == mp && c.Off > last && (c.Off-o)%int64(mp) == 0 }
		}
	default:
		e.Typ = wire.Write
		if (cs.API == "WriteAt" || cs.API == "Write") && L == 0 {
			e.Required = []xfChunk{{o, 0}}
		} else {
			e.Required = xfPlan(mp, o, L)
			e.PurePlan = L > 0
		}
	}
	return e
}
