package main

import (
	"fmt"
	"io"
	"os"
	"os/user"
	"path"
	"path/filepath"
	"strconv"
	"strings"
	"syscall"
	"time"

	"github.com/pkg/sftp"

	"verifharness/lib"
	"verifharness/peers"
	"verifharness/wire"
)

// Third part of C17: "the human-readable long name in listings agrees with the structured attributes" over the
// whole mode space, and "size, mode, modification time and owner reported for a served file equal what the file
// system reports" for every shape of os.FileInfo a request-server handler may return.
//
//   lsmode   FileMode.String over all 2^16 wire mode words (hook) against the POSIX `ls -l` rules
//   runls    runLs over scripted os.FileInfo values of every os type x 4096 permission/special combinations (hook)
//   rs-list  the same entries served by a real request server, read back with raw READDIR requests
//   osdir    real directories holding entries of every kind the host can create in every one of the 4096
//            permission/special combinations (owners, link counts, sizes, old and recent times varied), served
//            by the real os-backed server and read back with raw READDIR / LSTAT requests
//   rs-shape os.FileInfo shapes: Sys() nil / *syscall.Stat_t / *sftp.FileStat / other / a real
//            os.Lstat result, with and without FileInfoUidGid and FileInfoExtendedData, mapped ids different from
//            the ids in Sys(); STAT, LSTAT, FSTAT and READDIR of a real request server

// ---------- independent POSIX rendering ----------

// c17PosixLs renders the first column of `ls -l` for a POSIX mode word, written from the POSIX ls rules:
// type character; r, w per class; the execute position of user/group/other shows x/-, or s/S (user, setuid),
// s/S (group, setgid), t/T (other, sticky) in lower case iff THAT class's execute bit is set.
func c17PosixLs(m uint32) string {
	var b [10]byte
	switch m & 0o170000 {
	case 0o100000:
		b[0] = '-'
	case 0o040000:
		b[0] = 'd'
	case 0o120000:
		b[0] = 'l'
	case 0o060000:
		b[0] = 'b'
	case 0o020000:
		b[0] = 'c'
	case 0o010000:
		b[0] = 'p'
	case 0o140000:
		b[0] = 's'
	default:
		b[0] = '?'
	}
	class := func(pos int, r, w, x, special uint32, lower, upper byte) {
		b[pos], b[pos+1] = '-', '-'
		if m&r != 0 {
			b[pos] = 'r'
		}
		if m&w != 0 {
			b[pos+1] = 'w'
		}
		switch {
		case m&special != 0 && m&x != 0:
			b[pos+2] = lower
		case m&special != 0:
			b[pos+2] = upper
		case m&x != 0:
			b[pos+2] = 'x'
		default:
			b[pos+2] = '-'
		}
	}
	class(1, 0o400, 0o200, 0o100, 0o4000, 's', 'S')
	class(4, 0o040, 0o020, 0o010, 0o2000, 's', 'S')
	class(7, 0o004, 0o002, 0o001, 0o1000, 't', 'T')
	return string(b[:])
}

// c17Column names the part of the mode column in which two renderings first differ (stable failure keys).
func c17Column(a, b string) string {
	if len(a) != 10 || len(b) != 10 {
		return "length"
	}
	for i := 0; i < 10; i++ {
		if a[i] != b[i] {
			switch {
			case i == 0:
				return "type"
			case i <= 3:
				return "user"
			case i <= 6:
				return "group"
			default:
				return "other"
			}
		}
	}
	return "same"
}

// c17OsToPosix is the harness's own os.FileMode -> POSIX mode word (from the documentation of package os and
// <sys/stat.h>); ok is false for type combinations that POSIX cannot express (irregular, mixed type bits).
func c17OsToPosix(fm os.FileMode) (uint32, bool) {
	w := uint32(fm & 0o777)
	if fm&os.ModeSetuid != 0 {
		w |= 0o4000
	}
	if fm&os.ModeSetgid != 0 {
		w |= 0o2000
	}
	if fm&os.ModeSticky != 0 {
		w |= 0o1000
	}
	switch fm & os.ModeType {
	case 0:
		return w | 0o100000, true
	case os.ModeDir:
		return w | 0o040000, true
	case os.ModeSymlink:
		return w | 0o120000, true
	case os.ModeNamedPipe:
		return w | 0o010000, true
	case os.ModeSocket:
		return w | 0o140000, true
	case os.ModeDevice:
		return w | 0o060000, true
	case os.ModeDevice | os.ModeCharDevice:
		return w | 0o020000, true
	}
	return w, false
}

var c17OsTypes = []struct {
	name string
	bits os.FileMode
}{
	{"regular", 0}, {"dir", os.ModeDir}, {"symlink", os.ModeSymlink}, {"fifo", os.ModeNamedPipe}, {"socket", os.ModeSocket},
	{"blockdev", os.ModeDevice}, {"chardev", os.ModeDevice | os.ModeCharDevice}, {"irregular", os.ModeIrregular},
}

func c17OsMode(typ os.FileMode, low int) os.FileMode {
	fm := typ | os.FileMode(low&0o777)
	if low&0o4000 != 0 {
		fm |= os.ModeSetuid
	}
	if low&0o2000 != 0 {
		fm |= os.ModeSetgid
	}
	if low&0o1000 != 0 {
		fm |= os.ModeSticky
	}
	return fm
}

// ---------- scripted os.FileInfo values of every shape ----------

type c17FI struct {
	name  string
	size  int64
	mode  os.FileMode
	mtime time.Time
	sys   any
	uid   uint32
	gid   uint32
	ext   []sftp.StatExtended
}

func (f *c17FI) Name() string       { return f.name }
func (f *c17FI) Size() int64        { return f.size }
func (f *c17FI) Mode() os.FileMode  { return f.mode }
func (f *c17FI) ModTime() time.Time { return f.mtime }
func (f *c17FI) IsDir() bool        { return f.mode.IsDir() }
func (f *c17FI) Sys() any           { return f.sys }

type c17FIU struct{ c17FI }   // + FileInfoUidGid
type c17FIE struct{ c17FI }   // + FileInfoExtendedData
type c17FIUE struct{ c17FI }  // + both
type c17Other struct{ N int } // a Sys() value of a type the package does not know

func (f *c17FIU) Uid() uint32                    { return f.uid }
func (f *c17FIU) Gid() uint32                    { return f.gid }
func (f *c17FIE) Extended() []sftp.StatExtended  { return f.ext }
func (f *c17FIUE) Uid() uint32                   { return f.uid }
func (f *c17FIUE) Gid() uint32                   { return f.gid }
func (f *c17FIUE) Extended() []sftp.StatExtended { return f.ext }

var (
	_ sftp.FileInfoUidGid       = (*c17FIU)(nil)
	_ sftp.FileInfoExtendedData = (*c17FIE)(nil)
	_ sftp.FileInfoUidGid       = (*c17FIUE)(nil)
	_ sftp.FileInfoExtendedData = (*c17FIUE)(nil)
)

// c17Shape describes one os.FileInfo a handler returns (replayable).
type c17Shape struct {
	Sys    string `json:"sys"`    // nil | stat_t | filestat | other | real (os.Lstat of a file the harness creates)
	UidGid bool   `json:"uidgid"` // implements FileInfoUidGid
	Ext    string `json:"ext"`    // none | empty | pairs (FileInfoExtendedData returning no / two pairs)
	Lookup bool   `json:"lookup"` // the handler implements LookupUserName / LookupGroupName
	Mode   uint32 `json:"os_mode"`
	Size   int64  `json:"size"`
	Mtime  int64  `json:"mtime"`
	SysUID uint32 `json:"sys_uid"`
	SysGID uint32 `json:"sys_gid"`
	Nlink  uint64 `json:"sys_nlink"`
	MapUID uint32 `json:"map_uid"`
	MapGID uint32 `json:"map_gid"`
}

func (s c17Shape) key() string {
	if s.UidGid {
		return "sys=" + s.Sys + "+uidgid"
	}
	return "sys=" + s.Sys
}

var c17ExtPairs = []sftp.StatExtended{{ExtType: "owner@verif", ExtData: "mapped"}, {ExtType: "empty@verif", ExtData: ""}}

// build makes the os.FileInfo; realDir is a directory in which the "real" shape creates its file.
func (s *c17Shape) build(name, realDir string) (os.FileInfo, error) {
	base := c17FI{name: name, size: s.Size, mode: os.FileMode(s.Mode), mtime: time.Unix(s.Mtime, 0), uid: s.MapUID, gid: s.MapGID}
	switch s.Sys {
	case "nil":
	case "stat_t":
		base.sys = &syscall.Stat_t{Uid: s.SysUID, Gid: s.SysGID, Nlink: s.Nlink, Mode: 0o100600, Size: 1}
	case "filestat":
		base.sys = &sftp.FileStat{UID: s.SysUID, GID: s.SysGID, Mode: 0o100600, Size: 1}
	case "other":
		base.sys = &c17Other{7}
	case "real":
		// a handler that keeps its files on disk and wraps the real os.FileInfo: everything but the owner
		// mapping comes from the file system
		p := filepath.Join(realDir, name)
		if err := os.WriteFile(p, make([]byte, int(s.Size%4096)), 0o600); err != nil {
			return nil, err
		}
		if err := os.Chown(p, int(s.SysUID%60000), int(s.SysGID%60000)); err != nil {
			return nil, err
		}
		os.Chmod(p, os.FileMode(s.Mode)&(os.ModePerm|os.ModeSetuid|os.ModeSetgid|os.ModeSticky))
		os.Chtimes(p, time.Unix(s.Mtime, 0), time.Unix(s.Mtime, 0))
		fi, err := os.Lstat(p)
		if err != nil {
			return nil, err
		}
		st := fi.Sys().(*syscall.Stat_t)
		s.SysUID, s.SysGID, s.Nlink = st.Uid, st.Gid, uint64(st.Nlink)
		s.Size, s.Mode, s.Mtime = fi.Size(), uint32(fi.Mode()), fi.ModTime().Unix()
		base.size, base.mode, base.mtime, base.sys = fi.Size(), fi.Mode(), fi.ModTime(), fi.Sys()
	default:
		return nil, fmt.Errorf("unknown sys shape %q", s.Sys)
	}
	switch s.Ext {
	case "none", "empty":
	case "pairs":
		base.ext = c17ExtPairs
	default:
		return nil, fmt.Errorf("unknown ext shape %q", s.Ext)
	}
	hasExt := s.Ext != "none"
	switch {
	case s.UidGid && hasExt:
		return &c17FIUE{base}, nil
	case s.UidGid:
		return &c17FIU{base}, nil
	case hasExt:
		return &c17FIE{base}, nil
	}
	return &base, nil
}

// c17Want is what the documented precedence says the attribute block of a FileInfo must be
// (request-interfaces.go: uid/gid from Sys() if it is a syscall.Stat_t; "alternatively, if the entry implements
// FileInfoUidGid, it will be used"; attrs.go: "If fi implements FileInfoUidGid, retrieve Uid, Gid from it instead").
func (s c17Shape) want() wire.St {
	w := wire.St{Flags: wire.ASize | wire.APerm | wire.ATime, Size: uint64(s.Size), Atime: uint32(s.Mtime), Mtime: uint32(s.Mtime)}
	w.Perm, _ = c17OsToPosix(os.FileMode(s.Mode))
	switch {
	case s.UidGid:
		w.Flags |= wire.AUIDGID
		w.UID, w.GID = s.MapUID, s.MapGID
	case s.Sys == "stat_t" || s.Sys == "real":
		w.Flags |= wire.AUIDGID
		w.UID, w.GID = s.SysUID, s.SysGID
	}
	if s.Ext == "pairs" {
		w.Flags |= wire.AExt
		for _, e := range c17ExtPairs {
			w.Ext = append(w.Ext, [2]string{e.ExtType, e.ExtData})
		}
	}
	return w
}

func c17StDiff(got, want wire.St) []string {
	var bad []string
	if got.Flags != want.Flags {
		bad = append(bad, "flags")
	}
	if got.Size != want.Size {
		bad = append(bad, "size")
	}
	if got.UID != want.UID || got.GID != want.GID {
		bad = append(bad, "owner")
	}
	if got.Perm != want.Perm {
		bad = append(bad, "mode")
	}
	if got.Mtime != want.Mtime || got.Atime != want.Atime {
		bad = append(bad, "mtime")
	}
	if fmt.Sprint(got.Ext) != fmt.Sprint(want.Ext) {
		bad = append(bad, "extended")
	}
	return bad
}

func c17StText(a wire.St) string {
	return fmt.Sprintf("flags=%#x size=%d uid=%d gid=%d mode=%#o atime=%d mtime=%d ext=%v", a.Flags, a.Size, a.UID, a.GID, a.Perm, a.Atime, a.Mtime, a.Ext)
}

// ---------- handlers ----------

type c17List []os.FileInfo

func (l c17List) ListAt(ls []os.FileInfo, off int64) (int, error) {
	if off >= int64(len(l)) {
		return 0, io.EOF
	}
	n := copy(ls, l[off:])
	if int(off)+n >= len(l) {
		return n, io.EOF
	}
	return n, nil
}

type c17H struct {
	ents  c17List
	index map[string]int
}

func newC17H(ents []os.FileInfo) *c17H {
	h := &c17H{ents: ents, index: map[string]int{}}
	for i, e := range ents {
		h.index[e.Name()] = i
	}
	return h
}

func (h *c17H) Filelist(r *sftp.Request) (sftp.ListerAt, error) {
	switch r.Method {
	case "List":
		return h.ents, nil
	case "Stat", "Lstat":
		if r.Filepath == "/" {
			return c17List{&c17FI{name: "/", mode: os.ModeDir | 0o755, mtime: time.Unix(1_500_000_000, 0)}}, nil
		}
		if i, ok := h.index[path.Base(r.Filepath)]; ok {
			return c17List{h.ents[i]}, nil
		}
		return nil, os.ErrNotExist
	}
	return nil, sftp.ErrSSHFxOpUnsupported
}

func (h *c17H) Fileread(r *sftp.Request) (io.ReaderAt, error) {
	if _, ok := h.index[path.Base(r.Filepath)]; ok {
		return strings.NewReader("x"), nil
	}
	return nil, os.ErrNotExist
}

// c17HL additionally implements NameLookupFileLister with names that cannot be confused with numbers.
type c17HL struct{ *c17H }

func (c17HL) LookupUserName(uid string) string  { return "u" + uid }
func (c17HL) LookupGroupName(gid string) string { return "g" + gid }

func c17StartRS(ents []os.FileInfo, lookup bool) *peers.Srv {
	h := newC17H(ents)
	var fl sftp.FileLister = h
	if lookup {
		fl = c17HL{h}
	}
	srv := peers.StartRS(sftp.Handlers{FileGet: h, FileList: fl})
	hHandshake(srv, nil)
	return srv
}

// c17ReadDir reads a whole directory with raw requests and returns (name, long name, attrs) per entry.
type c17Ent struct {
	Name, Long string
	St         wire.St
}

func c17ReadDir(srv *peers.Srv, dir string) ([]c17Ent, error) {
	p, err := hCall(srv, nil, wire.Req(wire.Opendir, 1, wire.B{}.Str(dir)))
	if err != nil {
		return nil, err
	}
	if p.Typ != wire.Handle {
		return nil, fmt.Errorf("OPENDIR answered with type %d", p.Typ)
	}
	hd := wire.D{B: p.Body[4:]}
	h := hd.Str()
	var out []c17Ent
	for id := uint32(2); ; id++ {
		p, err := hCall(srv, nil, wire.Req(wire.Readdir, id, wire.B{}.Str(h)))
		if err != nil {
			return out, err
		}
		if p.Typ == wire.Status {
			sd := wire.D{B: p.Body[4:]}
			if code := sd.U32(); code != 1 {
				return out, fmt.Errorf("READDIR status %d %q", code, sd.Str())
			}
			break
		}
		if p.Typ != wire.Name {
			return out, fmt.Errorf("READDIR answered with type %d", p.Typ)
		}
		nd := wire.D{B: p.Body[4:]}
		n := nd.U32()
		for i := uint32(0); i < n; i++ {
			e := c17Ent{Name: nd.Str(), Long: nd.Str()}
			e.St = nd.St()
			if nd.Err != nil {
				return out, fmt.Errorf("NAME packet does not decode: %v", nd.Err)
			}
			out = append(out, e)
		}
		if len(nd.B) != 0 {
			return out, fmt.Errorf("NAME packet has %d trailing bytes", len(nd.B))
		}
	}
	hCall(srv, nil, wire.Req(wire.Close, 0x7fffffff, wire.B{}.Str(h)))
	return out, nil
}

// c17ReqClass is the hang class of an attribute request (lib/budget.go): callers ask lib.Stop(c17ReqClass(typ)) before
// sending one, so that a request kind the server does not answer costs a bounded number of hang deadlines.
func c17ReqClass(typ byte) string { return fmt.Sprintf("c17/request-type-%d", typ) }

// c17Attrs sends one attribute request and decodes the ATTRS answer.
func c17Attrs(srv *peers.Srv, typ byte, id uint32, arg string) (wire.St, error) {
	p, err := hCall(srv, lib.NewCase(c17ReqClass(typ)), wire.Req(typ, id, wire.B{}.Str(arg)))
	if err != nil {
		return wire.St{}, err
	}
	if p.Typ != wire.Attrs {
		d := wire.D{B: p.Body[4:]}
		return wire.St{}, fmt.Errorf("answered with type %d (status %d %q)", p.Typ, d.U32(), d.Str())
	}
	d := wire.D{B: p.Body[4:]}
	st := d.St()
	if d.Err != nil || len(d.B) != 0 {
		return st, fmt.Errorf("ATTRS does not decode exactly (err %v, %d trailing bytes)", d.Err, len(d.B))
	}
	return st, nil
}

// c17Long splits a long name into its columns; ok is false when it does not have the `ls -l` form.
type c17LongName struct {
	Mode, Nlink, User, Group, Size, Month, Day, YearOrTime, Name string
}

func c17Long(long, name string) (c17LongName, bool) {
	if !strings.HasSuffix(long, " "+name) {
		return c17LongName{}, false
	}
	f := strings.Fields(strings.TrimSuffix(long, " "+name))
	if len(f) != 8 {
		return c17LongName{}, false
	}
	return c17LongName{f[0], f[1], f[2], f[3], f[4], f[5], f[6], f[7], name}, true
}

// c17LongVsAttrs compares the columns of a long name with the attribute block of the same entry.
// userOf/groupOf render an id the way the serving side's lookup does.  Columns for which the attribute block
// carries nothing (no UIDGID flag; link count) are not compared.
func c17LongVsAttrs(long string, e wire.St, name string, userOf, groupOf func(uint32) string) []string {
	ln, ok := c17Long(long, name)
	if !ok {
		return []string{"form"}
	}
	var bad []string
	if e.Flags&wire.APerm != 0 && ln.Mode != c17PosixLs(e.Perm) {
		bad = append(bad, "mode-"+c17Column(ln.Mode, c17PosixLs(e.Perm)))
	}
	if e.Flags&wire.AUIDGID != 0 && (ln.User != userOf(e.UID) || ln.Group != groupOf(e.GID)) {
		bad = append(bad, "owner")
	}
	if e.Flags&wire.ASize != 0 && ln.Size != strconv.FormatUint(e.Size, 10) {
		bad = append(bad, "size")
	}
	if _, err := strconv.ParseUint(ln.Nlink, 10, 64); err != nil {
		bad = append(bad, "nlink")
	}
	if e.Flags&wire.ATime != 0 {
		mt := time.Unix(int64(e.Mtime), 0)
		if ln.Month != mt.Format("Jan") || ln.Day != mt.Format("2") || (ln.YearOrTime != mt.Format("2006") && ln.YearOrTime != mt.Format("15:04")) {
			bad = append(bad, "date")
		}
	}
	return bad
}

func c17Num(id uint32) string { return strconv.FormatUint(uint64(id), 10) }

// ---------- replay input ----------

type c17In struct {
	Part     string       `json:"part"`
	WireMode *uint32      `json:"wire_mode,omitempty"`
	OsMode   *uint32      `json:"os_mode,omitempty"`
	Kind     string       `json:"kind,omitempty"`
	Perm     *uint32      `json:"perm,omitempty"`
	Request  string       `json:"request,omitempty"`
	Shape    *c17Shape    `json:"shape,omitempty"`
	BV       *c17BV       `json:"bv,omitempty"`   // part "bv" (c17d.go)
	Pair     *c17Pair     `json:"pair,omitempty"` // part "pair" (c17e.go)
	IDs      *c17IDScript `json:"ids,omitempty"`  // part "ids" (c17f.go)
}

func u32p(v uint32) *uint32 { return &v }

// ---------- lsmode ----------

func c17LsModeOne(r *lib.Result, m uint32) (string, string) {
	got := sftp.VerifFxModeString(m)
	want := c17PosixLs(m & 0xFFFF)
	if got != want {
		r.Fail(lib.Failure{Kind: "oracle", Key: "lsmode/string/" + c17Column(got, want),
			What:  "FileMode.String (the permission column of every long name) is not the POSIX ls rendering of the mode word",
			Input: c17In{Part: "lsmode", WireMode: u32p(m)}, Expected: want, Actual: got})
	}
	return got, want
}

func checkC17LsMode(c *lib.Ctx, only *uint32) {
	r := c.R
	if only != nil {
		got, want := c17LsModeOne(r, *only)
		r.Case(fmt.Sprintf("lsmode %d", *only), true)
		r.Note("replay lsmode %#o: FileMode.String=%q POSIX=%q", *only, got, want)
		return
	}
	var lines, impl []string
	for m := uint32(0); m < 65536; m++ {
		got, _ := c17LsModeOne(r, m)
		r.Case(fmt.Sprintf("lsmode %d", m), m&0xF000 != 0x8000 || m&0o7000 != 0)
		r.Hist(fmt.Sprintf("lsmode-type-%x", m>>12))
		lines = append(lines, fmt.Sprintf("c17.lsmode %d", m))
		impl = append(impl, got)
		if m == 0o041770 || m == 0o104755 || m == 0o022060 {
			r.Sample(map[string]any{"op": "FileMode.String", "wire": fmt.Sprintf("%#o", m), "text": got})
		}
	}
	// bits above the 16 that POSIX defines must not influence the column
	n := 2000
	if c.Tier == "thorough" {
		n = 200000
	}
	for i := 0; i < n; i++ {
		m := c.Rand.Uint32()
		c17LsModeOne(r, m)
		r.Case(fmt.Sprintf("lsmode %d", m), true)
		r.Hist("lsmode-high-bits")
	}
	// model: the interpreter of the regenerated statement table of FileMode.String (driver op c17.lsmode)
	if probe, err := c.Model([]string{"c17.lsmode 0"}); err == nil && len(probe) == 1 && probe[0] != "bad-op" {
		c.Compare("c17", lines, impl)
	} else {
		r.Skip("driver op c17.lsmode is not in this sftpmodel binary: FileMode.String is compared with the harness's POSIX rendering only")
	}
}

// ---------- runls (hook) and rs-list (real request server) over every os mode ----------

func c17ModeEntry(ti, low int) *c17FI {
	return &c17FI{name: fmt.Sprintf("%s-%04o", c17OsTypes[ti].name, low), size: int64(low), mode: c17OsMode(c17OsTypes[ti].bits, low),
		mtime: time.Unix(1_400_000_000+int64(ti*4096+low)*7919, 0)}
}

func c17CheckModeEntry(r *lib.Result, part string, fm os.FileMode, long string, st wire.St, name string) {
	in := c17In{Part: part, OsMode: u32p(uint32(fm))}
	if w, ok := c17OsToPosix(fm); ok && st.Perm != w {
		r.Fail(lib.Failure{Kind: "oracle", Key: part + "/attrs-mode/" + fm.Type().String(), What: "the mode word in the attributes of a listed entry is not the POSIX form of its os.FileMode",
			Input: in, Expected: fmt.Sprintf("%#o", w), Actual: fmt.Sprintf("%#o", st.Perm)})
	}
	for _, b := range c17LongVsAttrs(long, st, name, c17Num, c17Num) {
		r.Fail(lib.Failure{Kind: "oracle", Key: part + "/longname/" + b, What: "long name does not agree with the structured attributes of the same entry (" + b + ")",
			Input: in, Expected: c17PosixLs(st.Perm) + " … " + c17StText(st), Actual: long})
	}
}

func checkC17RunLs(c *lib.Ctx, only *uint32) {
	r := c.R
	one := func(fi *c17FI) {
		long := sftp.VerifRunLs(fi)
		flags, fs := sftp.VerifFileStatFromInfo(fi)
		st := wire.St{Flags: flags, Size: fs.Size, UID: fs.UID, GID: fs.GID, Perm: fs.Mode, Atime: fs.Atime, Mtime: fs.Mtime}
		c17CheckModeEntry(r, "runls", fi.mode, long, st, fi.name)
	}
	if only != nil {
		fi := &c17FI{name: "replayed", size: 5, mode: os.FileMode(*only), mtime: time.Unix(1_400_000_000, 0)}
		one(fi)
		r.Case("runls replay", true)
		r.Note("replay runls %v: %q", fi.mode, sftp.VerifRunLs(fi))
		return
	}
	for ti := range c17OsTypes {
		for low := 0; low < 4096; low++ {
			fi := c17ModeEntry(ti, low)
			one(fi)
			r.Case("runls "+fi.name, ti > 0 || low&0o7000 != 0)
			r.Hist("runls-" + c17OsTypes[ti].name)
		}
	}
}

func checkC17RSList(c *lib.Ctx, only *uint32) {
	r := c.R
	var ents []os.FileInfo
	modes := map[string]os.FileMode{}
	if only != nil {
		fi := &c17FI{name: "replayed", size: 5, mode: os.FileMode(*only), mtime: time.Unix(1_400_000_000, 0)}
		ents = append(ents, fi)
		modes[fi.name] = fi.mode
	} else {
		for ti := range c17OsTypes {
			for low := 0; low < 4096; low++ {
				fi := c17ModeEntry(ti, low)
				ents = append(ents, fi)
				modes[fi.name] = fi.mode
			}
		}
	}
	srv := c17StartRS(ents, false)
	got, err := c17ReadDir(srv, "/")
	srv.CloseInput()
	hCleanupSrv(srv, "c17/server-exit", 5*time.Second)
	if err != nil || len(got) != len(ents) {
		r.Fail(lib.Failure{Kind: "oracle", Key: "rs-list/readdir", What: "raw READDIR of the scripted directory failed or lost entries", Actual: fmt.Sprint(len(got), " of ", len(ents), " ", err)})
	}
	for _, e := range got {
		fm, ok := modes[e.Name]
		if !ok {
			r.Fail(lib.Failure{Kind: "oracle", Key: "rs-list/unknown-entry", What: "READDIR returned a name that is not in the directory", Actual: e.Name})
			continue
		}
		c17CheckModeEntry(r, "rs-list", fm, e.Long, e.St, e.Name)
		r.Case("rs-list "+e.Name, fm.Type() != 0 || fm&(os.ModeSetuid|os.ModeSetgid|os.ModeSticky) != 0)
		r.Hist("rs-list-" + strings.SplitN(e.Name, "-", 2)[0])
		if only != nil {
			r.Note("replay rs-list %v: long name %q attrs %s", fm, e.Long, c17StText(e.St))
		}
	}
}

// ---------- osdir: real entries of every kind and every mode ----------

var c17Kinds = []struct {
	name string
	typ  uint32
}{
	{"regular", syscall.S_IFREG}, {"dir", syscall.S_IFDIR}, {"fifo", syscall.S_IFIFO}, {"socket", syscall.S_IFSOCK},
	{"chardev", syscall.S_IFCHR}, {"blockdev", syscall.S_IFBLK}, {"symlink", syscall.S_IFLNK},
}

var c17Owners = [][2]int{{0, 0}, {12, 34}, {65534, 65533}, {0, 34}, {4242, 0}}

// c17MakeReal creates one real entry of the given kind with the given 12 permission/special bits; owner, size,
// link count and age are functions of perm so that the columns vary.
func c17MakeReal(dir, linkDir, kind string, typ uint32, perm uint32) (string, error) {
	name := fmt.Sprintf("%s-%04o", kind, perm)
	p := filepath.Join(dir, name)
	var err error
	switch kind {
	case "regular":
		err = os.WriteFile(p, make([]byte, int(perm%11)), 0o600)
		if err == nil && perm%5 == 0 {
			err = os.Link(p, filepath.Join(linkDir, name))
		}
	case "dir":
		err = os.Mkdir(p, 0o700)
		if err == nil && perm%7 == 0 {
			err = os.Mkdir(filepath.Join(p, "sub"), 0o700)
		}
	case "symlink":
		return name, os.Symlink("regular-0644", p) // the mode of a symbolic link cannot be chosen
	case "chardev":
		err = syscall.Mknod(p, typ|0o600, 1<<8|3)
	case "blockdev":
		err = syscall.Mknod(p, typ|0o600, 7<<8|0)
	default:
		err = syscall.Mknod(p, typ|0o600, 0)
	}
	if err != nil {
		return name, err
	}
	o := c17Owners[int(perm)%len(c17Owners)]
	if err = os.Lchown(p, o[0], o[1]); err != nil { // before chmod: chown clears setuid/setgid
		return name, err
	}
	if err = syscall.Chmod(p, perm); err != nil {
		return name, err
	}
	if perm%4 != 3 {
		old := time.Unix(1_100_000_000+int64(perm)*86413, 0) // years ago: the year form of the date column
		if perm%4 == 1 {
			old = time.Now().Add(-time.Duration(perm) * time.Minute) // recent: the hh:mm form
		}
		err = os.Chtimes(p, old, old)
	}
	return name, err
}

func c17UserName(id uint32) string {
	if u, err := user.LookupId(c17Num(id)); err == nil {
		return u.Username
	}
	return c17Num(id)
}
func c17GroupName(id uint32) string {
	if g, err := user.LookupGroupId(c17Num(id)); err == nil {
		return g.Name
	}
	return c17Num(id)
}

func checkC17OSDir(c *lib.Ctx, onlyKind string, onlyPerm *uint32) {
	r := c.R
	root, err := lib.MkScratch("vh-c17os-")
	if err != nil {
		r.Fail(lib.Failure{Kind: "tie", Key: "tmpdir", What: err.Error()})
		return
	}
	defer func() {
		// directories without search permission for nobody but root are still removable by root
		os.RemoveAll(root)
	}()
	linkDir := filepath.Join(root, "links")
	os.Mkdir(linkDir, 0o755)
	users, groups := map[uint32]string{}, map[uint32]string{}
	userOf := func(id uint32) string {
		if _, ok := users[id]; !ok {
			users[id] = c17UserName(id)
		}
		return users[id]
	}
	groupOf := func(id uint32) string {
		if _, ok := groups[id]; !ok {
			groups[id] = c17GroupName(id)
		}
		return groups[id]
	}
	srv, err := peers.StartOS()
	if err != nil {
		r.Fail(lib.Failure{Kind: "tie", Key: "os-start", What: err.Error()})
		return
	}
	hHandshake(srv, nil)
	defer func() {
		srv.CloseInput()
		hCleanupSrv(srv, "c17/server-exit", 5*time.Second)
	}()
	id := uint32(100)
	for _, k := range c17Kinds {
		if onlyKind != "" && k.name != onlyKind {
			continue
		}
		d := filepath.Join(root, k.name)
		os.Mkdir(d, 0o755)
		perms := map[string]uint32{}
		skipped := false
		for perm := uint32(0); perm < 4096; perm++ {
			if onlyPerm != nil && perm != *onlyPerm {
				continue
			}
			if k.name == "symlink" && perm != 0o777 {
				continue
			}
			if k.name == "symlink" {
				os.WriteFile(filepath.Join(d, "regular-0644"), []byte("t"), 0o644)
			}
			name, err := c17MakeReal(d, linkDir, k.name, k.typ, perm)
			if err != nil {
				r.Skip("file kind %s (mode %04o) cannot be created on this host: %v", k.name, perm, err)
				skipped = true
				break
			}
			perms[name] = perm
		}
		if skipped {
			continue
		}
		ents, err := c17ReadDir(srv, d)
		if err != nil {
			r.Fail(lib.Failure{Kind: "oracle", Key: "osdir/readdir/" + k.name, What: "raw READDIR of a real directory failed: " + err.Error(), Input: c17In{Part: "osdir", Kind: k.name}})
			continue
		}
		seen := 0
		for _, e := range ents {
			perm, ok := perms[e.Name]
			if !ok {
				continue // the symlink's target
			}
			seen++
			in := c17In{Part: "osdir", Kind: k.name, Perm: u32p(perm)}
			var lst syscall.Stat_t
			if err := syscall.Lstat(filepath.Join(d, e.Name), &lst); err != nil {
				r.Fail(lib.Failure{Kind: "tie", Key: "osdir/lstat", What: err.Error(), Input: in})
				continue
			}
			r.Case("osdir "+e.Name, true)
			r.Hist("osdir-" + k.name)
			want := wire.St{Flags: wire.ASize | wire.AUIDGID | wire.APerm | wire.ATime, Size: uint64(lst.Size), UID: lst.Uid, GID: lst.Gid,
				Perm: lst.Mode & 0xFFFF, Atime: uint32(lst.Mtim.Sec), Mtime: uint32(lst.Mtim.Sec)}
			if k.name != "symlink" && want.Perm != k.typ|perm {
				r.Fail(lib.Failure{Kind: "tie", Key: "osdir/host-mode", What: "the host did not keep the mode the harness set", Input: in, Expected: fmt.Sprintf("%#o", k.typ|perm), Actual: fmt.Sprintf("%#o", want.Perm)})
			}
			for _, b := range c17StDiff(e.St, want) {
				r.Fail(lib.Failure{Kind: "oracle", Key: "osdir/attrs/" + b + "/" + k.name, What: "attributes of a listed real entry differ from what the file system reports (" + b + ")",
					Input: in, Expected: c17StText(want), Actual: c17StText(e.St)})
			}
			bad := c17LongVsAttrs(e.Long, e.St, e.Name, userOf, groupOf)
			if ln, ok := c17Long(e.Long, e.Name); ok && ln.Nlink != strconv.FormatUint(uint64(lst.Nlink), 10) {
				bad = append(bad, "nlink")
			}
			for _, b := range bad {
				r.Fail(lib.Failure{Kind: "oracle", Key: "osdir/longname/" + b, What: "long name of a listed real entry does not agree with the structured attributes of the same entry (" + b + ")",
					Input: in, Expected: fmt.Sprintf("%s %d %s %s %d", c17PosixLs(e.St.Perm), lst.Nlink, userOf(e.St.UID), groupOf(e.St.GID), e.St.Size), Actual: e.Long})
			}
			// LSTAT of the same entry (thorough: every entry; quick: a seed-dependent sample and the replayed entry)
			if (onlyPerm != nil || c.Tier == "thorough" || perm%64 == uint32(c.Seed)%64 || perm&0o7000 != 0 && perm&0o111 != 0 && perm%8 == uint32(c.Seed)%8) && !c.Stop(c17ReqClass(wire.Lstat)) {
				id++
				st, err := c17Attrs(srv, wire.Lstat, id, filepath.Join(d, e.Name))
				r.Case("osdir lstat "+e.Name, true)
				if err != nil {
					r.Fail(lib.Failure{Kind: "oracle", Key: "osdir/lstat-failed/" + k.name, What: "LSTAT of a real entry failed: " + err.Error(), Input: in})
				} else {
					for _, b := range c17StDiff(st, want) {
						r.Fail(lib.Failure{Kind: "oracle", Key: "osdir/lstat-attrs/" + b + "/" + k.name, What: "LSTAT attributes of a real entry differ from what the file system reports (" + b + ")",
							Input: in, Expected: c17StText(want), Actual: c17StText(st)})
					}
				}
			}
			if onlyPerm != nil {
				r.Note("replay osdir %s %04o: long name %q attrs %s", k.name, perm, e.Long, c17StText(e.St))
			}
			if perm == 0o1770 && k.name == "dir" {
				r.Sample(map[string]any{"part": "osdir", "name": e.Name, "longname": e.Long, "attrs": c17StText(e.St)})
			}
		}
		if seen != len(perms) {
			r.Fail(lib.Failure{Kind: "oracle", Key: "osdir/lost-entries/" + k.name, What: "READDIR of a real directory lost entries", Input: c17In{Part: "osdir", Kind: k.name}, Expected: len(perms), Actual: seen})
		}
		// make every directory searchable again so that the clean-up works whatever the host's rules are
		if k.name == "dir" {
			for name := range perms {
				os.Chmod(filepath.Join(d, name), 0o700)
			}
		}
	}
}

// ---------- rs-shape: every shape of os.FileInfo a handler may return ----------

var c17SysKinds = []string{"nil", "stat_t", "filestat", "other", "real"}
var c17ExtKinds = []string{"none", "empty", "pairs"}

func c17GenShapes(c *lib.Ctx) []c17Shape {
	modes := []os.FileMode{0o644, os.ModeDir | 0o755, os.ModeDir | os.ModeSticky | 0o770, os.ModeSetuid | 0o755, os.ModeSymlink | 0o777,
		os.ModeNamedPipe | 0o600, os.ModeSetgid | 0o070, os.ModeSticky | 0o707, os.ModeDevice | os.ModeCharDevice | 0o620, os.ModeSocket | 0o755}
	sizes := []int64{0, 1, 5, 4095, 1 << 31, 1<<32 + 5, 1<<53 + 1}
	ids := []uint32{0, 1, 12, 1000, 4242, 65534, 1<<31 + 3, 0xFFFFFFFF}
	now := time.Now().Unix()
	times := []int64{0, 1, 1_100_000_000, 1_300_000_001, now - 3600, now - 200*86400, 1<<31 - 1, 1<<32 - 1}
	variants := 3
	if c.Tier == "thorough" {
		variants = 40
	}
	var out []c17Shape
	for _, sys := range c17SysKinds {
		for _, ug := range []bool{false, true} {
			for _, ext := range c17ExtKinds {
				for _, lookup := range []bool{false, true} {
					for v := 0; v < variants; v++ {
						s := c17Shape{Sys: sys, UidGid: ug, Ext: ext, Lookup: lookup,
							Mode:   uint32(modes[c.Rand.Intn(len(modes))]),
							Size:   sizes[c.Rand.Intn(len(sizes))],
							Mtime:  times[c.Rand.Intn(len(times))],
							SysUID: ids[c.Rand.Intn(len(ids))], SysGID: ids[c.Rand.Intn(len(ids))],
							MapUID: ids[c.Rand.Intn(len(ids))], MapGID: ids[c.Rand.Intn(len(ids))],
							Nlink: uint64(1 + c.Rand.Intn(5))}
						switch v {
						case 0: // mapped owner different from the owner in Sys(), both non-zero
							s.SysUID, s.SysGID, s.MapUID, s.MapGID = 1001, 1002, 4242, 4343
						case 1: // mapped owner equal to the owner in Sys()
							s.MapUID, s.MapGID = s.SysUID, s.SysGID
						}
						if c.Rand.Intn(4) == 0 {
							s.Mode = uint32(c17OsMode(c17OsTypes[c.Rand.Intn(7)].bits, c.Rand.Intn(4096)))
						}
						if sys == "real" {
							s.Mode &= uint32(os.ModePerm | os.ModeSetuid | os.ModeSetgid | os.ModeSticky)
							if s.Mtime > 1<<31 {
								s.Mtime = 1_300_000_001
							}
						}
						out = append(out, s)
					}
				}
			}
		}
	}
	return out
}

func checkC17RSShapes(c *lib.Ctx, only *c17Shape) {
	r := c.R
	realDir, err := lib.MkScratch("vh-c17rs-")
	if err != nil {
		r.Fail(lib.Failure{Kind: "tie", Key: "tmpdir", What: err.Error()})
		return
	}
	defer os.RemoveAll(realDir)
	var shapes []c17Shape
	if only != nil {
		shapes = []c17Shape{*only}
	} else {
		shapes = c17GenShapes(c)
	}
	var mlines, mimpl []string
	defer func() {
		// model: owner sources of fileStatFromInfo / runLs as regenerated from the source (driver op c17.owner)
		if len(mlines) == 0 {
			return
		}
		if probe, err := c.Model([]string{"c17.owner nil 0 0 0 0 0"}); err == nil && len(probe) == 1 && probe[0] != "bad-op" {
			c.Compare("c17", mlines, mimpl)
		} else {
			r.Skip("driver op c17.owner is not in this sftpmodel binary: owners are compared with the documented precedence only")
		}
	}()
	for _, lookup := range []bool{false, true} {
		var ents []os.FileInfo
		byName := map[string]*c17Shape{}
		var names []string
		for i := range shapes {
			s := &shapes[i]
			if s.Lookup != lookup {
				continue
			}
			name := fmt.Sprintf("e%04d", i)
			fi, err := s.build(name, realDir)
			if err != nil {
				r.Skip("FileInfo shape %s cannot be built on this host: %v", s.key(), err)
				continue
			}
			ents = append(ents, fi)
			byName[name] = s
			names = append(names, name)
		}
		if len(ents) == 0 {
			continue
		}
		userOf, groupOf := c17Num, c17Num
		if lookup {
			userOf = func(id uint32) string { return "u" + c17Num(id) }
			groupOf = func(id uint32) string { return "g" + c17Num(id) }
		}
		srv := c17StartRS(ents, lookup)
		judge := func(req string, s *c17Shape, got wire.St) {
			want := s.want()
			r.Case(fmt.Sprintf("rs-shape %s %+v", req, *s), true)
			r.Hist("rs-shape-" + req + "-" + s.key())
			for _, b := range c17StDiff(got, want) {
				r.Fail(lib.Failure{Kind: "oracle", Key: "rs-attrs/" + req + "/" + b + "/" + s.key(),
					What:  "attributes a request server reports for a handler's os.FileInfo are not what the FileInfo reports through the documented precedence (FileInfoUidGid over Sys().(*syscall.Stat_t); " + b + ")",
					Input: c17In{Part: "rs-shape", Request: req, Shape: s}, Expected: c17StText(want), Actual: c17StText(got)})
			}
		}
		id := uint32(10)
		for _, name := range names {
			s := byName[name]
			for _, rq := range []struct {
				name string
				typ  byte
			}{{"STAT", wire.Stat}, {"LSTAT", wire.Lstat}} {
				if c.Stop(c17ReqClass(rq.typ)) {
					continue
				}
				id++
				st, err := c17Attrs(srv, rq.typ, id, "/"+name)
				if err != nil {
					r.Fail(lib.Failure{Kind: "oracle", Key: "rs-attrs/" + rq.name + "/failed", What: rq.name + " failed: " + err.Error(), Input: c17In{Part: "rs-shape", Request: rq.name, Shape: s}})
					continue
				}
				judge(rq.name, s, st)
			}
			if c.Stop(c17ReqClass(wire.Fstat)) {
				continue
			}
			id++
			op, err := hCall(srv, nil, wire.Req(wire.Open, id, wire.B{}.Str("/"+name).U32(wire.FRead).U32(0)))
			if err != nil || op.Typ != wire.Handle {
				r.Fail(lib.Failure{Kind: "tie", Key: "rs-shape/open", What: fmt.Sprint("OPEN for FSTAT failed: ", err, " type ", op.Typ)})
				continue
			}
			hd := wire.D{B: op.Body[4:]}
			h := hd.Str()
			id++
			st, err := c17Attrs(srv, wire.Fstat, id, h)
			if err != nil {
				r.Fail(lib.Failure{Kind: "oracle", Key: "rs-attrs/FSTAT/failed", What: "FSTAT failed: " + err.Error(), Input: c17In{Part: "rs-shape", Request: "FSTAT", Shape: s}})
			} else {
				judge("FSTAT", s, st)
			}
			id++
			hCall(srv, nil, wire.Req(wire.Close, id, wire.B{}.Str(h)))
		}
		got, err := c17ReadDir(srv, "/")
		srv.CloseInput()
		hCleanupSrv(srv, "c17/server-exit", 5*time.Second)
		if err != nil || len(got) != len(ents) {
			r.Fail(lib.Failure{Kind: "oracle", Key: "rs-shape/readdir", What: "raw READDIR failed or lost entries", Actual: fmt.Sprint(len(got), " of ", len(ents), " ", err)})
		}
		for _, e := range got {
			s := byName[e.Name]
			if s == nil {
				continue
			}
			judge("READDIR", s, e.St)
			if e.St.Flags&wire.AUIDGID == 0 {
				r.Hist("rs-longname-owner-not-in-attrs")
			}
			for _, b := range c17LongVsAttrs(e.Long, e.St, e.Name, userOf, groupOf) {
				key := "rs-longname/" + b
				if b == "owner" {
					key += "/" + s.key()
				}
				r.Fail(lib.Failure{Kind: "oracle", Key: key,
					What:  "long name of a request-server listing entry does not agree with the structured attributes of the same entry (" + b + ")",
					Input: c17In{Part: "rs-shape", Request: "READDIR", Shape: s}, Expected: fmt.Sprintf("%s … %s %s %d", c17PosixLs(e.St.Perm), userOf(e.St.UID), groupOf(e.St.GID), e.St.Size) + " / " + c17StText(e.St), Actual: e.Long})
			}
			if ln, ok := c17Long(e.Long, e.Name); ok {
				ty := map[string]string{"nil": "nil", "stat_t": "*syscall.Stat_t", "real": "*syscall.Stat_t", "filestat": "*FileStat", "other": "*main.c17Other"}[s.Sys]
				ug := 0
				if s.UidGid {
					ug = 1
				}
				mlines = append(mlines, fmt.Sprintf("c17.owner %s %d %d %d %d %d", ty, s.SysUID, s.SysGID, ug, s.MapUID, s.MapGID))
				a := "none"
				if e.St.Flags&wire.AUIDGID != 0 {
					a = fmt.Sprintf("%d:%d", e.St.UID, e.St.GID)
				}
				lu, lg := ln.User, ln.Group
				if lookup {
					lu, lg = strings.TrimPrefix(lu, "u"), strings.TrimPrefix(lg, "g")
				}
				mimpl = append(mimpl, fmt.Sprintf("attrs=%s ls=%s:%s", a, lu, lg))
			}
			if only != nil {
				r.Note("replay rs-shape %s: READDIR long name %q attrs %s", s.key(), e.Long, c17StText(e.St))
			}
			if len(r.Samples) < 11 && s.UidGid && s.Sys == "stat_t" && s.SysUID != s.MapUID {
				r.Sample(map[string]any{"part": "rs-shape", "shape": *s, "longname": e.Long, "attrs": c17StText(e.St)})
			}
		}
	}
}

// ---------- entry points ----------

func checkC17Listings(c *lib.Ctx) {
	checkC17LsMode(c, nil)
	checkC17RunLs(c, nil)
	checkC17RSList(c, nil)
	checkC17OSDir(c, "", nil)
	checkC17RSShapes(c, nil)
	checkC17IDs(c, nil)
	defer func() { c.R.Rule += c17IDRule }()
	c.R.Rule += "; listings: FileMode.String over all 65536 wire mode words (+ random 32-bit words) against the POSIX ls rules; runLs (hook) and raw READDIR of a real request server over 8 os types x 4096 permission/special combinations; real directories with every creatable kind x 4096 modes (owners, sizes, link counts, ages varied) through the os-backed server: attrs vs lstat(2), long-name columns vs the attrs of the same entry; request-server FileInfo shapes (Sys nil/Stat_t/FileStat/other/real x FileInfoUidGid x FileInfoExtendedData x name lookup x value variants) through STAT/LSTAT/FSTAT/READDIR against the documented precedence"
}

// c17Replay re-runs exactly one recorded case of the listing parts; false if the input is not one of them.
func c17Replay(c *lib.Ctx) bool {
	var in c17In
	if err := lib.ReadReplay(c.Replay, &in); err != nil || in.Part == "" {
		return false
	}
	switch in.Part {
	case "lsmode":
		checkC17LsMode(c, in.WireMode)
	case "runls":
		checkC17RunLs(c, in.OsMode)
	case "rs-list":
		checkC17RSList(c, in.OsMode)
	case "osdir":
		checkC17OSDir(c, in.Kind, in.Perm)
	case "rs-shape":
		checkC17RSShapes(c, in.Shape)
	case "bv":
		if !c17BVReplay(c, in.BV) {
			return false
		}
	case "pair":
		if in.Pair == nil {
			return false
		}
		checkC17Pairs(c, in.Pair)
	case "ids":
		if in.IDs == nil {
			return false
		}
		checkC17IDs(c, in.IDs)
	default:
		return false
	}
	c.R.Rule = "replay of one recorded case of part " + in.Part
	return true
}
