package main

// C10, error algebra: the PRODUCT wrapper x inner error of everything a handler may return, as one-token terms
// (a superset of the syntax of Sftp/Driver/C10.lean), the Go error value of a term, and the hand-written reading
// of the property text that says which KIND the client must see for it.
//
//   atoms     NIL nil · EOF io.EOF · UEOF io.ErrUnexpectedEOF · NX os.ErrNotExist · PERM os.ErrPermission ·
//             EX os.ErrExist · CL os.ErrClosed · E<n> syscall.Errno(n) · F<n> sftp.ErrSSHFx… (code n) ·
//             T<n> &sftp.StatusError{Code: n} · X errors.New(…) · C a custom error type ·
//             CI a custom type whose Is() claims os.ErrNotExist · CE a custom type whose Is() claims io.EOF
//   wrappers  P(t) *os.PathError · L(t) *os.LinkError · S(t) *os.SyscallError        ("os's own error wrappers")
//             W(t) fmt.Errorf("%w") · U(t) a custom type with Unwrap() · J(t,…) errors.Join(…)
//
// THE RULE (c10Want; [T] = the words of the property, [D] = documented reading where the words are silent):
//
//   inner \ wrapper              bare            one of P/L/S           W, U, J, two wrappers
//   nil                          ok [T]          –                      –
//   io.EOF                       eof [T]         eof [T]                eof [D]  (errors.Is follows the chain)
//   os.ErrNotExist, ENOENT       notexist [T]    notexist [T]           failure+text [T] (not os's own wrapper)
//   os.ErrPermission, EACCES,    permission [T]  permission [T]         failure+text [T]
//     EPERM
//   ErrSSHFx<n>                  code n [T]      code n [D]             code n [D] (errors.As follows the chain)
//   *StatusError{Code: n}        code n, or failure+text (the unchanged tree; see the Note) – at any depth
//   anything else: other errno   failure+text [T]  failure+text [T]     failure+text [T]
//     values, os.ErrExist, os.ErrClosed, io.ErrUnexpectedEOF, errors.New, custom types
//
// "code n" reads 0 as ok, 1 as eof, 2 as notexist, 3 as permission, 4 as failure, others as that code.
// Where several rows apply (only errors.Join of different families could do that; not generated) the order is
// not-exist, permission, end-of-file, status code.

import (
	"errors"
	"fmt"
	"io"
	"io/fs"
	"os"
	"strconv"
	"strings"
	"sync"
	"syscall"

	"github.com/pkg/sftp"
)

const c10RuleTable = "ERROR RULE: the client must see — nil: ok; io.EOF bare or inside ONE *os.PathError/*os.LinkError/*os.SyscallError: eof [text]; os.ErrNotExist/ENOENT resp. os.ErrPermission/EACCES/EPERM bare or inside ONE of P/L/S: notexist resp. permission [text], behind any other wrapper (%w, custom Unwrap, errors.Join, two wrappers): failure with the text [text: not os's own wrapper]; ErrSSHFx<n> bare: code n [text]; io.EOF or ErrSSHFx<n> anywhere on an Unwrap chain (P/L/S, %w, custom, Join, nested): eof resp. code n [documented reading: kind by errors.Is/errors.As]; *StatusError{n}: code n or failure with the text [documented reading, the unchanged tree gives the latter]; every other error (other errno values, os.ErrExist, os.ErrClosed, io.ErrUnexpectedEOF, errors.New, custom types even if their Is() claims not-exist) at any depth: failure carrying err.Error()"

type c10T struct {
	Op  string // NIL EOF UEOF NX PERM EX CL E F T X C CI CE | P L S W U J
	N   int
	Sub []*c10T
}

func (t *c10T) String() string {
	switch t.Op {
	case "E", "F", "T":
		return t.Op + strconv.Itoa(t.N)
	case "P", "L", "S", "W", "U", "J":
		var s []string
		for _, x := range t.Sub {
			s = append(s, x.String())
		}
		return t.Op + "(" + strings.Join(s, ",") + ")"
	}
	return t.Op
}

// c10Parse: recursive descent over the one-token syntax.
func c10Parse(s string) (*c10T, error) {
	t, rest, err := c10ParseAt(s)
	if err != nil {
		return nil, err
	}
	if rest != "" {
		return nil, fmt.Errorf("trailing %q in error term %q", rest, s)
	}
	return t, nil
}

func c10ParseAt(s string) (*c10T, string, error) {
	for _, w := range []string{"P(", "L(", "S(", "W(", "U(", "J("} {
		if strings.HasPrefix(s, w) {
			t := &c10T{Op: w[:1]}
			rest := s[2:]
			for {
				sub, r, err := c10ParseAt(rest)
				if err != nil {
					return nil, "", err
				}
				t.Sub = append(t.Sub, sub)
				rest = r
				if strings.HasPrefix(rest, ",") && t.Op == "J" {
					rest = rest[1:]
					continue
				}
				break
			}
			if !strings.HasPrefix(rest, ")") {
				return nil, "", fmt.Errorf("missing ) in error term %q", s)
			}
			return t, rest[1:], nil
		}
	}
	for _, a := range []string{"NIL", "UEOF", "EOF", "NX", "PERM", "EX", "CL", "CI", "CE", "C", "X"} {
		if strings.HasPrefix(s, a) {
			return &c10T{Op: a}, s[len(a):], nil
		}
	}
	if len(s) > 1 && strings.ContainsRune("EFT", rune(s[0])) {
		i := 1
		for i < len(s) && s[i] >= '0' && s[i] <= '9' {
			i++
		}
		if i > 1 {
			n, _ := strconv.Atoi(s[1:i])
			return &c10T{Op: s[:1], N: n}, s[i:], nil
		}
	}
	return nil, "", fmt.Errorf("bad error term %q", s)
}

// ---------- custom error types ----------

type c10Custom struct{ text string }

func (e *c10Custom) Error() string { return e.text }

type c10CustomIs struct {
	text   string
	target error
}

func (e *c10CustomIs) Error() string        { return e.text }
func (e *c10CustomIs) Is(target error) bool { return target == e.target }

type c10Unwrapper struct{ inner error }

func (e *c10Unwrapper) Error() string { return "custom wrapper: " + e.inner.Error() }
func (e *c10Unwrapper) Unwrap() error { return e.inner }

// c10Build: the Go error value of a term.
func c10Build(t *c10T) error {
	sub := func() error {
		if e := c10Build(t.Sub[0]); e != nil {
			return e
		}
		// a wrapper of package os around nil cannot even print itself; %w of nil is an ordinary error
		return nil
	}
	switch t.Op {
	case "NIL":
		return nil
	case "EOF":
		return io.EOF
	case "UEOF":
		return io.ErrUnexpectedEOF
	case "NX":
		return os.ErrNotExist
	case "PERM":
		return os.ErrPermission
	case "EX":
		return os.ErrExist
	case "CL":
		return os.ErrClosed
	case "E":
		return syscall.Errno(t.N)
	case "F":
		return sftpFxErr(uint32(t.N))
	case "T":
		return &sftp.StatusError{Code: uint32(t.N)}
	case "X":
		return errors.New("some other error")
	case "C":
		return &c10Custom{"custom backend error"}
	case "CI":
		return &c10CustomIs{"custom error claiming not-exist", fs.ErrNotExist}
	case "CE":
		return &c10CustomIs{"custom error claiming end of file", io.EOF}
	case "P":
		return &os.PathError{Op: "op", Path: "/p", Err: sub()}
	case "L":
		return &os.LinkError{Op: "link", Old: "/a", New: "/b", Err: sub()}
	case "S":
		return &os.SyscallError{Syscall: "sys", Err: sub()}
	case "W":
		return fmt.Errorf("wrapped: %w", sub())
	case "U":
		return &c10Unwrapper{sub()}
	case "J":
		var es []error
		for _, s := range t.Sub {
			es = append(es, c10Build(s))
		}
		return errors.Join(es...)
	}
	panic("c10: unknown error term operator " + t.Op)
}

func sftpFxErr(code uint32) error {
	switch code {
	case 0:
		return sftp.ErrSSHFxOk
	case 1:
		return sftp.ErrSSHFxEOF
	case 2:
		return sftp.ErrSSHFxNoSuchFile
	case 3:
		return sftp.ErrSSHFxPermissionDenied
	case 4:
		return sftp.ErrSSHFxFailure
	case 5:
		return sftp.ErrSSHFxBadMessage
	case 6:
		return sftp.ErrSSHFxNoConnection
	case 7:
		return sftp.ErrSSHFxConnectionLost
	case 8:
		return sftp.ErrSSHFxOpUnsupported
	}
	return nil
}

// ---------- the reading of the property ----------

func c10KindOfCode(n int) string {
	switch n {
	case 0:
		return "ok"
	case 1:
		return "eof"
	case 2:
		return "notexist"
	case 3:
		return "permission"
	case 4:
		return "failure"
	}
	return fmt.Sprintf("status:%d", n)
}

func (t *c10T) isWrapper() bool { return len(t.Sub) > 0 }
func (t *c10T) isOSWrapper() bool {
	return t.Op == "P" || t.Op == "L" || t.Op == "S"
}

// first atom on the Unwrap chain (depth first, as errors.Is / errors.As walk it) that satisfies f
func (t *c10T) find(f func(*c10T) bool) *c10T {
	if f(t) {
		return t
	}
	for _, s := range t.Sub {
		if x := s.find(f); x != nil {
			return x
		}
	}
	return nil
}

// c10Want: (accepted kinds as "a" or "a|b", basis "text" | "doc" | "dev", inner family)
func c10Want(t *c10T) (kind, basis, family string) {
	if t.Op == "NIL" {
		return "ok", "text", "nil"
	}
	depth1 := !t.isWrapper() || (t.isOSWrapper() && !t.Sub[0].isWrapper())
	u := t // what is left after looking through ONE of os's own wrappers
	if t.isOSWrapper() {
		u = t.Sub[0]
	}
	switch {
	case u.Op == "NX" || (u.Op == "E" && u.N == int(syscall.ENOENT)):
		return "notexist", "text", "notexist"
	case u.Op == "PERM" || (u.Op == "E" && (u.N == int(syscall.EACCES) || u.N == int(syscall.EPERM))):
		return "permission", "text", "permission"
	}
	basis = "doc"
	if depth1 {
		basis = "text"
	}
	if x := t.find(func(x *c10T) bool { return x.Op == "EOF" || x.Op == "CE" }); x != nil {
		if x.Op == "CE" {
			basis = "doc"
		}
		return "eof", basis, "eof"
	}
	if x := t.find(func(x *c10T) bool { return x.Op == "F" }); x != nil {
		if t.isWrapper() {
			basis = "doc"
		}
		return c10KindOfCode(x.N), basis, "fxcode"
	}
	if x := t.find(func(x *c10T) bool { return x.Op == "T" }); x != nil {
		if x.N == 4 {
			return "failure", "text", "statuserror"
		}
		return c10KindOfCode(x.N) + "|failure", "dev", "statuserror"
	}
	fam := "other"
	if x := t.find(func(x *c10T) bool { return !x.isWrapper() }); x != nil {
		switch x.Op {
		case "NX", "PERM":
			fam = "std-behind-foreign-wrapper"
		case "E":
			fam = "errno"
			if x.N == int(syscall.ENOENT) || x.N == int(syscall.EACCES) || x.N == int(syscall.EPERM) {
				fam = "std-behind-foreign-wrapper"
			}
		case "NIL":
			fam = "wrapped-nil"
		}
	}
	return "failure", "text", fam
}

func c10KindHas(set, k string) bool {
	for _, s := range strings.Split(set, "|") {
		if s == k {
			return true
		}
	}
	return false
}

// c10WrapperClass: the column of the rule table a term is in.
func c10WrapperClass(t *c10T) string {
	if !t.isWrapper() {
		return "bare"
	}
	if len(t.Sub) == 1 && !t.Sub[0].isWrapper() || t.Op == "J" {
		return t.Op
	}
	return t.Op + "(" + t.Sub[0].Op + ")"
}

// c10ModelTerm: the term in the syntax of the Lean driver, "" if the model has no such value. Atoms the model
// does not distinguish from "any other error" become X; a custom Unwrap() wrapper is the model's W.
func c10ModelTerm(t *c10T) string {
	switch t.Op {
	case "UEOF", "CL", "C", "CI":
		return "X"
	case "CE", "J":
		return ""
	case "E", "F", "T":
		return t.String()
	case "P", "L", "S", "W", "U":
		s := c10ModelTerm(t.Sub[0])
		if s == "" {
			return ""
		}
		op := t.Op
		if op == "U" {
			op = "W"
		}
		return op + "(" + s + ")"
	}
	return t.Op
}

// ---------- the product ----------

type c10ErrCase struct {
	Term   string
	T      *c10T
	Err    error
	Kind   string // accepted kinds: "eof", "status:5|failure", …
	Basis  string // text | doc | dev
	Family string
	Class  string // wrapper class
	Level  int    // 0 core (bare and ONE wrapper P/L/S/W), 1 the other single wrappers (U, J…), 2 two wrappers
}

var c10Errnos = []syscall.Errno{syscall.ENOENT, syscall.EACCES, syscall.EPERM, syscall.ENOTDIR, syscall.EISDIR, syscall.ENOTEMPTY, syscall.EEXIST,
	syscall.ELOOP, syscall.ENAMETOOLONG, syscall.EINVAL, syscall.EBADF, syscall.ENOSPC, syscall.EIO}

func c10Inner() []string {
	out := []string{"EOF", "UEOF", "NX", "PERM", "EX", "CL"}
	for c := 0; c <= 8; c++ {
		out = append(out, fmt.Sprint("F", c))
	}
	for c := 0; c <= 8; c++ {
		out = append(out, fmt.Sprint("T", c))
	}
	for _, e := range c10Errnos {
		out = append(out, fmt.Sprint("E", int(e)))
	}
	return append(out, "X", "C", "CI", "CE")
}

var (
	c10ErrOnce sync.Once
	c10ErrAll  []c10ErrCase
	c10ErrMap  map[string]c10ErrCase
	c10ErrMu   sync.RWMutex
)

func c10MkCase(term string, level int) c10ErrCase {
	t, err := c10Parse(term)
	if err != nil {
		panic("c10: " + err.Error())
	}
	k, b, f := c10Want(t)
	return c10ErrCase{Term: term, T: t, Err: c10Build(t), Kind: k, Basis: b, Family: f, Class: c10WrapperClass(t), Level: level}
}

// c10Errors: the full product wrapper x inner, each term once.
func c10Errors() []c10ErrCase {
	c10ErrOnce.Do(func() {
		seen := map[string]bool{}
		add := func(term string, level int) {
			if seen[term] {
				return
			}
			seen[term] = true
			c10ErrAll = append(c10ErrAll, c10MkCase(term, level))
		}
		add("NIL", 0)
		inner := c10Inner()
		for _, a := range inner {
			add(a, 0)
		}
		for _, w := range []string{"P", "L", "S", "W"} {
			for _, a := range inner {
				add(w+"("+a+")", 0)
			}
		}
		add("W(NIL)", 1)
		for _, a := range inner {
			add("U("+a+")", 1)
			add("J("+a+")", 1)
			add("J(X,"+a+")", 1)
			add("J("+a+",C)", 1)
		}
		for _, w1 := range []string{"P", "L", "S", "W"} {
			for _, w2 := range []string{"P", "L", "S", "W"} {
				for _, a := range inner {
					add(w1+"("+w2+"("+a+"))", 2)
				}
			}
		}
		for _, a := range inner { // Join inside and outside os's wrappers
			add("P(J("+a+"))", 2)
			add("J(P("+a+"),X)", 2)
			add("U(S("+a+"))", 2)
		}
		c10ErrMap = map[string]c10ErrCase{}
		for _, e := range c10ErrAll {
			c10ErrMap[e.Term] = e
		}
	})
	return c10ErrAll
}

// c10Lookup: the case of any well-formed term (replays may carry terms outside the product).
func c10Lookup(term string) c10ErrCase {
	c10Errors()
	c10ErrMu.RLock()
	e, ok := c10ErrMap[term]
	c10ErrMu.RUnlock()
	if ok {
		return e
	}
	e = c10MkCase(term, 2)
	c10ErrMu.Lock()
	c10ErrMap[term] = e
	c10ErrMu.Unlock()
	return e
}

// c10KindOfClientErr: the kind of what a caller of the Client holds.
func c10KindOfClientErr(err error) string {
	switch {
	case err == nil:
		return "ok"
	case errors.Is(err, io.EOF):
		return "eof"
	case errors.Is(err, os.ErrNotExist):
		return "notexist"
	case errors.Is(err, os.ErrPermission):
		return "permission"
	}
	if code, _, _, ok := sftp.VerifStatusFields(err); ok {
		if code == 4 {
			return "failure"
		}
		return fmt.Sprintf("status:%d", code)
	}
	return "other:" + err.Error()
}
