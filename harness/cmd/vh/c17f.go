package main

// C17, part "ids": "the human-readable long name in listings agrees with the structured attributes" for the OWNER and
// GROUP COLUMNS when the server looks names up.
//
// The os-backed server renders every READDIR entry's long name with the names of the host's account database
// (user.LookupId for the owner, user.LookupGroupId for the group).  Uids and gids are two number spaces: on
// every Unix host there are numbers that are a uid AND a gid with DIFFERENT names (Debian: 4 = sync / adm,
// 5 = games / tty, 6 = man / disk, 65534 = nobody / nogroup …), numbers that name only a user or only a group, and
// numbers that name nothing.  The osdir part (c17c.go) chowns its entries to a fixed set of pairs in which no number
// plays both roles; here the pairs are built from the host's own /etc/passwd and /etc/group so that every such
// number occurs as a uid and as a gid, in BOTH ORDERS (the uid seen first, the gid seen first), within one entry,
// within one listing, across listings of one session and across sessions of one process.
//
// A case is a SCRIPT: sessions (one os-backed server each) of listings (one directory each) of entries (uid, gid).
// It runs in a child process of its own (`vh child c17ids`), so that whatever the package remembers between
// lookups starts empty and a replay reproduces it.  The child creates the directories in its scratch area, chowns
// the files, reads every directory with raw OPENDIR / READDIR requests and prints long name and attributes of
// every entry.  The parent judges:
//
//	owner column of the long name == name of the UID in the attributes of the same entry
//	group column of the long name == name of the GID in the attributes of the same entry
//	UID / GID in the attributes   == what lstat(2) reports
//
// with the names resolved independently (os/user in the harness process, cross-checked against the harness's own
// reading of /etc/passwd and /etc/group; a number for which the two disagree is left out).

import (
	"bufio"
	"bytes"
	"encoding/json"
	"fmt"
	"os"
	"os/exec"
	"path/filepath"
	"sort"
	"strconv"
	"strings"
	"syscall"
	"time"

	"verifharness/lib"
	"verifharness/peers"
)

func init() { children["c17ids"] = c17IDChild }

type c17IDPair struct {
	UID uint32 `json:"uid"`
	GID uint32 `json:"gid"`
}

// c17IDScript: Sessions[s][l] is the l-th directory listed in session s; its entries are files f0, f1, … owned so.
type c17IDScript struct {
	Shape    string          `json:"shape"` // how the script was built (histogram, key suffix)
	Sessions [][][]c17IDPair `json:"sessions"`
}

type c17IDEnt struct {
	Session, Listing int
	Name, Long       string
	Flags            uint32
	UID, GID         uint32 // attributes
	StUID, StGID     uint32 // lstat(2)
}

type c17IDOut struct {
	Err     string     `json:"err,omitempty"`     // the script could not be run (chown refused …)
	Fail    string     `json:"fail,omitempty"`    // a listing failed
	Entries []c17IDEnt `json:"entries,omitempty"` // in the order received
}

// c17IDChild runs one script read from stdin and prints a c17IDOut.
func c17IDChild(args []string) {
	var sc c17IDScript
	out := c17IDOut{}
	defer func() {
		b, _ := json.Marshal(out)
		fmt.Println(string(b))
	}()
	if err := json.NewDecoder(bufio.NewReader(os.Stdin)).Decode(&sc); err != nil {
		out.Err = "script: " + err.Error()
		return
	}
	root, err := lib.MkScratch("vh-c17ids-")
	if err != nil {
		out.Err = err.Error()
		return
	}
	defer os.RemoveAll(root)
	if rp, err := filepath.EvalSymlinks(root); err == nil {
		root = rp
	}
	for s, listings := range sc.Sessions {
		srv, err := peers.StartOS()
		if err != nil {
			out.Err = "server: " + err.Error()
			return
		}
		hHandshake(srv, nil)
		for l, pairs := range listings {
			dir := filepath.Join(root, fmt.Sprintf("s%dl%d", s, l))
			if err := os.Mkdir(dir, 0o755); err != nil {
				out.Err = err.Error()
				return
			}
			for k, p := range pairs {
				f := filepath.Join(dir, fmt.Sprintf("f%d", k))
				if err := os.WriteFile(f, []byte("x"), 0o644); err != nil {
					out.Err = err.Error()
					return
				}
				if err := os.Lchown(f, int(p.UID), int(p.GID)); err != nil {
					out.Err = "chown: " + err.Error()
					return
				}
			}
			if ok, why := lib.InScratch("", dir); !ok {
				out.Err = "not run: " + why
				return
			}
			ents, err := c17ReadDir(srv, dir)
			if err != nil {
				out.Fail = fmt.Sprintf("session %d listing %d: %v", s, l, err)
				srv.CloseInput()
				return
			}
			for _, e := range ents {
				var st syscall.Stat_t
				if err := syscall.Lstat(filepath.Join(dir, e.Name), &st); err != nil {
					out.Err = err.Error()
					return
				}
				out.Entries = append(out.Entries, c17IDEnt{Session: s, Listing: l, Name: e.Name, Long: e.Long, Flags: e.St.Flags, UID: e.St.UID, GID: e.St.GID, StUID: st.Uid, StGID: st.Gid})
			}
		}
		srv.CloseInput()
		hCleanupSrv(srv, "c17/server-exit", 5*time.Second)
	}
}

// ---------- the host's account database, read by the harness itself ----------

// c17IDFile reads name and number of every line of /etc/passwd or /etc/group (fields 1 and 3); the first line
// of a number wins, as in getpwuid(3) / os/user.
func c17IDFile(p string) map[uint32]string {
	out := map[uint32]string{}
	b, err := os.ReadFile(p)
	if err != nil {
		return out
	}
	for _, line := range strings.Split(string(b), "\n") {
		f := strings.Split(line, ":")
		if len(f) < 3 || strings.HasPrefix(line, "#") || strings.HasPrefix(line, "+") || strings.HasPrefix(line, "-") {
			continue
		}
		n, err := strconv.ParseUint(f[2], 10, 32)
		if err != nil || f[0] == "" {
			continue
		}
		if _, dup := out[uint32(n)]; !dup {
			out[uint32(n)] = f[0]
		}
	}
	return out
}

// c17IDHost: the numbers of this host by class.  A number is used only if os/user and the harness's own reading of
// the files agree about both of its names (an NSS source the files do not show would make the expectation unsure),
// and if the names are single words (the long name is split at blanks).
type c17IDHost struct {
	both, same, userOnly, groupOnly, none []uint32
	user, group                           map[uint32]string // expected column text of every number used (the number itself when it has no name)
}

func c17IDScan() c17IDHost {
	pw, gr := c17IDFile("/etc/passwd"), c17IDFile("/etc/group")
	h := c17IDHost{user: map[uint32]string{}, group: map[uint32]string{}}
	seen := map[uint32]bool{}
	var nums []uint32
	add := func(n uint32) {
		if !seen[n] {
			seen[n] = true
			nums = append(nums, n)
		}
	}
	for n := range pw {
		add(n)
	}
	for n := range gr {
		add(n)
	}
	for _, n := range []uint32{4242, 65533, 99999, 1<<31 + 7} { // most probably nameless
		add(n)
	}
	sort.Slice(nums, func(i, j int) bool { return nums[i] < nums[j] })
	word := func(s string) bool { return s != "" && !strings.ContainsAny(s, " \t\n") }
	for _, n := range nums {
		if n == 1<<32-1 {
			continue // chown(2)'s "leave unchanged"
		}
		u, g := c17UserName(n), c17GroupName(n) // os/user; the number when there is no name
		fu, hasU := pw[n]
		fg, hasG := gr[n]
		if !hasU {
			fu = c17Num(n)
		}
		if !hasG {
			fg = c17Num(n)
		}
		if u != fu || g != fg || !word(u) || !word(g) {
			continue
		}
		h.user[n], h.group[n] = u, g
		switch {
		case hasU && hasG && u != g:
			h.both = append(h.both, n)
		case hasU && hasG:
			h.same = append(h.same, n)
		case hasU:
			h.userOnly = append(h.userOnly, n)
		case hasG:
			h.groupOnly = append(h.groupOnly, n)
		default:
			h.none = append(h.none, n)
		}
	}
	return h
}

// ---------- scripts ----------

func c17IDScripts(c *lib.Ctx, h c17IDHost) []c17IDScript {
	var out []c17IDScript
	one := func(p ...c17IDPair) [][]c17IDPair { return [][]c17IDPair{p} }
	pick := func(l []uint32, not uint32, fallback uint32) uint32 {
		var c2 []uint32
		for _, x := range l {
			if x != not {
				c2 = append(c2, x)
			}
		}
		if len(c2) == 0 {
			return fallback
		}
		return c2[c.Rand.Intn(len(c2))]
	}
	limit := func(l []uint32, n int) []uint32 {
		l = append([]uint32(nil), l...)
		c.Rand.Shuffle(len(l), func(i, j int) { l[i], l[j] = l[j], l[i] })
		if c.Tier != "thorough" && len(l) > n {
			l = l[:n]
		}
		sort.Slice(l, func(i, j int) bool { return l[i] < l[j] })
		return l
	}
	// numbers that play both roles with different names, and numbers that have a name in one role only: for the
	// latter the other column must show the number
	for _, cls := range []struct {
		name string
		nums []uint32
	}{{"uid-and-gid", limit(h.both, 8)}, {"uid-only", limit(h.userOnly, 3)}, {"gid-only", limit(h.groupOnly, 3)}} {
		for _, n := range cls.nums {
			o := pick(h.same, n, 0) // an unrelated number for the other role
			sh := cls.name + "/"
			out = append(out,
				// the same number in both columns of one entry (owner looked up first, then group)
				c17IDScript{Shape: sh + "one-entry", Sessions: [][][]c17IDPair{one(c17IDPair{n, n})}},
				// as a uid in one listing, as a gid in the next one of the same session — and the other way round
				c17IDScript{Shape: sh + "uid-then-gid/listings", Sessions: [][][]c17IDPair{{{{n, o}}, {{o, n}}}}},
				c17IDScript{Shape: sh + "gid-then-uid/listings", Sessions: [][][]c17IDPair{{{{o, n}}, {{n, o}}}}},
				// across two sessions (two servers) of one process
				c17IDScript{Shape: sh + "uid-then-gid/sessions", Sessions: [][][]c17IDPair{one(c17IDPair{n, o}), one(c17IDPair{o, n})}},
				c17IDScript{Shape: sh + "gid-then-uid/sessions", Sessions: [][][]c17IDPair{one(c17IDPair{o, n}), one(c17IDPair{n, o})}},
			)
		}
	}
	// one listing holding every chosen number in both roles, paired at random (the order inside one listing is the
	// file system's), then the same pairs swapped in a second listing
	var all []uint32
	all = append(all, limit(h.both, 8)...)
	all = append(all, limit(h.same, 2)...)
	all = append(all, limit(h.userOnly, 2)...)
	all = append(all, limit(h.groupOnly, 2)...)
	all = append(all, limit(h.none, 2)...)
	rounds := 2
	if c.Tier == "thorough" {
		rounds = 12
	}
	for k := 0; k < rounds && len(all) > 1; k++ {
		var a, b []c17IDPair
		perm := c.Rand.Perm(len(all))
		for i, n := range all {
			a = append(a, c17IDPair{n, all[perm[i]]})
			b = append(b, c17IDPair{all[perm[i]], n})
		}
		out = append(out, c17IDScript{Shape: "mixed/two-listings", Sessions: [][][]c17IDPair{{a, b}}})
	}
	// numbers without any name next to numbers with names
	for _, n := range limit(h.none, 2) {
		w := pick(h.both, n, 0)
		out = append(out, c17IDScript{Shape: "nameless", Sessions: [][][]c17IDPair{{{{n, n}, {n, w}, {w, n}}}}})
	}
	return out
}

// ---------- running and judging ----------

func c17IDRun(sc c17IDScript) (c17IDOut, string) {
	in, _ := json.Marshal(sc)
	cmd := exec.Command(os.Args[0], "child", "c17ids")
	cmd.Stdin = bytes.NewReader(in)
	var so, se bytes.Buffer
	cmd.Stdout, cmd.Stderr = &so, &se
	if err := cmd.Start(); err != nil {
		return c17IDOut{}, "start: " + err.Error()
	}
	done := make(chan error, 1)
	go func() { done <- cmd.Wait() }()
	// every wait inside the child has its own hang deadline; this one only bounds the child as a whole
	if err, ok := lib.WaitHang("c17/ids", 90*time.Second, done); !ok {
		cmd.Process.Kill()
		return c17IDOut{}, "the child process did not finish"
	} else if err != nil {
		return c17IDOut{}, "child: " + err.Error() + ": " + c17IDTail(se.String())
	}
	var out c17IDOut
	lines := strings.Split(strings.TrimSpace(so.String()), "\n")
	if err := json.Unmarshal([]byte(lines[len(lines)-1]), &out); err != nil {
		return out, "child output: " + err.Error()
	}
	return out, ""
}

func c17IDTail(s string) string {
	if len(s) > 600 {
		return "…" + s[len(s)-600:]
	}
	return s
}

func c17IDIn(sc c17IDScript) c17In { return c17In{Part: "ids", IDs: &sc} }

func checkC17IDs(c *lib.Ctx, only *c17IDScript) {
	r := c.R
	h := c17IDScan()
	r.HistAdd("ids/host/uid-and-gid-with-different-names", len(h.both))
	r.HistAdd("ids/host/uid-and-gid-with-the-same-name", len(h.same))
	r.HistAdd("ids/host/uid-only", len(h.userOnly))
	r.HistAdd("ids/host/gid-only", len(h.groupOnly))
	r.HistAdd("ids/host/no-name", len(h.none))
	var scripts []c17IDScript
	if only != nil {
		scripts = []c17IDScript{*only}
	} else {
		if os.Getuid() != 0 {
			r.Skip("part ids: not running as root, files cannot be given to other owners")
			return
		}
		if len(h.both) == 0 {
			r.Skip("part ids: this host has no number that names a user and a group differently; only one-role and nameless numbers are used")
		}
		scripts = c17IDScripts(c, h)
	}
	nameOf := func(m map[uint32]string, n uint32, lookup func(uint32) string) string {
		if s, ok := m[n]; ok {
			return s
		}
		return lookup(n) // a replayed script may name numbers the scan left out
	}
	for _, sc := range scripts {
		if c.Stop("c17/ids") {
			break
		}
		out, bad := c17IDRun(sc)
		in := c17IDIn(sc)
		switch {
		case bad != "":
			r.Fail(lib.Failure{Kind: "tie", Key: "ids/child", What: bad, Input: in})
			continue
		case strings.HasPrefix(out.Err, "chown:"):
			r.Skip("part ids: %s", out.Err)
			return
		case out.Err != "":
			r.Fail(lib.Failure{Kind: "tie", Key: "ids/setup", What: out.Err, Input: in})
			continue
		case out.Fail != "":
			r.Fail(lib.Failure{Kind: "oracle", Key: "ids/readdir", What: "raw READDIR of a real directory failed: " + out.Fail, Input: in})
			continue
		}
		want := 0
		for _, s := range sc.Sessions {
			for _, l := range s {
				want += len(l)
			}
		}
		if len(out.Entries) != want {
			r.Fail(lib.Failure{Kind: "oracle", Key: "ids/lost-entries", What: "READDIR of real directories lost or invented entries", Input: in, Expected: want, Actual: len(out.Entries)})
		}
		r.Hist("ids/script/" + sc.Shape)
		reported := map[string]bool{}
		for _, e := range out.Entries {
			r.Case(fmt.Sprintf("ids %s s%d l%d %d:%d", sc.Shape, e.Session, e.Listing, e.StUID, e.StGID), true)
			fail := func(key, what string, exp, act any) {
				if !reported[key] {
					reported[key] = true
					r.Fail(lib.Failure{Kind: "oracle", Key: key, What: what, Input: in, Expected: exp, Actual: act})
				}
			}
			where := fmt.Sprintf("session %d, listing %d, entry %s (lstat: uid %d gid %d)", e.Session, e.Listing, e.Name, e.StUID, e.StGID)
			if e.Flags&2 == 0 || e.UID != e.StUID || e.GID != e.StGID {
				fail("ids/attrs/owner", "owner in the attributes of a listed real entry differs from what the file system reports: "+where,
					fmt.Sprintf("uid=%d gid=%d", e.StUID, e.StGID), fmt.Sprintf("flags=%#x uid=%d gid=%d", e.Flags, e.UID, e.GID))
				continue
			}
			ln, ok := c17Long(e.Long, e.Name)
			if !ok {
				fail("ids/longname/form", "long name of a listed real entry does not have the ls -l form: "+where, "mode nlink owner group size month day time name", e.Long)
				continue
			}
			wu, wg := nameOf(h.user, e.UID, c17UserName), nameOf(h.group, e.GID, c17GroupName)
			if ln.User != wu {
				fail("ids/longname/owner-column", "the owner column of the long name is not the name of the UID that the attributes of the same entry carry: "+where,
					fmt.Sprintf("owner column %q (user.LookupId(%d), /etc/passwd)", wu, e.UID), e.Long)
			}
			if ln.Group != wg {
				fail("ids/longname/group-column", "the group column of the long name is not the name of the GID that the attributes of the same entry carry: "+where,
					fmt.Sprintf("group column %q (user.LookupGroupId(%d), /etc/group)", wg, e.GID), e.Long)
			}
			if only != nil {
				r.Note("replay ids: %s: %q", where, e.Long)
			}
		}
		if len(r.Samples) < 12 && sc.Shape == "mixed/two-listings" && len(out.Entries) > 0 {
			r.Sample(map[string]any{"part": "ids", "shape": sc.Shape, "longname": out.Entries[0].Long, "uid": out.Entries[0].UID, "gid": out.Entries[0].GID})
		}
	}
}

const c17IDRule = "; ids: owner and group COLUMNS of the long names of the os-backed server (names looked up in the host's account database): files chowned to every number of /etc/passwd and /etc/group that is a uid and a gid with different names (quick: 8 of them), to numbers that name only a user / only a group (3 each) and to nameless numbers, each as uid and as gid in both orders — in one entry, in consecutive listings of one session, in consecutive sessions of one process — plus listings mixing all of them; every script in a fresh child process; column == independently resolved name (os/user and the harness's reading of the files must agree) of the UID / GID in the attributes of the same entry, attributes == lstat(2)"
