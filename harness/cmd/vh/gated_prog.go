package main

// Request programs for the schedule-controlled server checks (C02, C14, C18):
// a JSON-able description of a pipelined request stream, its translation to wire
// frames, the virtual file system behind the request server (instrumented
// sftp.Handlers), the instrumented file wrapper for the os-backed server, and the
// routing table that says which instrumented call each request must reach.

import (
	"context"
	"fmt"
	"io"
	"os"
	"path"
	"path/filepath"
	"sort"
	"strings"
	"sync"
	"time"

	"github.com/pkg/sftp"

	"verifharness/wire"
)

type gHandle struct {
	Name   string `json:"name"`
	Kind   string `json:"kind"` // get | put | rw | dir
	Path   string `json:"path"` // relative name of the object
	Closed bool   `json:"closed,omitempty"`
}

type gOp struct {
	K   string `json:"k"`
	H   string `json:"h,omitempty"`
	P   string `json:"p,omitempty"`
	P2  string `json:"p2,omitempty"`
	Off int64  `json:"off,omitempty"`
	Len uint32 `json:"len,omitempty"`
	AF  uint32 `json:"af,omitempty"`
	ID  uint32 `json:"id"`
	// Pad (REALPATH / READLINK only): the path sent is P with its last component lengthened by 'p's to a total of
	// Pad bytes, so that programs with paths of 100+ KiB (whose NAME replies carry the path twice) stay small as JSON.
	Pad uint32 `json:"pad,omitempty"`
	// Abs (path requests on a server with a working / start directory): the path is sent in its absolute form
	// nonetheless (without it every path of the pipeline is sent relative to that directory).
	Abs bool `json:"abs,omitempty"`
	// Nx (handle requests, H empty): the request names a handle whose HANDLE reply the client has NOT received — the
	// decimal string of the Nx-th handle number the server hands out after the set-up (both servers number their
	// handles 1, 2, 3 …). Such a request may reach the server before, while or after the OPEN / OPENDIR of the pipeline
	// that is given this number runs (or no request is given it at all). Nothing about its outcome is predicted; it
	// is owed exactly one reply of a legal type in its turn.
	Nx int `json:"nx,omitempty"`
	// At: the attribute values sent with the flags AF (SETSTAT, FSETSTAT, and — when not nil — OPEN and MKDIR, which
	// otherwise carry an empty attribute block). nil: permissions 0644, everything else 0.
	At *gAttr `json:"at,omitempty"`
}

// gAttr are the values of an attribute block (which of them go over the wire is decided by the flags gOp.AF).
type gAttr struct {
	Size  uint64      `json:"size,omitempty"`
	UID   uint32      `json:"uid,omitempty"`
	GID   uint32      `json:"gid,omitempty"`
	Perm  uint32      `json:"perm,omitempty"`
	Atime uint32      `json:"atime,omitempty"`
	Mtime uint32      `json:"mtime,omitempty"`
	Ext   [][2]string `json:"ext,omitempty"`
}

// block is the attribute block of the request: flags word and the fields the flags announce.
func (o gOp) block() []byte {
	st := wire.St{Flags: o.AF, Perm: 0o644}
	if o.At != nil {
		st = wire.St{Flags: o.AF, Size: o.At.Size, UID: o.At.UID, GID: o.At.GID, Perm: o.At.Perm, Atime: o.At.Atime, Mtime: o.At.Mtime, Ext: o.At.Ext}
	}
	return st.Block()
}

// openBlock is the attribute block of an OPEN / MKDIR request: empty unless the request was given attributes.
func (o gOp) openBlock() []byte {
	if o.At == nil {
		return wire.B{}.U32(0)
	}
	return o.block()
}

// gPredObj: objects named q… / dq… (and missingq…) are opened only INSIDE a pipeline, by programs that also name
// handles before their HANDLE reply (gOp.Nx). Which requests reach such an object depends on the schedule, so the
// instrumented calls made on it (everything but the handler call of the OPEN / OPENDIR itself) are never held and
// never counted.
func gPredObj(obj string) bool {
	b := path.Base(obj)
	return strings.HasPrefix(b, "q") || strings.HasPrefix(b, "dq")
}

// gFreeCall: calls that are logged but neither held nor accounted for (see gPredObj).
func gFreeCall(op, obj string) bool {
	return gPredObj(obj) && !strings.HasPrefix(op, "Open") && op != "FilelistList"
}

// pth is the path a path request names: abs(P), lengthened to Pad bytes where Pad asks for more.
func (o gOp) pth(abs func(string) string) string {
	s := abs(o.P)
	if int(o.Pad) > len(s) {
		s += strings.Repeat("p", int(o.Pad)-len(s))
	}
	return s
}

// gKeyPath is the form in which a path appears in the key of an instrumented call: itself, unless it is very long.
func gKeyPath(p string) string {
	if len(p) <= 300 {
		return p
	}
	return fmt.Sprintf("%s…(%d bytes)", p[:40], len(p))
}

type gProg struct {
	Server string `json:"server"` // os | rs
	Alloc  bool   `json:"alloc"`
	MaxTx  uint32 `json:"max_tx,omitempty"`
	// ReadOnly: os-backed server started with ReadOnly() (handles must then be of kind get / dir).
	ReadOnly bool `json:"read_only,omitempty"`
	// WorkDir: os-backed server started with WithServerWorkingDirectory(scratch root), request server with
	// WithStartDirectory("/wd"); the handles of the program are then opened by names relative to that directory.
	WorkDir bool `json:"work_dir,omitempty"`
	// Ifaces (request server): which of the optional handler interfaces the handlers do NOT implement.
	Ifaces  gIfaces   `json:"ifaces,omitzero"`
	Handles []gHandle `json:"handles"`
	Ops     []gOp     `json:"ops"`
}

// gIfaces names the optional interfaces of sftp.Handlers that the handlers of a run lack. The zero value is a
// handler set that implements every one of them (RealPath in its current form, with an error result).
type gIfaces struct {
	NoStatVFS     bool `json:"no_statvfs,omitempty"`      // FileCmd is not a StatVFSFileCmder: statvfs@openssh.com is answered OP_UNSUPPORTED
	NoPosixRename bool `json:"no_posix_rename,omitempty"` // FileCmd is not a PosixRenameFileCmder: posix-rename is served by Filecmd as Rename
	NoLstat       bool `json:"no_lstat,omitempty"`        // FileList is not a LstatFileLister: LSTAT is served by Filelist as Stat
	NoOpenFile    bool `json:"no_open_file,omitempty"`    // FilePut is not an OpenFileWriter: a read-write OPEN goes through Filewrite (handle serves writes only)
	NoReadlink    bool `json:"no_readlink,omitempty"`     // FileList is not a ReadlinkFileLister: READLINK is served by Filelist (method Readlink)
	// RealPath: "" = RealPathFileLister (string, error); "legacy" = the old signature without error result;
	// "none" = neither: REALPATH is answered by the server itself, without any handler call.
	RealPath string `json:"real_path,omitempty"`
}

func (i gIfaces) zero() bool { return i == gIfaces{} }

// tokens lists what is lacking (or different), one word each.
func (i gIfaces) tokens() []string {
	var t []string
	for _, x := range []struct {
		on bool
		s  string
	}{{i.NoStatVFS, "no-StatVFS"}, {i.NoPosixRename, "no-PosixRename"}, {i.NoLstat, "no-Lstat"}, {i.NoOpenFile, "no-OpenFile"}, {i.NoReadlink, "no-Readlink"},
		{i.RealPath == "none", "no-RealPath"}, {i.RealPath == "legacy", "legacy-RealPath"}} {
		if x.on {
			t = append(t, x.s)
		}
	}
	return t
}

func (i gIfaces) text() string {
	if t := i.tokens(); len(t) > 0 {
		return strings.Join(t, "+")
	}
	return "all-interfaces"
}

func (p gProg) text() string {
	var b strings.Builder
	fmt.Fprintf(&b, "%s alloc=%v maxtx=%d", p.Server, p.Alloc, p.MaxTx)
	if p.ReadOnly {
		b.WriteString(" readonly")
	}
	if p.WorkDir {
		b.WriteString(" workdir")
	}
	if !p.Ifaces.zero() {
		b.WriteString(" handlers=" + p.Ifaces.text())
	}
	b.WriteString(" |")
	for _, h := range p.Handles {
		fmt.Fprintf(&b, " %s=%s:%s", h.Name, h.Kind, h.Path)
		if h.Closed {
			b.WriteString("(closed)")
		}
	}
	b.WriteString(" |")
	for _, o := range p.Ops {
		fmt.Fprintf(&b, " %s", o.text())
	}
	return b.String()
}

func (o gOp) text() string {
	s := o.K
	if o.Nx > 0 {
		s += fmt.Sprintf("(next-handle+%d", o.Nx)
		if o.K == "read" || o.K == "write" {
			s += fmt.Sprintf("@%d+%d", o.Off, o.Len)
		}
		s += ")"
	}
	if o.AF != 0 && o.At != nil {
		s += fmt.Sprintf("[af=%#x]", o.AF)
	}
	if o.H != "" {
		s += "(" + o.H
		if o.K == "read" || o.K == "write" {
			s += fmt.Sprintf("@%d+%d", o.Off, o.Len)
		}
		s += ")"
	}
	if o.P != "" {
		s += "(" + o.P
		if o.Pad > 0 {
			s += fmt.Sprintf("…%d", o.Pad)
		}
		s += ")"
	}
	return fmt.Sprintf("%s#%d", s, o.ID)
}

// shape is the program without ids and offsets (used to count distinct cases).
func (p gProg) shape() string {
	var b strings.Builder
	b.WriteString(p.Server)
	for _, o := range p.Ops {
		b.WriteString(" " + o.K)
		if o.H != "" {
			b.WriteString(":" + o.H)
		}
		if o.Nx > 0 {
			b.WriteString(fmt.Sprintf(":next+%d", o.Nx))
		}
		if o.At != nil {
			b.WriteString(fmt.Sprintf(":af%x", o.AF))
		}
		if strings.HasPrefix(o.P, "missing") {
			b.WriteString(":missing")
		}
		if o.Pad > 0 {
			b.WriteString(":long")
		}
		if o.Abs {
			b.WriteString(":abs")
		}
	}
	return b.String()
}

func (p gProg) handle(name string) *gHandle {
	for i := range p.Handles {
		if p.Handles[i].Name == name {
			return &p.Handles[i]
		}
	}
	return nil
}

// ---- contents ----

// gByte is the byte at absolute offset x of object name: distinct objects and distinct offsets give
// (with overwhelming likelihood) distinct runs of bytes, so a response assembled from another request's
// buffer does not go unnoticed.
func gByte(seed uint64, x int64) byte {
	z := seed + uint64(x)*0x9E3779B97F4A7C15
	z ^= z >> 29
	z *= 0xBF58476D1CE4E5B9
	z ^= z >> 32
	return byte(z)
}

func gSeed(name string) uint64 {
	var s uint64 = 1469598103934665603
	for i := 0; i < len(name); i++ {
		s = (s ^ uint64(name[i])) * 1099511628211
	}
	return s
}

func gContent(name string, off int64, n int) []byte {
	if n <= 0 {
		return []byte{}
	}
	b := make([]byte, n)
	s := gSeed(name)
	for i := range b {
		b[i] = gByte(s, off+int64(i))
	}
	return b
}

func gSize(name string) int64 {
	switch {
	case name == "f0":
		return 600000
	case strings.HasPrefix(name, "x"):
		return 131072
	case strings.HasPrefix(name, "g"):
		return 0
	}
	return 100000
}

func gDirEntries(name string) []string {
	n := 2
	switch name {
	case "d0":
		n = 3
	case "d1":
		n = 0
	case "d2":
		n = 150
	case "dhuge": // request server only: a full batch of 100 such entries makes a NAME reply of about 290 KB
		n = 120
	case "dwide": // names as long as a file system takes them: a batch of 128 makes a NAME reply of about 80 KB
		n = 130
	}
	tail := ""
	switch name {
	case "dhuge":
		tail = strings.Repeat("n", 1396)
	case "dwide":
		tail = strings.Repeat("n", 246)
	}
	var out []string
	for i := 0; i < n; i++ {
		out = append(out, fmt.Sprintf("e%03d", i)+tail)
	}
	return out
}

func gIsDirName(name string) bool {
	return strings.HasPrefix(name, "d") || strings.HasPrefix(name, "sd")
}
func gIsMissing(name string) bool                     { return strings.HasPrefix(name, "missing") }
func gWriteData(name string, off int64, n int) []byte { return gContent("w!"+name, off, n) }

var gOldTime = time.Unix(1_000_000_000, 0)

// gLongTarget is the target of the links named lnkmax…: the longest a file system stores without complaint.
var gLongTarget = strings.Repeat("t", 4000)

// gFutureAtime is an access time later than any change time of this run, so that a relatime mount never
// rewrites it when a file is read (ATTRS replies of two runs stay comparable byte for byte).
var gFutureAtime = time.Unix((time.Now().Unix()/86400+3)*86400, 0)

// ---- wire frames ----

// frame is the request as sent. abs gives the form in which its path names go over the wire (gCase.sent).
func (o gOp) frame(abs func(string) string, h string) []byte {
	switch o.K {
	case "read":
		return wire.Req(wire.Read, o.ID, wire.B{}.Str(h).U64(uint64(o.Off)).U32(o.Len))
	case "write":
		return wire.Req(wire.Write, o.ID, wire.B{}.Str(h).U64(uint64(o.Off)).Bytes(gWriteData(o.H, o.Off, int(o.Len))))
	case "close":
		return wire.Req(wire.Close, o.ID, wire.B{}.Str(h))
	case "fstat":
		return wire.Req(wire.Fstat, o.ID, wire.B{}.Str(h))
	case "readdir":
		return wire.Req(wire.Readdir, o.ID, wire.B{}.Str(h))
	case "fsetstat":
		return wire.Req(wire.Fsetstat, o.ID, wire.B{}.Str(h).Raw(o.block()))
	case "fsync":
		return wire.Req(wire.Extended, o.ID, wire.B{}.Str("fsync@openssh.com").Str(h))
	case "stat":
		return wire.Req(wire.Stat, o.ID, wire.B{}.Str(abs(o.P)))
	case "lstat":
		return wire.Req(wire.Lstat, o.ID, wire.B{}.Str(abs(o.P)))
	case "opendir":
		return wire.Req(wire.Opendir, o.ID, wire.B{}.Str(abs(o.P)))
	case "open":
		return wire.Req(wire.Open, o.ID, wire.B{}.Str(abs(o.P)).U32(wire.FRead).Raw(o.openBlock()))
	case "openrw":
		return wire.Req(wire.Open, o.ID, wire.B{}.Str(abs(o.P)).U32(wire.FRead|wire.FWrite).Raw(o.openBlock()))
	case "openw":
		return wire.Req(wire.Open, o.ID, wire.B{}.Str(abs(o.P)).U32(wire.FWrite|wire.FCreat|wire.FTrunc).Raw(o.openBlock()))
	case "remove":
		return wire.Req(wire.Remove, o.ID, wire.B{}.Str(abs(o.P)))
	case "rmdir":
		return wire.Req(wire.Rmdir, o.ID, wire.B{}.Str(abs(o.P)))
	case "realpath":
		return wire.Req(wire.Realpath, o.ID, wire.B{}.Str(o.pth(abs)))
	case "readlink":
		return wire.Req(wire.Readlink, o.ID, wire.B{}.Str(o.pth(abs)))
	case "setstat":
		return wire.Req(wire.Setstat, o.ID, wire.B{}.Str(abs(o.P)).Raw(o.block()))
	case "mkdir":
		return wire.Req(wire.Mkdir, o.ID, wire.B{}.Str(abs(o.P)).Raw(o.openBlock()))
	case "rename":
		return wire.Req(wire.Rename, o.ID, wire.B{}.Str(abs(o.P)).Str(abs(o.P2)))
	case "symlink":
		return wire.Req(wire.Symlink, o.ID, wire.B{}.Str(abs(o.P)).Str(abs(o.P2)))
	case "statvfs":
		return wire.Req(wire.Extended, o.ID, wire.B{}.Str("statvfs@openssh.com").Str(abs(o.P)))
	case "posixrename":
		return wire.Req(wire.Extended, o.ID, wire.B{}.Str("posix-rename@openssh.com").Str(abs(o.P)).Str(abs(o.P2)))
	case "hardlink":
		return wire.Req(wire.Extended, o.ID, wire.B{}.Str("hardlink@openssh.com").Str(abs(o.P)).Str(abs(o.P2)))
	case "extunknown":
		return wire.Req(wire.Extended, o.ID, wire.B{}.Str("bogus@example.com").Str("x"))
	}
	panic("gOp.frame: unknown op " + o.K)
}

func gSimKind(k string) byte {
	switch k {
	case "read", "write":
		return 'w'
	case "close":
		return 'c'
	}
	return 'o'
}

// gSuccessType is the reply type a request gets when it succeeds.
func gSuccessType(k string) byte {
	switch k {
	case "open", "openrw", "openw", "opendir":
		return wire.Handle
	case "read":
		return wire.Data
	case "readdir", "readlink", "realpath":
		return wire.Name
	case "stat", "lstat", "fstat":
		return wire.Attrs
	case "statvfs":
		return wire.ExtendedReply
	}
	return wire.Status
}

func gTypeName(t byte) string {
	switch t {
	case wire.Status:
		return "STATUS"
	case wire.Handle:
		return "HANDLE"
	case wire.Data:
		return "DATA"
	case wire.Name:
		return "NAME"
	case wire.Attrs:
		return "ATTRS"
	case wire.ExtendedReply:
		return "EXTENDED_REPLY"
	case wire.Version:
		return "VERSION"
	}
	return fmt.Sprintf("type-%d", t)
}

// ---- routing: which instrumented call does each request reach ----

type gRoute struct {
	Sim      simReq
	CloseKey string // for CLOSE of an open handle: key of the (never held) Close call it must make
	HKind    string // kind of the handle the request names ("" none, "bogus", "stale")
	Mismatch bool   // request type does not fit the kind of its handle
	// Forbidden: request server only. A request that does not fit the kind of its handle must be refused without
	// any handler call; this is the key (prefix) of the call that dispatching on the handle's method instead of the
	// packet type would make (the former defect F13). Such a call is never held, so that the reply can be judged.
	Forbidden string
	// Denied: os-backed server started with ReadOnly(), request of a modifying kind: the server answers
	// PERMISSION_DENIED itself; neither the file system nor an opened file is touched.
	Denied bool
	// NoCall: request server whose handlers lack the optional interface this request would be passed to: the
	// server answers by itself, without any handler call. WantCode (when not 0) is the status code a refusal
	// (Denied, or NoCall for an extension the handlers do not serve) must carry.
	NoCall   string
	WantCode uint32
	// Fallback: the optional interface is lacking and the request is served through the general method named here.
	Fallback string
}

// gDeniedKinds are the request kinds a server started with ReadOnly() refuses without looking at them any further.
var gDeniedKinds = map[string]bool{"write": true, "fsetstat": true, "setstat": true, "remove": true, "mkdir": true, "rmdir": true, "rename": true,
	"symlink": true, "posixrename": true, "hardlink": true, "openrw": true, "openw": true}

// gCleanWithBase is the path a request server's handler sees for a path sent as p: cleaned, and resolved against
// the start directory where it is relative.
func gCleanWithBase(base, p string) string {
	p = path.Clean(p)
	if !path.IsAbs(p) {
		return path.Join(base, p)
	}
	return p
}

// effKind is the kind of handle the server really hands out for h: a request server whose FilePut is not an
// OpenFileWriter serves a read-write OPEN through Filewrite, and the handle then takes writes only.
func (p gProg) effKind(h *gHandle) string {
	if p.Server == "rs" && p.Ifaces.NoOpenFile && h.Kind == "rw" {
		return "put"
	}
	return h.Kind
}

// gRoutes walks the program in stream order. abs maps relative names to the absolute paths of the objects.
func gRoutes(p gProg, abs func(string) string) []gRoute {
	state := map[string]string{} // open | closing | stale
	for _, h := range p.Handles {
		if h.Closed {
			state[h.Name] = "stale"
		} else {
			state[h.Name] = "open"
		}
	}
	count := map[string]int{}
	num := func(base string) string {
		k := fmt.Sprintf("%s#%d", base, count[base])
		count[base]++
		return k
	}
	rs := p.Server == "rs"
	ro := !rs && p.ReadOnly
	base := "/"
	if p.WorkDir {
		base = gRSStartDir
	}
	var out []gRoute
	for _, o := range p.Ops {
		r := gRoute{Sim: simReq{Kind: gSimKind(o.K), ID: o.ID}}
		var hd *gHandle
		live := false
		kind := ""
		if o.H != "" {
			hd = p.handle(o.H)
			switch {
			case hd == nil:
				r.HKind = "bogus"
			case state[o.H] == "open":
				kind = p.effKind(hd)
				r.HKind, live = kind, true
			case state[o.H] == "stale":
				r.HKind = "stale"
			default:
				panic("program uses handle " + o.H + " while its CLOSE may still be running: " + p.text())
			}
		} else if o.Nx > 0 {
			r.HKind = "predicted" // no instrumented call is expected or excluded
		}
		obj := ""
		if hd != nil {
			obj = abs(hd.Path)
		}
		// sent: the form in which the paths of this request go over the wire
		sent := abs
		if p.WorkDir && !o.Abs {
			sent = func(s string) string { return s }
		}
		switch {
		case ro && gDeniedKinds[o.K]:
			r.Denied = true
			r.WantCode = wire.PermissionDenied
		case o.K == "read" || o.K == "write":
			if !live {
				break
			}
			want := map[string]bool{"read": kind == "get" || kind == "rw", "write": kind == "put" || kind == "rw"}[o.K]
			r.Mismatch = !want
			switch {
			case rs && r.Mismatch && kind == "dir":
				r.Forbidden = "ls:" + obj + "#"
			case rs && r.Mismatch:
				r.Forbidden = fmt.Sprintf("rw:%s:%d", obj, o.Off)
			default: // the os-backed server passes the call to the file; the kernel refuses what the open mode forbids
				r.Sim.Gate = fmt.Sprintf("rw:%s:%d", obj, o.Off)
			}
		case o.K == "readdir":
			if !live {
				break
			}
			r.Mismatch = kind != "dir"
			switch {
			case !rs:
				r.Sim.Gate = num("readdir:" + obj)
			case kind == "dir":
				r.Sim.Gate = num("ls:" + obj)
			case kind == "get" || kind == "put":
				r.Forbidden = fmt.Sprintf("rw:%s:0", obj)
			}
		case o.K == "fstat":
			if live {
				if rs {
					r.Sim.Gate = num("list:Stat:" + obj)
				} else {
					r.Sim.Gate = num("stat:" + obj)
				}
			}
		case o.K == "fsetstat":
			if live {
				if rs {
					r.Sim.Gate = num("cmd:Setstat:" + obj)
				} else if o.AF&wire.ASize != 0 { // the os-backed server applies size, permissions, owner in this order; programs set at most one of them
					r.Sim.Gate = num("trunc:" + obj)
				} else if o.AF&wire.APerm != 0 {
					r.Sim.Gate = num("chmod:" + obj)
				} else if o.AF&wire.AUIDGID != 0 {
					r.Sim.Gate = num("chown:" + obj)
				}
			}
		case o.K == "close":
			if live {
				r.CloseKey = "close:" + obj
				state[o.H] = "closing"
			}
		case o.K == "fsync" || o.K == "extunknown":
		default: // path requests
			if !rs {
				break
			}
			ifc := p.Ifaces
			pp := gCleanWithBase(base, sent(o.P)) // what the handler finds in Request.Filepath
			switch o.K {
			case "stat":
				r.Sim.Gate = num("list:Stat:" + pp)
			case "lstat":
				if ifc.NoLstat {
					r.Fallback = "Filelist(Stat)"
					r.Sim.Gate = num("list:Stat:" + pp)
				} else {
					r.Sim.Gate = num("lstat:" + pp)
				}
			case "opendir":
				r.Sim.Gate = num("list:List:" + pp)
			case "open":
				r.Sim.Gate = num("open:Get:" + pp)
			case "openrw":
				if ifc.NoOpenFile {
					r.Fallback = "Filewrite(Put)"
					r.Sim.Gate = num("open:Put:" + pp)
				} else {
					r.Sim.Gate = num("open:Open:" + pp)
				}
			case "openw":
				r.Sim.Gate = num("open:Put:" + pp)
			case "realpath": // the handler is given the path as sent
				if ifc.RealPath == "none" {
					r.NoCall = "RealPathFileLister" // the server cleans the path itself: NAME (or, as for every request, an error status)
				} else {
					r.Sim.Gate = num("realpath:" + gKeyPath(o.pth(sent)))
				}
			case "readlink":
				lp := gKeyPath(gCleanWithBase(base, o.pth(sent)))
				if ifc.NoReadlink {
					r.Fallback = "Filelist(Readlink)"
					r.Sim.Gate = num("list:Readlink:" + lp)
				} else {
					r.Sim.Gate = num("readlink:" + lp)
				}
			case "statvfs":
				if ifc.NoStatVFS {
					r.NoCall, r.WantCode = "StatVFSFileCmder", wire.OpUnsupported
				} else {
					r.Sim.Gate = num("cmd:StatVFS:" + pp)
				}
			case "posixrename":
				if ifc.NoPosixRename {
					r.Fallback = "Filecmd(Rename)"
					r.Sim.Gate = num("cmd:Rename:" + pp)
				} else {
					r.Sim.Gate = num("cmd:PosixRename:" + pp)
				}
			case "symlink": // Request.Filepath is the target exactly as sent
				r.Sim.Gate = num("cmd:Symlink:" + sent(o.P))
			default:
				m := map[string]string{"remove": "Remove", "rmdir": "Rmdir", "setstat": "Setstat", "mkdir": "Mkdir", "rename": "Rename", "hardlink": "Link"}[o.K]
				r.Sim.Gate = num("cmd:" + m + ":" + pp)
			}
		}
		if r.Sim.Kind != 'w' { // a command request has passed through the command worker: earlier CLOSEs are done
			for k, v := range state {
				if v == "closing" && !(o.K == "close" && k == o.H) {
					state[k] = "stale"
				}
			}
		}
		out = append(out, r)
	}
	return out
}

// gSimReqs is the program as the pipeline simulator sees it.
func gSimReqs(p gProg) []simReq {
	rts := gRoutes(p, (&gCase{Prog: p}).abs("/R"))
	reqs := make([]simReq, len(rts))
	for i := range rts {
		reqs[i] = rts[i].Sim
	}
	return reqs
}

// ---- request server: instrumented handlers over a virtual tree ----

type gInfo struct {
	name string
	size int64
	dir  bool
}

func (i gInfo) Name() string { return i.name }
func (i gInfo) Size() int64  { return i.size }
func (i gInfo) Mode() os.FileMode {
	if i.dir {
		return os.ModeDir | 0o755
	}
	return 0o644
}
func (i gInfo) ModTime() time.Time { return gOldTime }
func (i gInfo) IsDir() bool        { return i.dir }
func (i gInfo) Sys() any           { return nil }

type gRS struct {
	hub *gHub
	mu  sync.Mutex
	obj map[string]*gRSFile // by path, most recent open
}

type gRSFile struct {
	rs     *gRS
	path   string
	ctx    context.Context // the context of the request that opened the object
	mu     sync.Mutex
	writes map[int64][]byte
}

// gCtxDone: the context of the OPEN / OPENDIR request has been cancelled.
func gCtxDone(ctx context.Context) bool { return ctx != nil && ctx.Err() != nil }

// gSeen is what a handler found in the request it was given: flags and attribute block, raw and decoded (the effect
// of a SETSTAT / FSETSTAT / OPEN on a request server is what its handler is shown).
func gSeen(r *sftp.Request) []byte {
	at := "undecodable"
	if fs := r.Attributes(); fs != nil {
		at = fmt.Sprintf("%+v", *fs)
	}
	return []byte(fmt.Sprintf("method=%s path=%s target=%s flags=%#x attr-flags=%+v attributes=%s raw=%x", r.Method, gKeyPath(r.Filepath), r.Target, r.Flags, r.AttrFlags(), at, r.Attrs))
}

func (f *gRSFile) base() string { return path.Base(f.path) }

func (f *gRSFile) ReadAt(b []byte, off int64) (int, error) {
	c := f.rs.hub.enter("ReadAt", f.path, fmt.Sprintf("rw:%s:%d", f.path, off), false, off, b, true)
	f.rs.hub.ctxState(c, f.ctx)
	size := gSize(f.base())
	n := 0
	var err error
	if off >= size {
		err = io.EOF
	} else {
		want := int64(len(b))
		if want > size-off {
			want = size - off
		}
		n = copy(b, gContent(f.base(), off, int(want)))
		if n < len(b) {
			err = io.EOF
		}
	}
	f.rs.hub.leave(c, n, err, b[:n])
	return n, err
}

func (f *gRSFile) WriteAt(b []byte, off int64) (int, error) {
	c := f.rs.hub.enter("WriteAt", f.path, fmt.Sprintf("rw:%s:%d", f.path, off), false, off, b, true)
	f.rs.hub.ctxState(c, f.ctx)
	cp := append([]byte(nil), b...)
	f.mu.Lock()
	f.writes[off] = cp
	f.mu.Unlock()
	f.rs.hub.leave(c, len(b), nil, cp)
	return len(b), nil
}

func (f *gRSFile) Close() error {
	c := f.rs.hub.enter("Close", f.path, "close:"+f.path, false, 0, nil, false)
	f.rs.hub.ctxState(c, f.ctx)
	f.rs.hub.leave(c, 0, nil, nil)
	return nil
}

type gRSDir struct {
	rs   *gRS
	path string
	ctx  context.Context
}

func (d *gRSDir) ListAt(ls []os.FileInfo, off int64) (int, error) {
	c := d.rs.hub.enter("ListAt", d.path, "ls:"+d.path, true, off, nil, true)
	d.rs.hub.ctxState(c, d.ctx)
	ents := gDirEntries(path.Base(d.path))
	n := 0
	var names []string
	for i := int(off); i < len(ents) && n < len(ls); i++ {
		ls[n] = gInfo{name: ents[i], size: int64(100 + i)}
		names = append(names, ents[i])
		n++
	}
	var err error
	if int(off)+n >= len(ents) {
		err = io.EOF
	}
	d.rs.hub.leave(c, n, err, []byte(strings.Join(names, ",")))
	return n, err
}

func (d *gRSDir) Close() error {
	c := d.rs.hub.enter("Close", d.path, "close:"+d.path, false, 0, nil, false)
	d.rs.hub.ctxState(c, d.ctx)
	d.rs.hub.leave(c, 0, nil, nil)
	return nil
}

type gOneInfo struct{ fi os.FileInfo }

func (l gOneInfo) ListAt(ls []os.FileInfo, off int64) (int, error) {
	if off > 0 || len(ls) == 0 {
		return 0, io.EOF
	}
	ls[0] = l.fi
	return 1, io.EOF
}

func gPathErr(p string) error {
	b := path.Base(p)
	switch {
	case gIsMissing(b):
		return os.ErrNotExist
	case strings.HasPrefix(b, "denied"):
		return os.ErrPermission
	}
	return nil
}

func (g *gRS) open(r *sftp.Request) (*gRSFile, error) {
	c := g.hub.enter("Open"+r.Method, r.Filepath, "open:"+r.Method+":"+r.Filepath, true, 0, nil, true)
	err := gPathErr(r.Filepath)
	var f *gRSFile
	if err == nil {
		f = &gRSFile{rs: g, path: r.Filepath, ctx: r.Context(), writes: map[int64][]byte{}}
		g.mu.Lock()
		g.obj[r.Filepath] = f
		g.mu.Unlock()
	}
	g.hub.leave(c, 0, err, gSeen(r))
	return f, err
}

func (g *gRS) Fileread(r *sftp.Request) (io.ReaderAt, error) {
	f, err := g.open(r)
	if err != nil {
		return nil, err
	}
	return f, nil
}

func (g *gRS) Filewrite(r *sftp.Request) (io.WriterAt, error) {
	f, err := g.open(r)
	if err != nil {
		return nil, err
	}
	return f, nil
}

func (g *gRS) OpenFile(r *sftp.Request) (sftp.WriterAtReaderAt, error) {
	f, err := g.open(r)
	if err != nil {
		return nil, err
	}
	return f, nil
}

func (g *gRS) Filecmd(r *sftp.Request) error {
	c := g.hub.enter("Filecmd", r.Filepath, "cmd:"+r.Method+":"+r.Filepath, true, 0, nil, true)
	err := gPathErr(r.Filepath)
	g.hub.leave(c, 0, err, gSeen(r))
	return err
}

func (g *gRS) PosixRename(r *sftp.Request) error {
	c := g.hub.enter("PosixRename", r.Filepath, "cmd:PosixRename:"+r.Filepath, true, 0, nil, true)
	err := gPathErr(r.Filepath)
	g.hub.leave(c, 0, err, nil)
	return err
}

func (g *gRS) StatVFS(r *sftp.Request) (*sftp.StatVFS, error) {
	c := g.hub.enter("StatVFS", r.Filepath, "cmd:StatVFS:"+r.Filepath, true, 0, nil, true)
	err := gPathErr(r.Filepath)
	g.hub.leave(c, 0, err, nil)
	if err != nil {
		return nil, err
	}
	return &sftp.StatVFS{Bsize: 4096, Frsize: 4096, Blocks: 1000, Bfree: 500, Bavail: 400, Files: 100, Ffree: 50, Favail: 40, Fsid: 7, Flag: 0, Namemax: 255}, nil
}

func gStatInfo(p string) os.FileInfo {
	b := path.Base(p)
	return gInfo{name: b, size: gSize(b), dir: gIsDirName(b)}
}

func (g *gRS) Filelist(r *sftp.Request) (sftp.ListerAt, error) {
	c := g.hub.enter("Filelist"+r.Method, gKeyPath(r.Filepath), "list:"+r.Method+":"+gKeyPath(r.Filepath), true, 0, nil, true)
	err := gPathErr(r.Filepath)
	if err == nil && r.Method == "List" && !gIsDirName(path.Base(r.Filepath)) {
		err = os.ErrInvalid
	}
	g.hub.leave(c, 0, err, nil)
	if err != nil {
		return nil, err
	}
	if r.Method == "List" {
		return &gRSDir{rs: g, path: r.Filepath, ctx: r.Context()}, nil
	}
	return gOneInfo{gStatInfo(r.Filepath)}, nil
}

func (g *gRS) Lstat(r *sftp.Request) (sftp.ListerAt, error) {
	c := g.hub.enter("Lstat", r.Filepath, "lstat:"+r.Filepath, true, 0, nil, true)
	err := gPathErr(r.Filepath)
	g.hub.leave(c, 0, err, nil)
	if err != nil {
		return nil, err
	}
	return gOneInfo{gStatInfo(r.Filepath)}, nil
}

func (g *gRS) RealPath(p string) (string, error) {
	c := g.hub.enter("RealPath", gKeyPath(p), "realpath:"+gKeyPath(p), true, 0, nil, true)
	err := gPathErr(p)
	g.hub.leave(c, 0, err, nil)
	if err != nil {
		return "", err
	}
	return path.Clean("/" + p), nil
}

func (g *gRS) Readlink(p string) (string, error) {
	c := g.hub.enter("Readlink", gKeyPath(p), "readlink:"+gKeyPath(p), true, 0, nil, true)
	err := gPathErr(p)
	g.hub.leave(c, 0, err, nil)
	if err != nil {
		return "", err
	}
	switch {
	case len(p) > 300: // a link with a very long name has a target of the same length
		return "/" + strings.Repeat("t", len(p)-1), nil
	case strings.HasPrefix(path.Base(p), "lnkmax"): // as on a file system: a target of nearly PATH_MAX bytes
		return gLongTarget, nil
	}
	return "/s0", nil
}

// gLegacyRealPath is RealPath with the signature of old versions of the package (no error result).
type gLegacyRealPath struct{ g *gRS }

func (l gLegacyRealPath) RealPath(p string) string {
	c := l.g.hub.enter("RealPath(legacy)", gKeyPath(p), "realpath:"+gKeyPath(p), true, 0, nil, true)
	l.g.hub.leave(c, 0, nil, nil)
	return path.Clean("/" + p)
}

// The method sets the handler values of a run are put together from (an embedded interface contributes exactly
// its own methods, so a struct of some of them implements exactly the optional interfaces it is meant to).
type (
	gIFilewrite interface {
		Filewrite(*sftp.Request) (io.WriterAt, error)
	}
	gIFilecmd interface {
		Filecmd(*sftp.Request) error
	}
	gIPosixRename interface {
		PosixRename(*sftp.Request) error
	}
	gIStatVFS interface {
		StatVFS(*sftp.Request) (*sftp.StatVFS, error)
	}
	gIFilelist interface {
		Filelist(*sftp.Request) (sftp.ListerAt, error)
	}
	gILstat interface {
		Lstat(*sftp.Request) (sftp.ListerAt, error)
	}
	gIReadlink interface {
		Readlink(string) (string, error)
	}
	gIRealPath interface {
		RealPath(string) (string, error)
	}
)

// handlers returns the handler set that lacks the optional interfaces named by i.
func (g *gRS) handlers(i gIfaces) sftp.Handlers {
	h := sftp.Handlers{FileGet: g, FilePut: g}
	if i.NoOpenFile {
		h.FilePut = struct{ gIFilewrite }{g}
	}
	switch {
	case i.NoPosixRename && i.NoStatVFS:
		h.FileCmd = struct{ gIFilecmd }{g}
	case i.NoPosixRename:
		h.FileCmd = struct {
			gIFilecmd
			gIStatVFS
		}{g, g}
	case i.NoStatVFS:
		h.FileCmd = struct {
			gIFilecmd
			gIPosixRename
		}{g, g}
	default:
		h.FileCmd = struct {
			gIFilecmd
			gIPosixRename
			gIStatVFS
		}{g, g, g}
	}
	lg := gLegacyRealPath{g}
	k := 0
	if !i.NoLstat {
		k |= 1
	}
	if !i.NoReadlink {
		k |= 2
	}
	switch i.RealPath {
	case "none":
		switch k {
		case 0:
			h.FileList = struct{ gIFilelist }{g}
		case 1:
			h.FileList = struct {
				gIFilelist
				gILstat
			}{g, g}
		case 2:
			h.FileList = struct {
				gIFilelist
				gIReadlink
			}{g, g}
		default:
			h.FileList = struct {
				gIFilelist
				gILstat
				gIReadlink
			}{g, g, g}
		}
	case "legacy":
		switch k {
		case 0:
			h.FileList = struct {
				gIFilelist
				gLegacyRealPath
			}{g, lg}
		case 1:
			h.FileList = struct {
				gIFilelist
				gILstat
				gLegacyRealPath
			}{g, g, lg}
		case 2:
			h.FileList = struct {
				gIFilelist
				gIReadlink
				gLegacyRealPath
			}{g, g, lg}
		default:
			h.FileList = struct {
				gIFilelist
				gILstat
				gIReadlink
				gLegacyRealPath
			}{g, g, g, lg}
		}
	default:
		switch k {
		case 0:
			h.FileList = struct {
				gIFilelist
				gIRealPath
			}{g, g}
		case 1:
			h.FileList = struct {
				gIFilelist
				gILstat
				gIRealPath
			}{g, g, g}
		case 2:
			h.FileList = struct {
				gIFilelist
				gIReadlink
				gIRealPath
			}{g, g, g}
		default:
			h.FileList = struct {
				gIFilelist
				gILstat
				gIReadlink
				gIRealPath
			}{g, g, g, g}
		}
	}
	return h
}

// gIfacesOf reads back which optional interfaces a handler set implements (as the package's type assertions see
// it); gExec compares it with what the case asked for, so that a slip in the table above cannot go unnoticed.
func gIfacesOf(h sftp.Handlers) gIfaces {
	var i gIfaces
	_, ok := h.FileCmd.(sftp.StatVFSFileCmder)
	i.NoStatVFS = !ok
	_, ok = h.FileCmd.(sftp.PosixRenameFileCmder)
	i.NoPosixRename = !ok
	_, ok = h.FileList.(sftp.LstatFileLister)
	i.NoLstat = !ok
	_, ok = h.FilePut.(sftp.OpenFileWriter)
	i.NoOpenFile = !ok
	_, ok = h.FileList.(sftp.ReadlinkFileLister)
	i.NoReadlink = !ok
	if _, ok = h.FileList.(sftp.RealPathFileLister); !ok {
		i.RealPath = "none"
		if _, ok = h.FileList.(interface {
			sftp.FileLister
			RealPath(string) string
		}); ok {
			i.RealPath = "legacy"
		}
	}
	return i
}

// ---- os-backed server: instrumented file ----

type gOSFile struct {
	f   sftp.VerifFile
	hub *gHub
	obj string
}

func (w *gOSFile) Stat() (os.FileInfo, error) {
	c := w.hub.enter("Stat", w.obj, "stat:"+w.obj, true, 0, nil, true)
	fi, err := w.f.Stat()
	w.hub.leave(c, 0, err, nil)
	return fi, err
}

func (w *gOSFile) ReadAt(b []byte, off int64) (int, error) {
	c := w.hub.enter("ReadAt", w.obj, fmt.Sprintf("rw:%s:%d", w.obj, off), false, off, b, true)
	n, err := w.f.ReadAt(b, off)
	w.hub.leave(c, n, err, b[:n])
	return n, err
}

func (w *gOSFile) WriteAt(b []byte, off int64) (int, error) {
	c := w.hub.enter("WriteAt", w.obj, fmt.Sprintf("rw:%s:%d", w.obj, off), false, off, b, true)
	cp := append([]byte(nil), b...)
	n, err := w.f.WriteAt(b, off)
	w.hub.leave(c, n, err, cp)
	return n, err
}

func (w *gOSFile) Readdir(k int) ([]os.FileInfo, error) {
	c := w.hub.enter("Readdir", w.obj, "readdir:"+w.obj, true, 0, nil, true)
	fis, err := w.f.Readdir(k)
	var names []string
	for _, fi := range fis {
		names = append(names, fi.Name())
	}
	w.hub.leave(c, len(fis), err, []byte(strings.Join(names, ",")))
	return fis, err
}

func (w *gOSFile) Name() string { return w.f.Name() }

func (w *gOSFile) Truncate(n int64) error {
	c := w.hub.enter("Truncate", w.obj, "trunc:"+w.obj, true, 0, nil, true)
	err := w.f.Truncate(n)
	w.hub.leave(c, 0, err, nil)
	return err
}

func (w *gOSFile) Chmod(m os.FileMode) error {
	c := w.hub.enter("Chmod", w.obj, "chmod:"+w.obj, true, 0, nil, true)
	err := w.f.Chmod(m)
	w.hub.leave(c, 0, err, nil)
	return err
}

func (w *gOSFile) Chown(u, g int) error {
	c := w.hub.enter("Chown", w.obj, "chown:"+w.obj, true, 0, nil, true)
	err := w.f.Chown(u, g)
	w.hub.leave(c, 0, err, nil)
	return err
}

func (w *gOSFile) Close() error {
	c := w.hub.enter("Close", w.obj, "close:"+w.obj, false, 0, nil, false)
	err := w.f.Close()
	w.hub.leave(c, 0, err, nil)
	return err
}

// gBuildTree creates the scratch tree a program needs under root (which is emptied first).
func gBuildTree(root string, p gProg) error {
	os.RemoveAll(root)
	if err := os.MkdirAll(root, 0o755); err != nil {
		return err
	}
	mkfile := func(name string, data []byte) error { return os.WriteFile(filepath.Join(root, name), data, 0o644) }
	mkdir := func(name string) error {
		if err := os.MkdirAll(filepath.Join(root, name), 0o755); err != nil {
			return err
		}
		for _, e := range gDirEntries(name) {
			if err := os.WriteFile(filepath.Join(root, name, e), []byte(e), 0o644); err != nil {
				return err
			}
		}
		return nil
	}
	done := map[string]bool{}
	obj := func(name string) error {
		if done[name] || gIsMissing(name) || name == "" || name == "lnk" {
			return nil
		}
		if strings.HasPrefix(name, "ow") || strings.HasPrefix(name, "mk") { // made by the requests themselves (OPEN with creation, MKDIR)
			return nil
		}
		done[name] = true
		if strings.HasPrefix(name, "lnkmax") {
			return os.Symlink(gLongTarget, filepath.Join(root, name))
		}
		if gIsDirName(name) {
			return mkdir(name)
		}
		return mkfile(name, gContent(name, 0, int(gSize(name))))
	}
	for _, h := range p.Handles {
		if err := obj(h.Path); err != nil {
			return err
		}
	}
	for _, n := range []string{"s0", "s1", "sd"} {
		if err := obj(n); err != nil {
			return err
		}
	}
	os.Symlink("s0", filepath.Join(root, "lnk"))
	for _, o := range p.Ops {
		if o.P == "" || gIsMissing(o.P) {
			continue
		}
		var err error
		switch o.K {
		case "rmdir":
			err = os.Mkdir(filepath.Join(root, o.P), 0o755)
		case "remove", "rename", "posixrename", "hardlink", "setstat":
			if !done[o.P] {
				done[o.P] = true
				err = mkfile(o.P, []byte("victim "+o.P))
			}
		case "mkdir", "symlink", "realpath", "openw":
		default:
			err = obj(o.P)
		}
		if err != nil && !os.IsExist(err) {
			return err
		}
	}
	// fixed times on everything (directories after their contents)
	var all []string
	filepath.Walk(root, func(p string, fi os.FileInfo, err error) error {
		if err == nil && fi.Mode()&os.ModeSymlink == 0 {
			all = append(all, p)
		}
		return nil
	})
	sort.Sort(sort.Reverse(sort.StringSlice(all)))
	for _, p := range all {
		os.Chtimes(p, gFutureAtime, gOldTime)
	}
	return nil
}
