package main

// C13 — TWO non-ok events in one transfer, in both arrival orders.
//
// The reducers of the concurrent paths pick "the lowest offset at which the transfer stopped" among outcomes that
// arrive in reply order. One failing chunk, or several of the same kind, cannot tell a reducer that compares offsets
// from one that also looks at the KIND of the outcome (end of file against failure, one status code against another).
// Here chunk i < chunk j of one transfer both end it, with different kinds:
//
//	chunk i: a short DATA reply (the file ends inside it), the status SSH_FX_EOF because the file ends exactly at its
//	         start, or a failure status of code a;
//	chunk j: a failure status of code b (for the reads also when chunk j lies beyond the end of the file: a server may
//	         fail any request).
//
// and the scripted peer answers them in a stated order (reply_order: i before j, j before i; a request is held until
// the ones listed before it have been answered, a short pause follows each ordered reply), whatever order they were
// sent in. The prescribed outcome (xfC13Want) is the same for both orders: that of the lower offset.

import (
	"fmt"
	"math/rand"

	"verifharness/wire"
)

// xfC13PairCases writes the pair cases of one API variant under one option set (k rotates lengths, offsets and codes).
func xfC13PairCases(rng *rand.Rand, codes []uint32, cfg xfCfg, v xfAPIVariant, k int, thorough bool) (out []xfCase) {
	mp := cfg.MP
	nch := 3 + k%3
	if mp > 1000 {
		nch = 3
	}
	last := []int{mp, 1 % mp, mp - 1}[(k/3)%3]
	if last == 0 {
		last = mp
	}
	L := (nch-1)*mp + last
	o := []int64{0, 1, int64(mp) + 1, 0}[(k/2)%4]
	base := xfCase{Srv: xfSrvSpec{Kind: "peer"}, Cfg: cfg, API: v.API, Src: v.Src, RFC: v.RFC, RW: k%2 == 0, Off: o, Len: L, Seed: rng.Intn(251), Window: 1}
	isReadAt := v.API == "ReadAt" || v.API == "Read"
	switch {
	case isReadAt:
		base.FileLen = int(o) + L + []int{0, mp + 1}[k%2]
	case v.API == "WriteTo":
		base.FileLen, base.Len = int(o)+L, 0
	default:
		base.FileLen = []int{0, int(o) + L, int(o) + L/2, int(o) + L + 3}[k%4]
	}
	if base.Path() != "concurrent" {
		return nil // (the sequential loops stop at the first event: one failing chunk says everything there)
	}
	plan := xfPlan(mp, o, L)
	type pr struct{ i, j int }
	pairs := []pr{{0, 1}, {nch - 2, nch - 1}, {0, nch - 1}, {(nch - 1) / 2, (nch-1)/2 + 1}}
	if thorough {
		pairs = nil
		for i := 0; i < nch; i++ {
			for j := i + 1; j < nch; j++ {
				pairs = append(pairs, pr{i, j})
			}
		}
	}
	seen := map[pr]bool{}
	kinds := []string{"status"}
	if isReadAt {
		kinds = []string{"status", "short", "end"}
	}
	nc := len(codes)
	for pi, p := range pairs {
		if seen[p] || p.i >= p.j || p.j >= len(plan) {
			continue
		}
		seen[p] = true
		oi, oj := plan[p.i].Off, plan[p.j].Off
		for ki, kind := range kinds {
			cs := base
			a := codes[(k+pi+ki)%nc]
			b := codes[(k*7+3+pi*5+ki)%nc]
			if a == b {
				b = codes[(k*7+4+pi*5+ki)%nc]
			}
			cs.Fail = map[string]xfFail{fmt.Sprint(oj): {Code: b, Msg: fmt.Sprintf("fail@%d", oj)}}
			switch kind {
			case "status":
				cs.Fail[fmt.Sprint(oi)] = xfFail{Code: a, Msg: fmt.Sprintf("fail@%d", oi)}
			case "short":
				// the file ends inside chunk i: a short DATA reply
				if plan[p.i].Len < 2 {
					continue
				}
				cs.FileLen = int(oi) + 1 + rng.Intn(plan[p.i].Len-1)
			case "end":
				// the file ends exactly where chunk i starts: the READ is answered SSH_FX_EOF by the served file itself
				cs.FileLen = int(oi)
			}
			if kind != "status" && b == wire.EOF {
				// (two ends of file: nothing to tell apart) take a failure for the higher chunk
				cs.Fail[fmt.Sprint(oj)] = xfFail{Code: xfFailCodes[(k+pi)%2*3], Msg: fmt.Sprintf("fail@%d", oj)} // FAILURE or OP_UNSUPPORTED
			}
			for _, ord := range [][]int64{{oi, oj}, {oj, oi}} {
				c2 := cs
				c2.Order = ord
				out = append(out, c2)
			}
		}
	}
	return out
}

// xfPairHist names the pair of a case with a reply order (for the histogram).
func xfPairHist(cs xfCase, ordered int) string {
	if len(cs.Order) != 2 {
		return ""
	}
	lowFirst := cs.Order[0] < cs.Order[1]
	lo, hi := cs.Order[0], cs.Order[1]
	if !lowFirst {
		lo, hi = hi, lo
	}
	kind := func(off int64) string {
		if f, ok := cs.Fail[fmt.Sprint(off)]; ok {
			if f.Code == wire.EOF {
				return "status-EOF"
			}
			return "failure"
		}
		if int64(cs.FileLen) <= off {
			return "end-of-file-status"
		}
		return "short-DATA"
	}
	ord := "higher-offset-answered-first"
	if lowFirst {
		ord = "lower-offset-answered-first"
	}
	return fmt.Sprintf("pair|api=%s|lower=%s|higher=%s|%s|answered-in-that-order=%v", cs.API, kind(lo), kind(hi), ord, ordered == 2)
}
