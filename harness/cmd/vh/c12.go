package main

// C12 — a remote File keeps os.File's offset and closed-state semantics.
//
// (a) offset sweep: WriteTo from every start offset class on files of every size class, for the
//     sequential and the concurrent reader (pins known defect F12 with its minimal input);
// (b) PRNG sequences of File method calls (Read, ReadAt, Write, WriteAt, ReadFrom, ReadFromWith-
//     Concurrency, WriteTo, Seek with whence 0/1/2/invalid and negative results, Stat, Truncate, Close,
//     calls after Close) against a real File on the os-backed server, the request server and the
//     scripted peer, mirrored call by call on a real *os.File over a twin local file; after every call
//     the two offsets (Seek(0, io.SeekCurrent)), counts, data and error categories are compared, after
//     every mutation the two file contents; after Close every method must return os.ErrClosed, exactly
//     one close reached the server and no request with the closed handle arrived afterwards;
// (b') the NAME of the served file is disturbed between calls while the handle stays open (op "nm": renamed away,
//     removed, rotated = renamed away + a new file under the old name, replaced by a shorter/longer file renamed
//     over it, replaced by a directory, by a symbolic link to another file, by a dangling link). On the os-backed
//     server this is done to the real file, on the request server and the scripted peer STAT/LSTAT of the path
//     answer what the name now shows while FSTAT of the handle keeps answering for the open file. The os.File twin's
//     name is treated the same way; an os.File follows its descriptor, so must the File: every call must keep
//     agreeing with the twin. In addition the requests a Seek puts on the wire are looked at: nothing for
//     start/current-relative seeks, exactly one FSTAT carrying the handle for an end-relative one.
//     (Documented difference, not reported: WriteTo with concurrent reads and without UseFstat(true) sizes its
//     worker pool by STAT of the path; when the name is gone it returns that error having transferred nothing.)
// (b'') chains of offset-relative calls on one handle (xfChainSeq): every transfer variant from a non-zero offset, a
//     follower, the variant again … so that "offset = start + n" cannot be confused with "offset = n";
//     the open mode of the File rotates (xfSeqOpenModes); servers include the os-backed one with WithMaxTxPacket and a
//     request server whose FilePut is no OpenFileWriter (reads through the handle must fail cleanly).
// (b3) a client packet size ABOVE what the server returns per READ (xfGenCapSeq, and the generators above under the
//     same configurations): every chunk of a read is then filled by several READ requests, the 2nd, 3rd, … asking for
//     the rest at chunk offset + bytes so far, while count and File offset advance by the bytes copied. Client packet
//     sizes 2*cap+1, 3*cap, 100000, 262000 (MaxPacketUnchecked) against the real servers with the default max payload
//     (cap 32768) and with WithMaxTxPacket(65536), and small packet sizes against the scripted peer whose DATA replies
//     carry at most 1, 2, 3 (or 10000 of 32768) bytes: a chunk takes three or more READs. Only the REFILLING read
//     paths are asked: with UseConcurrentReads(false) everything (Read/ReadAt of any length, sequential WriteTo);
//     with concurrent reads on, Read/ReadAt of at most one packet and WriteTo of a file of at most one packet
//     (sequential after STAT). (The concurrent readers treat a short DATA reply as end of file: with a packet size
//     above the server's max payload they lose data on the unchanged code - outside C01's quantifier "as long as the
//     client's packet size does not exceed the server's maximum payload" and not asked here.)
// (c) race: goroutines hammer ReadAt/WriteAt/Stat/Truncate while two others call Close; the raw
//     client->server byte stream is parsed: one CLOSE frame, no frame with that handle after it.
// (b5/b6) the same generators against the request server over sftp.InMemHandler() (xfer_inmem.go), and histories of one
//     file (xfer_hist.go; op ro = Close + open the same name again, possibly with O_TRUNC / Create()).
// (d) the reply to the CLOSE request itself (c12_closereply.go): a failure status, a cut connection, a handler object
//     whose Close() fails - the File is closed all the same: every method afterwards answers os.ErrClosed, one CLOSE
//     was sent, nothing naming the handle follows.
// (f) a File method FAILS (refused with a status code, answered with a malformed reply, the connection cut, or failing by
//     itself), then every other method is called, then Close (c12_afterfail.go): the failed call leaves the offset where
//     an os.File's would be, the File stays open and usable, Close returns and sends its one CLOSE.
// Model: every sequence is also evaluated by the Lean driver op xfer.seq (when present).

import (
	"bytes"
	"encoding/json"
	"errors"
	"fmt"
	"io"
	"math"
	"math/rand"
	"os"
	"path/filepath"
	"runtime"
	"sort"
	"strings"
	"sync"
	"sync/atomic"
	"time"

	"github.com/pkg/sftp"

	"verifharness/lib"
	"verifharness/wire"
)

func init() {
	register("c12", func(c *lib.Ctx) { xfInChild(c, "c12", checkC12) })
}

const xfKeyF12 = "writeto-concurrent/offset-after-eof"

type xfOp struct {
	// r ra w wa rf rfc wt sk st tr cl nm; ro: Close, then open the same name again in mode Act (xfOpenModeList: a mode that
	// reads and writes; the O_TRUNC modes and Create() shrink the file to nothing on the way); cm co sy: Chmod, Chown, Sync
	// (written after a Close only: each must answer os.ErrClosed)
	K string `json:"k"`
	// nm: rename remove rotate replace dir symlink dangling (N: size of the file the name shows afterwards); ro: the open
	// mode; cl: what happens to the CLOSE request itself (c12_closereply.go) - "" answered OK, "refuse" answered with
	// the failure status Code, "cut" the connection is cut instead of an answer (scripted peer), "handler" the
	// request server's file object fails its Close() with the error value Src names (xfHandlerErrs)
	Act  string `json:"act,omitempty"`
	N    int    `json:"n,omitempty"`
	Off  int64  `json:"off,omitempty"`
	Wh   int    `json:"whence,omitempty"`
	Seed int    `json:"seed,omitempty"`
	Src  string `json:"src,omitempty"`
	Conc int    `json:"conc,omitempty"`
	// scripted peer only: the READ/WRITE requests of these chunk indices (of this call's chunk plan) are
	// answered with a failure status (the first with Code, the others with 4)
	Fail []int  `json:"fail_chunks,omitempty"`
	Code uint32 `json:"fail_code,omitempty"`
}

func (o xfOp) model() string {
	if len(o.Fail) > 0 {
		return "" // per-call failures are outside the driver's call syntax
	}
	switch o.K {
	case "r":
		return fmt.Sprintf("r:%d", o.N)
	case "ra":
		return fmt.Sprintf("ra:%d:%d", o.N, o.Off)
	case "w":
		return fmt.Sprintf("w:%d:%d", o.N, o.Seed)
	case "wa":
		return fmt.Sprintf("wa:%d:%d:%d", o.N, o.Seed, o.Off)
	case "rf":
		sized := 0
		switch o.Src {
		case "len", "size", "stat", "limited":
			sized = 1
		case "opaque", "opaque1":
		default:
			return ""
		}
		return fmt.Sprintf("rf:%d:%d:%d", o.N, o.Seed, sized)
	case "rfc":
		return fmt.Sprintf("rfc:%d:%d:%d", o.N, o.Seed, o.Conc)
	case "wt", "cl", "st":
		if o.Act != "" {
			return "" // what happens to the CLOSE request is outside the driver's call syntax
		}
		return o.K
	case "sk":
		if o.Wh < 0 { // the driver's call syntax has no negative whence
			return ""
		}
		return fmt.Sprintf("sk:%d:%d", o.Off, o.Wh)
	case "tr":
		return fmt.Sprintf("tr:%d", o.N)
	}
	return ""
}

type xfSeqCase struct {
	Srv     xfSrvSpec   `json:"server"`
	Cfg     xfCfg       `json:"client_options"`
	FileLen int         `json:"file_len"`
	Ops     []xfOp      `json:"ops"`
	Window  int         `json:"window,omitempty"`
	Seed    int64       `json:"perm_seed,omitempty"`
	Limit   int64       `json:"rs_write_limit,omitempty"` // request server only: writes reaching beyond this offset are refused by the handler
	Race    *xfRace     `json:"race,omitempty"`           // a race trial instead of a sequence
	Pair    *xfPairRace `json:"pair,omitempty"`           // two calls leaving a barrier together, many times (c12_pairs.go)
	Stall   *xfStall    `json:"stall,omitempty"`          // a transfer whose source/sink stalls, Close, then it goes on (c12_stall.go)
	// a File method fails, then every other method is called, then Close (c12_afterfail.go)
	After *xfAfterFail `json:"after_fail,omitempty"`
	// Open: the mode the File is opened in ("" = rdwr; see xfOpenModeList). For the modes that empty the file file_len
	// is the size after the open (0) and pre_open_len what the name held before.
	Open   string `json:"open,omitempty"`
	PreLen int    `json:"pre_open_len,omitempty"`
	Tag    string `json:"tag,omitempty"` // which generator wrote the sequence (histogram only)
	// scripted peer only: DATA replies carry at most this many bytes (a server may always answer a READ short)
	ShortCap int `json:"short_cap,omitempty"`
}

// ReadCap is the most bytes the server returns for one READ (0: whatever was asked for).
func (sc xfSeqCase) ReadCap() int {
	if sc.Srv.Kind == "peer" {
		return sc.ShortCap
	}
	return xfMaxTx(sc.Srv)
}

// xfReadsPerChunk: how many READ requests that return data the fullest chunk of a read of n bytes at off needs on a
// file of `size` bytes when the client asks in chunks of mp and the server returns at most cap bytes per READ.
func xfReadsPerChunk(mp, cap int, size, off, n int64) int {
	most := 0
	for ; n > 0 && off < size; off, n = off+int64(mp), n-int64(mp) {
		avail := min(n, int64(mp), size-off)
		if k := int((avail + int64(cap) - 1) / int64(cap)); k > most {
			most = k
		}
	}
	return most
}

// The modes the sequences rotate through: all of them give a handle that reads and writes.
var xfSeqOpenModes = []string{"rdwr", "rdwr+creat", "rdwr+append", "rdwr+trunc", "rdwr", "rdwr+creat", "rdwr+append", "create()", "rdwr", "rdwr+creat",
	"rdwr+append", "rdwr+creat+trunc", "rdwr", "rdwr+creat", "rdwr+append", "rdwr+creat+excl"}

func (sc xfSeqCase) Mode() xfOpenMode {
	name := sc.Open
	if name == "" {
		name = "rdwr"
	}
	m, _ := xfOpenModeByName(name)
	return m
}

// xfApplySeqOpen gives the sequence its open mode (see xfApplyOpen).
func xfApplySeqOpen(sc *xfSeqCase, name string) {
	sc.Open = name
	m := sc.Mode()
	if m.Empties() {
		sc.PreLen = sc.FileLen
		if sc.PreLen == 0 {
			sc.PreLen = min(sc.Cfg.MP+3, 70000)
		}
		sc.FileLen = 0
	}
	if m.Fresh {
		sc.PreLen = 0
	}
}

func (sc xfSeqCase) Text() string {
	var sb strings.Builder
	fmt.Fprintf(&sb, "%s %s S%d w%d q%d", sc.Srv, sc.Cfg, sc.FileLen, sc.Window, sc.Limit)
	if sc.Open != "" {
		fmt.Fprintf(&sb, " open=%s pre%d", sc.Open, sc.PreLen)
	}
	if sc.ShortCap != 0 {
		fmt.Fprintf(&sb, " cap%d", sc.ShortCap)
	}
	if sc.Pair != nil {
		fmt.Fprintf(&sb, " pair %s||%s x%d n%d o%d", sc.Pair.A, sc.Pair.B, sc.Pair.Attempts, sc.Pair.N, sc.Pair.Off)
	}
	if sc.Stall != nil {
		fmt.Fprintf(&sb, " stall %s seed%d", sc.Stall.text(), sc.Seed)
	}
	if sc.After != nil {
		fmt.Fprintf(&sb, " after-fail %s", sc.After.text())
	}
	sb.WriteByte(':')
	for _, o := range sc.Ops {
		fmt.Fprintf(&sb, " %s%s/%d/%d/%d/%s/%d", o.K, o.Act, o.N, o.Off, o.Wh, o.Src, o.Conc)
		if len(o.Fail) > 0 {
			fmt.Fprintf(&sb, "/f%v=%d", o.Fail, o.Code)
		}
	}
	return sb.String()
}

type xfSeqFailure struct {
	Key      string
	What     string
	At       int
	Expected any
	Actual   any
}

type xfSeqResult struct {
	Fails    []xfSeqFailure
	Impl     string // per-call text in the driver's format
	FileText string
	Modelled bool
	SetupErr error
	Failing  map[string]int // calls that ran with an injected failure, by kind
	Marks    map[string]int // histogram buckets the run itself contributes (name disturbances, end-relative seeks after one …)
}

// xfWriteToPath tells which reader WriteTo uses for a file of size S.
func xfWriteToPath(cfg xfCfg, S int) string {
	if !cfg.CR {
		return "sequential"
	}
	if S <= cfg.MP {
		return "sequential-after-stat"
	}
	return "concurrent"
}

// xfWriteToPathView is the same when the name the File was opened with no longer shows the open file: with
// concurrent reads and without UseFstat(true) WriteTo asks the PATH for the size its guess is based on.
func xfWriteToPathView(cfg xfCfg, S int, v xfNameView) string {
	if !cfg.CR || cfg.Fstat {
		return xfWriteToPath(cfg, S)
	}
	switch v.Kind {
	case "gone":
		return "stat-by-name-failed"
	case "dir":
		return "sequential-after-stat"
	case "file":
		return xfWriteToPath(cfg, int(v.Size))
	}
	return xfWriteToPath(cfg, S)
}

func xfWhenceName(w int) string {
	switch w {
	case io.SeekStart:
		return "start"
	case io.SeekCurrent:
		return "current"
	case io.SeekEnd:
		return "end"
	}
	return "bad-whence"
}

func xfReqName(t byte) string {
	switch t {
	case wire.Stat:
		return "STAT(path)"
	case wire.Lstat:
		return "LSTAT(path)"
	case wire.Fstat:
		return "FSTAT(handle)"
	case wire.Open:
		return "OPEN"
	case wire.Close:
		return "CLOSE"
	case wire.Read:
		return "READ"
	case wire.Write:
		return "WRITE"
	case wire.Fsetstat:
		return "FSETSTAT"
	}
	return fmt.Sprintf("type %d", t)
}

// xfReadFd reads the whole file behind an open descriptor (its name may be gone).
func xfReadFd(f *os.File) []byte {
	st, err := f.Stat()
	if err != nil {
		return nil
	}
	b := make([]byte, st.Size())
	n, _ := f.ReadAt(b, 0)
	return b[:n]
}

var xfNameActs = []string{"rename", "remove", "rotate", "replace", "dir", "symlink", "dangling"}

// xfViewAfter is what the name shows after the disturbance.
func xfViewAfter(act string, n int) (xfNameView, bool) {
	switch act {
	case "rename", "remove":
		return xfNameView{Kind: "gone"}, true
	case "rotate", "replace":
		return xfNameView{Kind: "file", Size: int64(n)}, true
	case "dir":
		return xfNameView{Kind: "dir"}, true
	case "symlink":
		return xfNameView{Kind: "file", Size: int64(n), Link: true}, true
	case "dangling":
		return xfNameView{Kind: "gone", Link: true}, true
	}
	return xfNameView{}, false
}

// xfDisturbName does it to a real name (the os-backed server's file, the os.File twin): rename = moved away,
// remove = unlinked, rotate = moved away and a new n-byte file created under the name, replace = a new n-byte file
// renamed over it, dir = a directory in its place, symlink = a link to another n-byte file, dangling = a link to
// nothing. orig: the name still holds the file that was opened (otherwise whatever is there is simply cleared).
func xfDisturbName(name, act string, n int, orig bool) error {
	away, fresh, target := name+".away", name+".new", name+".target"
	moveAway := func() error {
		if !orig {
			return os.RemoveAll(name)
		}
		os.RemoveAll(away)
		return os.Rename(name, away)
	}
	switch act {
	case "rename":
		return moveAway()
	case "remove":
		return os.RemoveAll(name)
	case "rotate":
		if err := moveAway(); err != nil {
			return err
		}
		return os.WriteFile(name, xfPat(3, n), 0o644)
	case "replace":
		if fi, err := os.Lstat(name); err == nil && fi.IsDir() {
			os.RemoveAll(name)
		}
		if err := os.WriteFile(fresh, xfPat(5, n), 0o644); err != nil {
			return err
		}
		return os.Rename(fresh, name)
	case "dir":
		if err := os.RemoveAll(name); err != nil {
			return err
		}
		return os.Mkdir(name, 0o755)
	case "symlink":
		if err := os.RemoveAll(name); err != nil {
			return err
		}
		if err := os.WriteFile(target, xfPat(9, n), 0o644); err != nil {
			return err
		}
		return os.Symlink(target, name)
	case "dangling":
		if err := os.RemoveAll(name); err != nil {
			return err
		}
		return os.Symlink(name+".nowhere", name)
	}
	return fmt.Errorf("unknown name disturbance %q", act)
}

func xfNameCleanup(name string) {
	for _, p := range []string{name, name + ".away", name + ".new", name + ".target"} {
		os.RemoveAll(p)
	}
}

// xfRunSeq runs one sequence on the implementation and its os.File twin. It stops at the first
// disagreement (after a F12 disagreement the offsets are re-synchronised and the run continues).
func xfRunSeq(sc xfSeqCase, real *xfReal, hold *xfPeerHold, dir string) (res xfSeqResult) {
	kase := lib.NewCase(xfClass(sc.Srv)) // hang account of this sequence (lib/budget.go)
	if hold != nil {
		xfInflight(hold.slot, sc)
	} else {
		xfInflight(0, sc)
	}
	initial := xfFilePat(sc.FileLen)
	mode := sc.Mode()
	if !mode.Reads() || !mode.Writes() || mode.Refuse {
		res.SetupErr = fmt.Errorf("open mode %q gives no read-write handle", sc.Open)
		return
	}
	before := initial // what the name holds before the open
	if mode.Empties() {
		before = xfFilePat(sc.PreLen)
	}
	// the request server's FilePut handler is no OpenFileWriter: the read-write open is served by Filewrite and the
	// handle serves no READ
	noRead := sc.Srv.Kind == "rs" && sc.Srv.NoOFW
	var cli *sftp.Client
	var peer *xfPeer
	path := "/f"
	closesBefore := 0
	if sc.Srv.Kind == "peer" {
		po := xfPeerOpts{File: before, Exists: !mode.Fresh, Window: sc.Window, PermSeed: sc.Seed, ShortCap: sc.ShortCap}
		if mode.Fresh {
			po.File = nil
		}
		if peer = hold.get(sc.Cfg, po, sc.FileLen*4+sc.PreLen); peer == nil {
			var err error
			if peer, err = xfNewPeer(sc.Cfg, po); err != nil {
				res.SetupErr = err
				return
			}
			hold.put(sc.Cfg, peer)
		}
		if hold == nil {
			defer peer.Shutdown()
		}
		cli = peer.Cli
	} else {
		cli = real.Cli
		path = real.Path("f")
		var err error
		if mode.Fresh {
			err = real.Remove("f")
		} else {
			err = real.Put("f", before)
		}
		if err != nil {
			res.SetupErr = err
			return
		}
		if real.Mem != nil {
			_, closesBefore = real.Mem.Counts()
			real.Mem.SetLimit(sc.Limit)
			defer real.Mem.SetLimit(0)
		}
	}
	path0 := path
	twinPath := filepath.Join(dir, "twin")
	if err := os.WriteFile(twinPath, initial, 0o644); err != nil {
		res.SetupErr = err
		return
	}
	tw, err := os.OpenFile(twinPath, os.O_RDWR, 0)
	if err != nil {
		res.SetupErr = err
		return
	}
	defer func() { tw.Close() }()
	var f *sftp.File
	if ok, _ := xfGuardK(kase, func() { f, err = mode.Open(cli, path) }); !ok || err != nil {
		if sc.Open != "" && ok {
			res.Fails = append(res.Fails, xfSeqFailure{Key: "open/" + mode.Name, What: "opening the served file in this mode failed", At: -1, Expected: "<nil>", Actual: fmt.Sprint(err)})
			return
		}
		res.SetupErr = fmt.Errorf("open: %v (returned=%v)", err, ok)
		return
	}
	hung, cutConn := false, false
	defer func() {
		if hung {
			go f.Close() // (a call that never returned holds the File's lock: Close would wait for it forever)
			return
		}
		f.Close()
		if cutConn && hold != nil {
			hold.Close() // the connection of this peer was cut: the next case gets a new one
		}
	}()
	// independent descriptors: both files stay readable whatever happens to their names
	twRef, err := os.Open(twinPath)
	if err != nil {
		res.SetupErr = err
		return
	}
	defer twRef.Close()
	var srvRef *os.File
	if real != nil && real.Spec.Kind == "os" {
		if srvRef, err = os.Open(path0); err != nil {
			res.SetupErr = err
			return
		}
		defer srvRef.Close()
	}
	getFile := func() []byte {
		if peer != nil {
			return peer.Get()
		}
		if srvRef != nil {
			return xfReadFd(srvRef)
		}
		b, _ := real.Get("f")
		return b
	}
	// what the name the File was opened with shows now
	view := xfNameView{Kind: "same"}
	disturbed := false
	defer func() {
		if !disturbed {
			return
		}
		xfNameCleanup(twinPath)
		switch {
		case peer != nil:
			peer.SetBehaviour(func(o *xfPeerOpts) { o.PathView = nil })
		case real.Mem != nil:
			real.Mem.SetNameView(path0, xfNameView{})
		case real.Spec.Kind == "os":
			xfNameCleanup(path0)
		}
	}()
	fail := func(at int, key, what string, exp, act any) {
		res.Fails = append(res.Fails, xfSeqFailure{Key: key, What: what, At: at, Expected: exp, Actual: act})
	}
	closed := false
	wantCloses := 1 // CLOSE requests the whole sequence must send: one, and one more for every reopening (op ro)
	lastOff := int64(0)
	// virt: the File offset as the seek arithmetic gives it, while it is a position the os.File twin cannot be at (the
	// file system of the twin refuses positions beyond its maximal file size; an sftp.File has no such limit). Only
	// Seek calls are judged in that state (by the arithmetic); before any other call the File is brought back to the
	// twin's offset.
	var virt *int64
	var parts []string
	res.Modelled = sc.Limit == 0
	res.Failing = map[string]int{}
	res.Marks = map[string]int{}
	for i, op := range sc.Ops {
		if op.K == "nm" {
			// the name is disturbed, on both sides alike; the handles stay open. (The model does not know names:
			// it is asked the same sequence without these steps, which is what the property says.)
			nv, ok := xfViewAfter(op.Act, op.N)
			if !ok {
				res.SetupErr = fmt.Errorf("unknown name disturbance %q", op.Act)
				return
			}
			disturbed = true
			if err := xfDisturbName(twinPath, op.Act, op.N, view.Kind == "same"); err != nil {
				res.SetupErr = fmt.Errorf("twin: %v", err)
				return
			}
			switch {
			case peer != nil:
				v := nv
				peer.SetBehaviour(func(o *xfPeerOpts) { o.PathView = &v })
			case real.Mem != nil:
				real.Mem.SetNameView(path0, nv)
			case real.Spec.Kind != "os":
				// (sftp.InMemHandler: its names are not the host's; the generators write no nm steps for it)
				res.SetupErr = fmt.Errorf("a name disturbance needs the os-backed server, the harness's handlers or the scripted peer")
				return
			default:
				if ok, why := lib.InScratch("", path0); !ok {
					res.SetupErr = fmt.Errorf("name disturbance outside the scratch directory not run: %s", why)
					return
				}
				if err := xfDisturbName(path0, op.Act, op.N, view.Kind == "same"); err != nil {
					res.SetupErr = fmt.Errorf("served file: %v", err)
					return
				}
			}
			view = nv
			res.Marks["call=nm|"+op.Act]++
			continue
		}
		if op.K == "ro" {
			// Close, then open the same name again in another mode, on both sides alike. (The model has one handle.)
			m, okm := xfOpenModeByName(op.Act)
			if closed || !okm || !m.Reads() || !m.Writes() || m.Refuse || m.Fresh || view.Kind != "same" || noRead {
				res.SetupErr = fmt.Errorf("reopening (op ro, mode %q) is not possible at call #%d", op.Act, i)
				return
			}
			res.Modelled = false
			var cerr, oerr error
			var nf *sftp.File
			okc, pnc := xfGuardK(kase, func() {
				if cerr = f.Close(); cerr == nil {
					nf, oerr = m.Open(cli, path0)
				}
			})
			switch {
			case !okc:
				fail(i, "seq/ro/hang", "Close + open again did not return within 20 s", "return", "hang")
				hung = true
				if hold != nil {
					hold.Close()
				}
				return
			case pnc != nil:
				fail(i, "seq/ro/panic", "Close + open again panicked", nil, fmt.Sprint(pnc))
				return
			case cerr != nil:
				fail(i, "seq/ro/close", "Close (before the name is opened again) failed", "<nil>", cerr.Error())
				return
			case oerr != nil:
				fail(i, "seq/ro/open/"+m.Name, "opening the served file again in this mode failed", "<nil>", oerr.Error())
				return
			}
			f = nf
			wantCloses++
			tw.Close()
			flags := os.O_RDWR
			if m.Trunc() {
				flags |= os.O_TRUNC
			}
			ntw, e := os.OpenFile(twinPath, flags, 0)
			if e != nil {
				res.SetupErr = fmt.Errorf("twin: %v", e)
				return
			}
			tw, lastOff, virt = ntw, 0, nil
			want := xfReadFd(twRef)
			if got := getFile(); !bytes.Equal(got, want) {
				fail(i, "seq/ro/"+m.Name+"/content", fmt.Sprintf("served file differs from the os twin after the name was opened again (sizes %d vs %d, first difference at %d)", len(got), len(want), xfFirstDiff(got, want)),
					xfShort(want), xfShort(got))
				return
			}
			res.Marks["call=ro|"+m.Name]++
			continue
		}
		if (op.K == "cm" || op.K == "co" || op.K == "sy") && !closed {
			res.SetupErr = fmt.Errorf("op %s is written after a Close only (call #%d)", op.K, i)
			return
		}
		if op.K == "cl" && op.Act != "" && !closed {
			// what happens to the CLOSE request itself (c12_closereply.go)
			var e error
			switch {
			case op.Act == "refuse" && peer != nil:
				peer.SetBehaviour(func(o *xfPeerOpts) { o.CloseFail = &xfFail{Code: op.Code, Msg: xfCloseRefusedMsg} })
			case op.Act == "cut" && peer != nil:
				peer.SetBehaviour(func(o *xfPeerOpts) { o.CloseCut = true })
				cutConn = true
			case op.Act == "handler" && real != nil && real.Mem != nil:
				e = real.Mem.SetCloseErr(op.Src)
			default:
				e = fmt.Errorf("close disposition %q is not available against server kind %s", op.Act, sc.Srv)
			}
			if e != nil {
				res.SetupErr = e
				return
			}
		}
		if op.model() == "" {
			res.Modelled = false
		}
		if virt != nil && (op.K != "sk" || closed) {
			to, _ := tw.Seek(0, io.SeekCurrent)
			if _, err := f.Seek(to, io.SeekStart); err != nil {
				fail(i, "seq/sk/start/error", "Seek to a small absolute position failed", nil, err.Error())
				return
			}
			virt = nil
		}
		// --- failure injection: the scripted peer answers chosen chunks of this call with a failure status;
		// the request server's handler refuses writes beyond its quota ---
		var offBefore, sizeBefore, start int64
		var failMap map[int64]xfFail
		inject, quota := false, false
		isW := op.K == "w" || op.K == "wa" || op.K == "rf" || op.K == "rfc"
		isR := op.K == "r" || op.K == "ra"
		if !closed && (isW || isR) {
			offBefore, _ = tw.Seek(0, io.SeekCurrent)
			if st, e := tw.Stat(); e == nil {
				sizeBefore = st.Size()
			}
			start = offBefore
			if op.K == "ra" || op.K == "wa" {
				start = op.Off
			}
			if peer != nil && len(op.Fail) > 0 && op.N > 0 {
				plan := xfPlan(sc.Cfg.MP, start, op.N)
				failMap = map[int64]xfFail{}
				for j, idx := range op.Fail {
					if idx >= 0 && idx < len(plan) {
						code := op.Code
						if j > 0 || code == 0 {
							code = wire.Failure
						}
						failMap[plan[idx].Off] = xfFail{Code: code, Msg: fmt.Sprintf("fail@%d", plan[idx].Off)}
					}
				}
				if inject = len(failMap) > 0; inject {
					peer.TakeApplied()
					peer.SetBehaviour(func(o *xfPeerOpts) { o.Fail = failMap })
				}
			}
			if real != nil && real.Mem != nil && isW {
				real.Mem.TakeApplied()
				quota = sc.Limit > 0 && op.N > 0 && start+int64(op.N) > sc.Limit
			}
		}
		wireFrom := 0
		if !closed && op.K == "wt" {
			offBefore, _ = tw.Seek(0, io.SeekCurrent)
		}
		if !closed && op.K == "sk" {
			if peer != nil {
				wireFrom = peer.LogLen()
			} else {
				real.Tap.Take()
			}
			offBefore, _ = tw.Seek(0, io.SeekCurrent)
			if virt != nil {
				offBefore = *virt
			}
			if st, e := tw.Stat(); e == nil {
				sizeBefore = st.Size()
			}
		}
		var sn, tn int64
		var serr, terr error
		var sdata, tdata []byte
		var src xfSource
		ok, pn := xfGuardK(kase, func() {
			switch op.K {
			case "r":
				sb, tb := make([]byte, op.N), make([]byte, op.N)
				var a, b int
				a, serr = f.Read(sb)
				b, terr = tw.Read(tb)
				sn, tn, sdata, tdata = int64(a), int64(b), sb[:max(a, 0)], tb[:max(b, 0)]
			case "ra":
				sb, tb := make([]byte, op.N), make([]byte, op.N)
				var a, b int
				a, serr = f.ReadAt(sb, op.Off)
				b, terr = tw.ReadAt(tb, op.Off)
				sn, tn, sdata, tdata = int64(a), int64(b), sb[:max(a, 0)], tb[:max(b, 0)]
			case "w":
				d := xfPat(op.Seed, op.N)
				var a, b int
				a, serr = f.Write(d)
				b, terr = tw.Write(d)
				sn, tn = int64(a), int64(b)
			case "wa":
				d := xfPat(op.Seed, op.N)
				var a, b int
				a, serr = f.WriteAt(d, op.Off)
				b, terr = tw.WriteAt(d, op.Off)
				sn, tn = int64(a), int64(b)
			case "rf", "rfc":
				d := xfPat(op.Seed, op.N)
				kind := op.Src
				if kind == "" {
					kind = "opaque"
				}
				var e error
				if src, e = xfNewSource(kind, d, dir); e != nil {
					serr = e
					return
				}
				if op.K == "rf" {
					sn, serr = f.ReadFrom(src.R)
				} else {
					sn, serr = f.ReadFromWithConcurrency(src.R, op.Conc)
				}
				var b int
				b, terr = tw.Write(d)
				tn = int64(b)
			case "wt":
				var sb, tb bytes.Buffer
				sn, serr = f.WriteTo(&sb)
				tn, terr = io.Copy(&tb, struct{ io.Reader }{tw})
				sdata, tdata = sb.Bytes(), tb.Bytes()
			case "sk":
				sn, serr = f.Seek(op.Off, op.Wh)
				if virt == nil {
					tn, terr = tw.Seek(op.Off, op.Wh)
				}
			case "st":
				fi, e := f.Stat()
				serr = e
				if e == nil {
					sn = fi.Size()
				}
				ti, e := tw.Stat()
				terr = e
				if e == nil {
					tn = ti.Size()
				}
			case "tr":
				serr = f.Truncate(int64(op.N))
				terr = tw.Truncate(int64(op.N))
			case "cl":
				serr = f.Close()
				terr = tw.Close()
			case "cm":
				serr, terr = f.Chmod(0o600), tw.Chmod(0o600)
			case "co":
				serr, terr = f.Chown(0, 0), tw.Chown(0, 0)
			case "sy":
				serr, terr = f.Sync(), tw.Sync()
			}
		})
		consumed := int64(-1)
		if src.Consumed != nil && ok {
			consumed = src.Consumed()
		}
		if src.Cleanup != nil {
			src.Cleanup()
		}
		if !ok {
			fail(i, "seq/"+op.K+"/hang", "the call did not return within 20 s", "return", "hang")
			hung = true
			if hold != nil {
				hold.Close()
			}
			return
		}
		if pn != nil {
			fail(i, "seq/"+op.K+"/panic", "the call panicked", nil, fmt.Sprint(pn))
			return
		}
		path := ""
		switch op.K {
		case "wt":
			st, _ := tw.Stat()
			if st != nil {
				path = "/" + xfWriteToPathView(sc.Cfg, int(st.Size()), view)
			}
		case "r", "ra":
			path = "/" + xfCase{Cfg: sc.Cfg, API: "ReadAt", Len: op.N}.Path()
		case "w", "wa":
			path = "/" + xfCase{Cfg: sc.Cfg, API: "WriteAt", Len: op.N}.Path()
		case "rf":
			path = "/" + xfCase{Cfg: sc.Cfg, API: "ReadFrom", Src: op.Src, Len: op.N}.Path()
		case "sk":
			path = "/" + xfWhenceName(op.Wh)
		}
		key := "seq/" + op.K + path
		if rc := sc.ReadCap(); rc > 0 && rc < sc.Cfg.MP && !closed && !noRead && (isR || op.K == "wt") {
			// the client's packet size lies above what the server returns per READ: how often the fullest chunk of this
			// call had to be asked for (distribution only; the oracle is the os.File twin below)
			size := sizeBefore
			n := int64(op.N)
			if op.K == "wt" {
				if st, e := tw.Stat(); e == nil {
					size = st.Size()
				}
				start, n = offBefore, max(size-offBefore, 0)
			}
			k := xfReadsPerChunk(sc.Cfg.MP, rc, size, start, n)
			ks := fmt.Sprint(k)
			if k >= 3 {
				ks = "3+"
			}
			res.Marks["above-cap|call="+op.K+"|path="+strings.TrimPrefix(path, "/")+"|data-READs-per-chunk="+ks]++
		}
		if closed {
			// closed state is final: every method answers os.ErrClosed
			if !errors.Is(serr, os.ErrClosed) {
				fail(i, "after-close/"+op.K, "a method called after Close did not return os.ErrClosed", "os.ErrClosed", fmt.Sprintf("(%d, %v)", sn, serr))
				return
			}
			if !errors.Is(terr, os.ErrClosed) && op.K != "cl" {
				// (os.File is the reference; if it disagrees the harness's expectation is wrong)
				fail(i, "after-close/twin/"+op.K, "os.File itself does not return os.ErrClosed here", "os.ErrClosed", fmt.Sprint(terr))
			}
			parts = append(parts, fmt.Sprintf("%d:0:closed:7", lastOff))
			continue
		}
		if op.K == "cl" && op.Act != "" {
			// The CLOSE request was sent and something other than SSH_FX_OK came of it. The File is closed all the same
			// (a server releases the handle when it gets the request, whatever it answers): from here on every method
			// answers os.ErrClosed and nothing goes out - the calls that follow are judged as after any Close.
			switch {
			case peer != nil:
				peer.SetBehaviour(func(o *xfPeerOpts) { o.CloseFail, o.CloseCut = nil, false })
			case real.Mem != nil:
				real.Mem.SetCloseErr("")
			}
			res.Modelled = false
			got := fmt.Sprintf("%v", serr)
			switch op.Act {
			case "refuse":
				if want := (xfFail{Code: op.Code, Msg: xfCloseRefusedMsg}); !xfErrIs(serr, want) {
					fail(i, "seq/cl/refuse/result", "Close must return the failure status the server answered the CLOSE request with", fmt.Sprintf("status %d %q", want.Code, want.Msg), got)
					return
				}
			default:
				if serr == nil || errors.Is(serr, os.ErrClosed) {
					fail(i, "seq/cl/"+op.Act+"/result", "the CLOSE request came to nothing (connection cut / the file object's Close failed): this first Close must return an error of its own", "an error other than os.ErrClosed", got)
					return
				}
			}
			if terr != nil {
				fail(i, "seq/cl/twin", "os.File.Close failed", nil, terr.Error())
				return
			}
			closed = true
			k := "call=cl|CLOSE-request=" + op.Act
			if op.Act == "refuse" {
				k += fmt.Sprintf("|status-code=%d", op.Code)
			} else if op.Act == "handler" {
				k += "|err=" + op.Src
			}
			res.Marks[k]++
			parts = append(parts, fmt.Sprintf("%d:0:%s:7", lastOff, xfErrClass(serr)))
			continue
		}
		if noRead && (op.K == "r" || op.K == "ra" || op.K == "wt") {
			// the handle serves no READ: the call must fail cleanly - the server's failure status, nothing delivered,
			// the offset where it was - and the File stays usable (the sequence goes on)
			wantClass := "srv4"
			if op.K != "wt" && op.N == 0 {
				wantClass = "ok" // an empty buffer asks the server nothing
			}
			so, e1 := f.Seek(0, io.SeekCurrent)
			if e1 != nil || sn != 0 || len(sdata) != 0 || xfErrClass(serr) != wantClass || so != offBefore {
				fail(i, key+"/refused-read", "a read through a handle the request server opened with Filewrite (FilePut is no OpenFileWriter) must return (0, the server's failure status), deliver nothing and leave the offset alone",
					fmt.Sprintf("(0, %s), offset %d", wantClass, offBefore), fmt.Sprintf("(%d, %v), %d bytes delivered, offset %d (%v)", sn, serr, len(sdata), so, e1))
				return
			}
			tw.Seek(offBefore, io.SeekStart)
			res.Modelled = false
			res.Marks["call="+op.K+"|refused: handle opened by Filewrite serves no READ"]++
			lastOff = so
			continue
		}
		if op.K == "wt" && serr != nil && sc.Cfg.CR && !sc.Cfg.Fstat && view.Kind == "gone" {
			// Documented difference (see the head of the file): the concurrent WriteTo sizes its worker pool by STAT of
			// the path unless UseFstat(true); the path is gone, so it fails before it transfers anything. What C12
			// says about it still holds: nothing transferred, offset unmoved.
			so, e1 := f.Seek(0, io.SeekCurrent)
			if e1 != nil || sn != 0 || len(sdata) != 0 || so != offBefore || xfErrClass(serr) != "srv2" {
				fail(i, key+"/result", "a WriteTo whose STAT of the vanished path failed must return that error, transfer nothing and leave the offset alone",
					fmt.Sprintf("(0, no such file), offset %d", offBefore), fmt.Sprintf("(%d, %v), %d bytes delivered, offset %d (%v)", sn, serr, len(sdata), so, e1))
				return
			}
			tw.Seek(offBefore, io.SeekStart)
			res.Modelled = false
			res.Marks["call=wt|name=gone|stat-by-name-failed"]++
			lastOff = so
			continue
		}
		if op.K == "sk" && op.Wh >= io.SeekStart && op.Wh <= io.SeekEnd {
			// The seek arithmetic, written out: the target is base + offset over the integers; it must be taken when it is a
			// non-negative int64 and refused (os.ErrInvalid, nothing moved) when it is negative or not representable. The
			// os.File twin says the same as long as the target lies within what its file system allows; where it does not
			// follow (or is not where the File is), the arithmetic alone is the reference.
			base := []int64{0, offBefore, sizeBefore}[op.Wh]
			representable := !(op.Off > 0 && base > math.MaxInt64-op.Off)
			target := int64(0)
			if representable {
				target = base + op.Off
			}
			accept := representable && target >= 0
			if ec := xfSeekEdgeClass(op.Off, base); ec != "" {
				res.Marks["call=sk|whence="+xfWhenceName(op.Wh)+"|offset="+ec+"|current-offset-nonzero="+fmt.Sprint(offBefore != 0)+"|"+map[bool]string{true: "to-be-taken", false: "to-be-refused"}[accept]]++
			}
			if virt != nil || (terr == nil) != accept {
				if virt == nil && terr == nil {
					fail(i, key+"/twin", "os.File took a seek whose target is negative or not an int64", "an error", fmt.Sprintf("(%d, <nil>)", tn))
					return
				}
				so, e1 := f.Seek(0, io.SeekCurrent)
				got := fmt.Sprintf("(%d, %v), offset %d -> %d (%v)", sn, serr, offBefore, so, e1)
				newOff := offBefore
				if accept {
					newOff = target
					if serr != nil || sn != target || so != target || e1 != nil {
						fail(i, key+"/position", fmt.Sprintf("Seek(%d, %s) from offset %d of a %d-byte file has the non-negative target %d: it must be taken", op.Off, xfWhenceName(op.Wh), offBefore, sizeBefore, target),
							fmt.Sprintf("(%d, <nil>), offset %d", target, target), got)
						return
					}
					res.Marks["call=sk|target-beyond-what-the-twin's-file-system-takes(judged by the arithmetic)"]++
				} else {
					why := "negative"
					if !representable {
						why = "not representable as an int64"
					}
					if serr == nil || so != offBefore || e1 != nil {
						fail(i, key+"/error", fmt.Sprintf("Seek(%d, %s) from offset %d of a %d-byte file has a target that is %s: it must be refused without moving", op.Off, xfWhenceName(op.Wh), offBefore, sizeBefore, why),
							fmt.Sprintf("an error, offset still %d", offBefore), got)
						return
					}
					if !errors.Is(serr, os.ErrInvalid) {
						fail(i, key+"/error", "Seek to a negative or unrepresentable position must fail with os.ErrInvalid", "os.ErrInvalid", serr.Error())
						return
					}
					res.Marks["call=sk|refused|current-offset-beyond-the-twin(judged by the arithmetic)"]++
				}
				// is this a position the twin can be at?
				if _, e := tw.Seek(newOff, io.SeekStart); e == nil {
					virt = nil
				} else {
					v := newOff
					virt = &v
				}
				res.Modelled = false // (the model's offsets are natural numbers without an upper bound)
				lastOff = so
				continue
			}
			if !representable {
				res.Modelled = false // the model computes over the integers: it has no unrepresentable target
			}
		}
		if inject || quota {
			// The mirrored os.File cannot fail on demand. Reference: the call moves the offset exactly by the
			// intact prefix it transferred (ReadAt/WriteAt: not at all); the prefix is what the server
			// really stored, contiguously from the start offset, as recorded by the server side itself.
			res.Failing[op.K]++
			var applied []xfChunk
			if peer != nil {
				if !peer.Settle() {
					fail(i, key+"/failing/hang", "the connection did not settle after a failed transfer", "idle", "hang")
					if hold != nil {
						hold.Close()
					}
					return
				}
				applied = peer.TakeApplied()
				peer.SetBehaviour(func(o *xfPeerOpts) { o.Fail = nil; o.Window = sc.Window })
			} else {
				xfGuardK(kase, func() { cli.Lstat(path0) }) // responses are sent in request order: every earlier WRITE is done
				applied = real.Mem.TakeApplied()
			}
			so, e1 := f.Seek(0, io.SeekCurrent)
			if e1 != nil {
				fail(i, key+"/failing/offset-query", "Seek(0, io.SeekCurrent) failed", nil, e1.Error())
				return
			}
			got := fmt.Sprintf("(%d, %v), offset %d -> %d", sn, serr, offBefore, so)
			fm := map[string]xfFail{}
			for o, v := range failMap {
				fm[fmt.Sprint(o)] = v
			}
			wantOff := offBefore
			nfail := len(res.Fails)
			if isR {
				w := xfC13Want(xfCase{Cfg: sc.Cfg, API: "ReadAt", FileLen: int(sizeBefore), Off: start, Len: op.N, Fail: fm})
				if sn != w.N || !w.errOK(serr) {
					fail(i, key+"/failing/result", "a read with a failing chunk must return the prefix below the lowest failing offset and that chunk's error", fmt.Sprintf("(%d, %s)", w.N, w.errText()), got)
				} else if !bytes.Equal(sdata, tdata[:min(int(sn), len(tdata))]) {
					fail(i, key+"/failing/data", "the prefix delivered differs from the file's bytes", xfShort(tdata[:min(int(sn), len(tdata))]), xfShort(sdata))
				}
				if op.K == "r" {
					wantOff = offBefore + w.N
				}
			} else {
				prefix := xfAppliedPrefix(applied, start, op.N)
				var w xfWant
				if quota {
					for _, ch := range xfPlan(sc.Cfg.MP, start, op.N) {
						if ch.Off+int64(ch.Len) > sc.Limit {
							break
						}
						w.N += int64(ch.Len)
					}
					if serr == nil || xfErrClass(serr) != "srv4" {
						fail(i, key+"/failing/error", "a write refused by the handler must return the server's failure status", "status 4", got)
					}
				} else {
					w = xfC13Want(xfCase{Cfg: sc.Cfg, API: "WriteAt", FileLen: int(sizeBefore), Off: start, Len: op.N, Fail: fm})
					if !w.errOK(serr) {
						fail(i, key+"/failing/error", "a write with a failing chunk must return the error of the lowest failing offset", w.errText(), got)
					}
				}
				if prefix != w.N {
					fail(i, key+"/failing/prefix", "the bytes stored contiguously from the start offset are not the chunks below the first failing one", w.N, prefix)
				}
				switch op.K {
				case "w", "wa":
					if sn != prefix {
						fail(i, key+"/failing/count", "the count is not the number of bytes transferred (stored contiguously from the start offset)", prefix, got)
					}
				default:
					if sn != consumed {
						fail(i, key+"/failing/count-vs-consumed", "ReadFrom's count is not the number of bytes consumed from the source", consumed, got)
					}
				}
				if op.K != "wa" {
					wantOff = offBefore + prefix
				}
			}
			if so != wantOff {
				what := "the File offset did not advance exactly by the bytes transferred (offset before + intact prefix)"
				if op.K == "ra" || op.K == "wa" {
					what = "a failing ReadAt/WriteAt moved the File offset"
				}
				fail(i, key+"/failing/offset", what, wantOff, got)
			}
			if len(res.Fails) > nfail {
				return
			}
			// bring the twin to the served file's state (what lies beyond the prefix depends on the schedule)
			content := getFile()
			if tw.Truncate(0) != nil {
				return
			}
			tw.WriteAt(content, 0)
			tw.Seek(wantOff, io.SeekStart)
			lastOff = so
			continue
		}
		// result categories
		sclass := xfErrClass(serr)
		switch op.K {
		case "r":
			want := "ok"
			if sn < int64(op.N) {
				want = "eof"
			}
			if terr != nil && terr != io.EOF {
				fail(i, key+"/twin", "os.File.Read failed", nil, terr.Error())
				return
			}
			if sn != tn || !bytes.Equal(sdata, tdata) {
				fail(i, key+"/data", "Read delivered other bytes than os.File.Read at the same offset", fmt.Sprintf("n=%d %s", tn, xfShort(tdata)), fmt.Sprintf("n=%d %s", sn, xfShort(sdata)))
				return
			}
			if sclass != want {
				fail(i, key+"/error", "Read's error is not nil for a full read / io.EOF for a short one", want, sclass)
				return
			}
		case "ra":
			if sn != tn || !bytes.Equal(sdata, tdata) || sclass != xfErrClass(terr) {
				fail(i, key+"/result", "ReadAt differs from os.File.ReadAt", fmt.Sprintf("n=%d %s %s", tn, xfErrClass(terr), xfShort(tdata)), fmt.Sprintf("n=%d %s %s", sn, sclass, xfShort(sdata)))
				return
			}
		case "wt":
			if sn != tn || !bytes.Equal(sdata, tdata) || serr != nil || terr != nil {
				fail(i, key+"/result", "WriteTo differs from copying the os.File to end of file", fmt.Sprintf("n=%d %v %s", tn, terr, xfShort(tdata)), fmt.Sprintf("n=%d %v %s", sn, serr, xfShort(sdata)))
				return
			}
		case "sk":
			if (serr == nil) != (terr == nil) {
				fail(i, key+"/error", "Seek succeeds on one side and fails on the other", fmt.Sprintf("os.File: (%d, %v)", tn, terr), fmt.Sprintf("(%d, %v)", sn, serr))
				return
			}
			if serr == nil && sn != tn {
				fail(i, key+"/position", "Seek returns another position than os.File.Seek", tn, sn)
				return
			}
			if serr != nil && op.Wh >= 0 && op.Wh <= 2 && !errors.Is(serr, os.ErrInvalid) {
				fail(i, key+"/error", "Seek to a negative position must fail with os.ErrInvalid", "os.ErrInvalid", serr.Error())
				return
			}
		default: // w wa rf rfc st tr cl
			if serr != nil || terr != nil || sn != tn {
				fail(i, key+"/result", "result differs from the same call on os.File", fmt.Sprintf("(%d, %v)", tn, terr), fmt.Sprintf("(%d, %v)", sn, serr))
				return
			}
		}
		if op.K == "cl" {
			closed = true
			parts = append(parts, fmt.Sprintf("%d:0:%s:7", lastOff, sclass))
			continue
		}
		// offsets
		so, e1 := f.Seek(0, io.SeekCurrent)
		to, e2 := tw.Seek(0, io.SeekCurrent)
		if e1 != nil || e2 != nil {
			fail(i, key+"/offset-query", "Seek(0, io.SeekCurrent) failed", nil, fmt.Sprint(e1, e2))
			return
		}
		lastOff = so
		hash := uint64(7)
		if op.K == "r" || op.K == "ra" || op.K == "wt" {
			hash = xfHash(sdata)
		}
		parts = append(parts, fmt.Sprintf("%d:%d:%s:%d", so, sn, sclass, hash))
		if so != to {
			st, _ := tw.Stat()
			mp := int64(sc.Cfg.MP)
			start := to - tn
			if op.K == "wt" && st != nil && xfWriteToPathView(sc.Cfg, int(st.Size()), view) == "concurrent" && tn > 0 && so == start+(tn+mp-1)/mp*mp {
				fail(i, xfKeyF12, "concurrent WriteTo of a file whose remaining size is not a multiple of the packet size leaves the offset at the next multiple instead of at end of file",
					to, so)
				if _, err := f.Seek(to, io.SeekStart); err != nil {
					return
				}
				lastOff = to
			} else {
				fail(i, key+"/offset", "File offset after the call differs from os.File's", to, so)
				return
			}
		}
		if op.K == "sk" {
			// the wire: an end-relative Seek learns the size of the OPEN file (FSTAT on its handle is the only request of
			// the protocol that gives it), the others need nothing from the server
			// (READ/WRITE frames are not counted: the read-ahead of a preceding concurrent transfer may still be arriving
			// at the server when the transfer has returned)
			var sent []string
			good := 0
			if peer != nil {
				for _, q := range peer.LogFrom(wireFrom) {
					if q.Typ == wire.Read || q.Typ == wire.Write {
						continue
					}
					sent = append(sent, xfReqName(q.Typ))
					if q.Typ == wire.Fstat && !q.Stale && q.Malformed == "" {
						good++
					}
				}
			} else {
				for _, q := range real.Tap.Take() {
					if q.Typ == wire.Read || q.Typ == wire.Write {
						continue
					}
					sent = append(sent, xfReqName(q.Typ))
					if q.Typ == wire.Fstat {
						good++
					}
				}
			}
			want := 0
			if op.Wh == io.SeekEnd {
				want = 1
			}
			if len(sent) != want || good != want {
				exp := "no request"
				if want == 1 {
					exp = "exactly one FSTAT carrying the File's handle"
				}
				fail(i, key+"/wire", "the requests Seek put on the wire are not those of a seek on the open file (the end is the end of the file behind the handle, whatever the name it was opened with shows now)",
					exp, fmt.Sprintf("%v (name shows: %s)", sent, view.Kind))
				return
			}
			if op.Wh == io.SeekEnd && view.Kind != "same" {
				k := "call=sk|whence=2|name=" + view.Kind
				if terr != nil {
					k += "|negative-result"
				}
				res.Marks[k]++
			}
		}
		// contents after a mutation
		switch op.K {
		case "w", "wa", "rf", "rfc", "tr":
			want := xfReadFd(twRef)
			got := getFile()
			if sc.Srv.InMem && op.N == 0 && op.K != "tr" && xfZeroExtended(want, got, max(start, offBefore)) {
				// (documented difference of the example backend, see xfInMemEmptyWrite: an empty WRITE beyond the end of the file
				// extends it with zeros; the twin is brought to the same state and the sequence goes on)
				if tw.Truncate(int64(len(got))) != nil {
					return
				}
				res.Modelled = false
				res.Marks["InMemHandler|empty-write-beyond-end-of-file-extends-the-file-with-zeros(documented difference, not asked)"]++
				continue
			}
			if !bytes.Equal(got, want) {
				fail(i, key+"/content", fmt.Sprintf("served file differs from the os twin after the call (sizes %d vs %d, first difference at %d)", len(got), len(want), xfFirstDiff(got, want)),
					xfShort(want), xfShort(got))
				return
			}
		}
	}
	res.Impl = strings.Join(parts, ";")
	fa := getFile()
	res.FileText = fmt.Sprintf("%d:%d", len(fa), xfHash(fa))
	// exactly one close, nothing with the handle afterwards
	if closed {
		switch {
		case peer != nil:
			if n := peer.Closes(); n != wantCloses {
				fail(len(sc.Ops), "close-count/peer", "not exactly one CLOSE request was sent per handle", wantCloses, n)
			}
			for _, q := range peer.Log() {
				if q.Stale {
					fail(len(sc.Ops), "use-after-close/wire", fmt.Sprintf("a request of type %d carrying the closed handle arrived after the CLOSE frame", q.Typ), "none", fmt.Sprintf("request #%d", q.Seq))
					break
				}
			}
		case real.Mem != nil:
			if _, n := real.Mem.Counts(); n-closesBefore != wantCloses {
				fail(len(sc.Ops), "close-count/rs", "the handler's Close was not called exactly once per handle", wantCloses, n-closesBefore)
			}
			fallthrough
		default:
			if n := real.OpenHandles(); n != 0 {
				fail(len(sc.Ops), "close-count/handles-left", "the server still holds a handle after Close", 0, n)
			}
		}
	}
	return
}

// ---------- sequence generator ----------

// readCap (0 < readCap < mp only): the server returns at most that many bytes per READ; lengths and offsets are then
// also aimed at its multiples (where the number of READs a chunk needs changes).
func xfGenSeq(rng *rand.Rand, cfg xfCfg, n int, failable, disturb bool, readCap int) (S int, ops []xfOp) {
	mp := cfg.MP
	capped := readCap > 0 && readCap < mp
	S = xfPickSize(rng, cfg)
	if S > 3*mp*4+2 {
		S = mp*rng.Intn(5) + rng.Intn(mp+1)
	}
	limit := int64(3*mp*4 + 64) // keep positions modest: sparse files are materialised in memory by two backends
	lens := func() int {
		c := []int{0, 1, mp - 1, mp, mp + 1, 2 * mp, 2*mp + 1, 3*mp - 1, 3*mp + 1, mp*cfg.Conc + 1}
		if capped {
			c = append(c, readCap, readCap+1, 2*readCap, 2*readCap+1, 3*readCap+1, mp+2*readCap+1)
		}
		l := c[rng.Intn(len(c))]
		if rng.Intn(4) == 0 {
			l = rng.Intn(3*mp + 2)
		}
		if l > 3*mp*4 {
			l = 3*mp + 1
		}
		if l < 0 {
			l = 0
		}
		return l
	}
	offs := func(cur int) int64 {
		c := []int{0, 1, mp - 1, mp, mp + 1, cur - 1, cur, cur + 1, cur / 2, cur + mp}
		if capped {
			c = append(c, readCap-1, readCap+1, cur-2*readCap-1, cur-3*readCap)
		}
		v := c[rng.Intn(len(c))]
		if v < 0 {
			v = 0
		}
		return int64(v)
	}
	cur := S // a rough idea of the current size, only used to aim offsets
	kinds := []string{"r", "r", "ra", "w", "wa", "rf", "rfc", "wt", "wt", "sk", "sk", "sk", "st", "tr"}
	srcs := []string{"len", "size", "stat", "limited", "opaque", "opaque1"}
	if disturb {
		kinds = append(kinds, "nm", "nm")
	}
	endOffs := func() int64 {
		return []int64{0, 0, -1, 1, -int64(mp), -int64(cur), -int64(cur) - 1, int64(mp) + 1, -int64(mp) - 1, -int64(cur) / 2}[rng.Intn(10)]
	}
	for len(ops) < n {
		k := kinds[rng.Intn(len(kinds))]
		op := xfOp{K: k}
		switch k {
		case "r":
			op.N = lens()
		case "ra":
			op.N, op.Off = lens(), offs(cur)
		case "w":
			op.N, op.Seed = lens(), rng.Intn(251)
			cur += op.N / 2
		case "wa":
			op.N, op.Seed, op.Off = lens(), rng.Intn(251), offs(cur)
			if int(op.Off)+op.N > cur {
				cur = int(op.Off) + op.N
			}
		case "rf":
			op.N, op.Seed, op.Src = lens(), rng.Intn(251), srcs[rng.Intn(len(srcs))]
			cur += op.N / 2
		case "rfc":
			op.N, op.Seed, op.Conc, op.Src = lens(), rng.Intn(251), []int{0, 1, 3}[rng.Intn(3)], "opaque"
			cur += op.N / 2
		case "nm":
			// the name is disturbed; the file the name shows afterwards (if any) is shorter or longer than the open one
			op.Act = xfNameActs[rng.Intn(len(xfNameActs))]
			op.N = []int{0, cur / 2, cur - 1, cur + 1, cur + mp + 1, mp, 3*mp + 1}[rng.Intn(7)]
			if op.N < 0 {
				op.N = 0
			}
			ops = append(ops, op)
			// … and most of the time an end-relative Seek follows at once (the other calls come by themselves)
			for j := rng.Intn(3); j > 0; j-- {
				ops = append(ops, xfOp{K: "sk", Wh: 2, Off: endOffs()})
			}
			continue
		case "sk":
			op.Wh = []int{0, 0, 1, 1, 2, 2, 5, 7, -1}[rng.Intn(9)] // (3 and 4 are SEEK_DATA / SEEK_HOLE on Linux: valid for os.File)
			switch op.Wh {
			case 0:
				op.Off = offs(cur)
				if rng.Intn(6) == 0 {
					op.Off = -1 - int64(rng.Intn(mp+1))
				}
			case 1:
				op.Off = []int64{0, 1, -1, int64(mp), -int64(mp), int64(mp) + 1, -int64(cur) - 1, -int64(cur)}[rng.Intn(8)]
			case 2:
				op.Off = endOffs()
			default:
				op.Off = offs(cur)
			}
			if rng.Intn(7) == 0 && op.Wh >= 0 && op.Wh <= 2 {
				// an offset at the edges of int64 (c12_seekedge.go); the next call brings the offset back to a small one
				e := xfSeekEdges(int64(cur))
				op.Off = e[rng.Intn(len(e))]
				ops = append(ops, op, xfOp{K: "sk", Off: offs(cur)})
				continue
			}
		case "tr":
			op.N = int(offs(cur))
			if rng.Intn(3) == 0 {
				op.N = cur + rng.Intn(mp+2)
			}
			cur = op.N
		}
		if failable && op.N > 0 && rng.Intn(4) == 0 {
			switch k {
			case "r", "ra", "w", "wa", "rf", "rfc":
				nch := (op.N + mp - 1) / mp
				op.Fail = []int{rng.Intn(nch)}
				if nch > 1 && rng.Intn(2) == 0 {
					op.Fail = append(op.Fail, rng.Intn(nch))
				}
				// (SSH_FX_EOF: for a READ the server's way of saying the file ends there, for a WRITE a failure whose error is io.EOF)
				// (and codes beyond 255 whose low byte is that of OK / EOF: failures like any other)
				op.Code = []uint32{wire.Failure, wire.Failure, wire.PermissionDenied, wire.EOF, wire.OpUnsupported, wire.NoSuchFile, 255, wire.EOF, 256, 257, 0xFFFFFF01}[rng.Intn(11)]
			}
		}
		if int64(cur) > limit {
			// pull the file back to a small size
			ops = append(ops, xfOp{K: "tr", N: rng.Intn(2*mp + 1)}, xfOp{K: "sk", Off: int64(rng.Intn(mp + 1)), Wh: 0})
			cur = 2 * mp
			continue
		}
		ops = append(ops, op)
	}
	return S, append(ops, xfAfterCloseOps(rng, mp)...)
}

// xfAfterCloseOps: Close, then 4..18 of the methods once more (each must answer os.ErrClosed).
func xfAfterCloseOps(rng *rand.Rand, mp int) (ops []xfOp) {
	ops = append(ops, xfOp{K: "cl"})
	after := []xfOp{{K: "r", N: 1}, {K: "r"}, {K: "ra", N: 2}, {K: "w", N: 1}, {K: "w"}, {K: "wa", N: mp + 1}, {K: "rf", N: 3, Src: "len"}, {K: "rf", N: 0, Src: "opaque"},
		{K: "rfc", N: 2, Conc: 1, Src: "opaque"}, {K: "wt"}, {K: "sk", Wh: 0}, {K: "sk", Wh: 1}, {K: "sk", Wh: 2}, {K: "sk", Wh: 7}, {K: "sk", Off: -1}, {K: "st"}, {K: "tr", N: 1}, {K: "cl"}}
	rng.Shuffle(len(after), func(i, j int) { after[i], after[j] = after[j], after[i] })
	return append(ops, after[:4+rng.Intn(len(after)-3)]...)
}

// ---------- a packet size above what the server returns per READ ----------

// xfGenCapSeq writes a sequence for a client whose packet size mp lies above rc, the most bytes the server returns for
// one READ: a chunk of l bytes is filled by ceil(l/rc) READ requests, each asking for the rest of the chunk at
// chunk offset + bytes collected so far; the count returned, and with it the File offset of Read and WriteTo, advances
// by the bytes copied. The lengths, offsets and file sizes are aimed at the places where the number of READs per chunk
// changes (1, rc-1, rc, rc+1, 2rc-1, 2rc, 2rc+1, 3rc, 3rc+1, mp-1, mp, and for the multi-chunk reads mp+1, mp+rc+1,
// mp+2rc+1, 2mp, 2mp+1, 2mp+2rc+1, 3mp+1), at reads that end exactly at, one before and one beyond end of file, and
// at reads whose 2nd, 3rd … READ meets end of file.
// The generator keeps track of the exact size and offset (nothing in these sequences fails), because with concurrent
// reads ON only the refilling paths may be asked (see the head of the file): Read/ReadAt of at most mp bytes, and
// WriteTo only while the file has at most mp bytes (it is truncated to such a size first). With concurrent reads off
// every read path refills and nothing is held back.
func xfGenCapSeq(rng *rand.Rand, cfg xfCfg, rc, n int) (S int, ops []xfOp) {
	mp := cfg.MP
	refillOnly := cfg.CR
	pick := func(c []int, lo, hi int) int {
		var ok []int
		for _, v := range c {
			if v >= lo && v <= hi {
				ok = append(ok, v)
			}
		}
		if len(ok) == 0 {
			return lo
		}
		return ok[rng.Intn(len(ok))]
	}
	limit := 4*mp + 64
	S = pick([]int{2*rc + 1, 3 * rc, 3*rc + 1, mp - 1, mp, mp + 1, mp + 2*rc + 1, 2*mp + 1, 2*mp + 2*rc + 2, 3*mp + 2}, 1, limit)
	size, pos := S, 0
	one := []int{1, rc - 1, rc, rc + 1, 2*rc - 1, 2 * rc, 2*rc + 1, 2*rc + 1, 3 * rc, 3*rc + 1, mp - 1, mp, mp}
	many := []int{mp + 1, mp + rc + 1, mp + 2*rc + 1, 2 * mp, 2*mp + 1, 2*mp + 2*rc + 1, 3*mp + 1}
	readLen := func() int {
		switch {
		case !refillOnly && rng.Intn(3) == 0:
			return pick(many, 1, limit)
		case rng.Intn(5) == 0:
			return 1 + rng.Intn(mp)
		}
		return pick(one, 1, mp)
	}
	// an offset for a read of l bytes
	readOff := func(l int) int {
		c := []int{0, 1, rc - 1, rc, rc + 1, 2*rc + 1, mp, mp + 1, size - 1, size, size + 1, size - 2*rc - 1, size - 2*rc, size - 3*rc - 1, size - mp, pos,
			size - l, size - l + 1, size - l - 1, size - l + rc, size - l + 2*rc + 1}
		return pick(c, 0, size+1)
	}
	seekTo := func(o int) {
		switch rng.Intn(3) {
		case 0:
			ops = append(ops, xfOp{K: "sk", Off: int64(o)})
		case 1:
			ops = append(ops, xfOp{K: "sk", Off: int64(o - pos), Wh: 1})
		default:
			ops = append(ops, xfOp{K: "sk", Off: int64(o - size), Wh: 2})
		}
		pos = o
	}
	grow := func(at, l int) {
		if l > 0 && at+l > size {
			size = at + l
		}
	}
	kinds := []string{"r", "r", "r", "r", "ra", "ra", "ra", "wt", "wt", "sk", "sk", "w", "wa", "rf", "tr", "st"}
	for len(ops) < n {
		switch k := kinds[rng.Intn(len(kinds))]; k {
		case "r":
			l := readLen()
			if pos >= size || rng.Intn(3) == 0 {
				seekTo(readOff(l))
			}
			ops = append(ops, xfOp{K: "r", N: l})
			pos += max(0, min(l, size-pos))
		case "ra":
			l := readLen()
			ops = append(ops, xfOp{K: "ra", N: l, Off: int64(readOff(l))})
		case "wt":
			if refillOnly && size > mp {
				// concurrent reads on: only a file of at most one packet is copied by the refilling reader
				size = pick([]int{2*rc + 1, 3 * rc, 3*rc + 1, mp - 1, mp}, 1, mp)
				ops = append(ops, xfOp{K: "tr", N: size})
			}
			if pos >= size || rng.Intn(2) == 0 {
				seekTo(pick([]int{0, 1, rc - 1, rc, rc + 1, size - 2*rc - 1, size - 3*rc, size - mp, size - mp - 2*rc - 1, size - 1, size}, 0, size))
			}
			ops = append(ops, xfOp{K: "wt"})
			pos = max(pos, size)
		case "sk":
			switch wh := rng.Intn(3); wh {
			case 0:
				seekTo(readOff(readLen()))
			case 1:
				d := []int{-2*rc - 1, -rc, -1, 0, 1, rc, -pos - 1, -mp}[rng.Intn(8)]
				ops = append(ops, xfOp{K: "sk", Off: int64(d), Wh: 1})
				if pos+d >= 0 {
					pos += d
				}
			default:
				d := []int{0, -1, -2*rc - 1, -mp, -size, -size - 1, 1}[rng.Intn(7)]
				ops = append(ops, xfOp{K: "sk", Off: int64(d), Wh: 2})
				if size+d >= 0 {
					pos = size + d
				}
			}
		case "w", "rf":
			l := pick([]int{1, rc + 1, 2*rc + 1, mp, mp + 1}, 1, limit)
			if pos+l > limit {
				seekTo(pick([]int{0, 1, rc, mp}, 0, size))
			}
			op := xfOp{K: k, N: l, Seed: rng.Intn(251)}
			if k == "rf" {
				op.Src = []string{"len", "opaque", "size", "limited"}[rng.Intn(4)]
			}
			ops = append(ops, op)
			grow(pos, l)
			pos += l
		case "wa":
			l := pick([]int{1, rc + 1, 2*rc + 1, mp + 1}, 1, limit)
			o := pick([]int{0, 1, rc, size - 1, size, size + 1, mp}, 0, limit-l)
			ops = append(ops, xfOp{K: "wa", N: l, Seed: rng.Intn(251), Off: int64(o)})
			grow(o, l)
		case "tr":
			size = pick([]int{0, 2 * rc, 2*rc + 1, 3*rc + 1, mp, mp + 1, size - 1, size + 1, size + 2*rc + 1, 2*mp + 1}, 0, limit)
			ops = append(ops, xfOp{K: "tr", N: size})
		case "st":
			ops = append(ops, xfOp{K: "st"})
		}
	}
	return S, append(ops, xfAfterCloseOps(rng, mp)...)
}

// xfAboveCapMPs are the client packet sizes that make every full chunk take three or more READs against a server
// that returns at most rc bytes per READ: just above twice the cap, three times the cap, and two plain numbers a
// user would write (a WRITE of 262000 bytes still fits the 256 KiB frame limit of the servers).
func xfAboveCapMPs(rc int) []int {
	var out []int
	for _, v := range []int{2*rc + 1, 3 * rc, 100000, 262000} {
		if v > 2*rc && v <= 262000 && (len(out) == 0 || out[len(out)-1] < v) {
			out = append(out, v)
		}
	}
	return out
}

// xfNameSeq is a written-out sequence around one disturbance of the name (act, then act2): S is the exact size of
// the open file, which the steps keep track of, so that the end-relative seeks hit 0, the last byte, the first
// byte, one before the first byte (to be rejected without moving) and beyond the end, before and after the
// size changes through the handle (append, truncate). variant picks the prefix and whether the file the name shows
// is shorter or longer than the open one.
func xfNameSeq(cfg xfCfg, S int, variant int, act, act2 string) []xfOp {
	mp := cfg.MP
	size := S
	var ops []xfOp
	other := func(longer bool) int {
		if longer {
			return size + mp + 1
		}
		return size / 2
	}
	ends := func() {
		ops = append(ops, xfOp{K: "sk", Wh: 2}, xfOp{K: "sk", Wh: 2, Off: -1}, xfOp{K: "sk", Wh: 2, Off: -int64(size)},
			xfOp{K: "sk", Wh: 2, Off: -int64(size) - 1}, xfOp{K: "sk", Wh: 1}, xfOp{K: "sk", Wh: 2, Off: int64(mp) + 1}, xfOp{K: "sk", Wh: 2})
	}
	switch variant % 3 {
	case 1:
		ops = append(ops, xfOp{K: "sk", Off: int64(mp) + 1})
	case 2:
		ops = append(ops, xfOp{K: "sk", Wh: 2}, xfOp{K: "w", N: mp + 1, Seed: 11}, xfOp{K: "sk", Off: 1})
		size += mp + 1
	}
	ops = append(ops, xfOp{K: "nm", Act: act, N: other(variant&1 == 0)})
	ends()
	ops = append(ops, xfOp{K: "w", N: 1, Seed: 77}) // appended at the end of the open file
	size++
	ops = append(ops, xfOp{K: "r", N: 1}, xfOp{K: "st"}, xfOp{K: "sk", Wh: 2, Off: -int64(size)}, xfOp{K: "wt"}, xfOp{K: "sk", Wh: 2, Off: -int64(size) - 1})
	size /= 2
	ops = append(ops, xfOp{K: "tr", N: size}, xfOp{K: "sk", Wh: 2}, xfOp{K: "sk", Wh: 2, Off: -int64(size) - 1}, xfOp{K: "rf", N: mp + 1, Seed: 5, Src: "len"})
	size += mp + 1
	ops = append(ops, xfOp{K: "nm", Act: act2, N: other(variant&1 == 1)})
	ends()
	ops = append(ops, xfOp{K: "ra", N: 2, Off: 0}, xfOp{K: "wa", N: 2, Seed: 3, Off: int64(size)}, xfOp{K: "sk", Wh: 2, Off: -1})
	ops = append(ops, xfOp{K: "cl"}, xfOp{K: "sk", Wh: 2}, xfOp{K: "st"}, xfOp{K: "sk", Wh: 1}, xfOp{K: "wt"})
	return ops
}

// ---------- consecutive offset-relative calls on one handle ----------

// A transfer that starts at offset 0 cannot tell "offset = start + n" from "offset = n" or "offset += start + n".
// xfChainSeq therefore runs every transfer variant from a NON-ZERO offset and lets a second (third, …) offset-relative
// call follow on the same handle: the follower must begin exactly where the transfer ended (its bytes land / come
// from there, the os.File twin says where) and end at start + bytes moved itself; then the transfer variant runs once
// more from wherever the follower left the offset. Seek(0, io.SeekCurrent) is asked after every call by xfRunSeq.
var xfChainFirst = []string{"rfc0", "rfc1", "rfc3", "rf-len", "rf-size", "rf-stat", "rf-limited", "rf-opaque", "rf-opaque1", "w", "wt", "r"}
var xfChainThen = []string{"w", "rf", "rfc", "sk-cur", "r", "wt", "sk-cur+1", "w0"}

func xfChainSeq(cfg xfCfg, first, then string, variant int) (S int, ops []xfOp, path string) {
	mp := cfg.MP
	n1 := []int{2*mp + 1, 3 * mp, mp*min(cfg.Conc, 3) + mp + 1, mp + 1}[variant%4]
	n2 := []int{mp + 1, 2*mp + 1, 3*mp - 1}[variant%3]
	S = []int{4*mp + 3, 0, 2 * mp, 5*mp + 1}[(variant/2)%4]
	start := []int64{1, int64(mp) + 1, int64(mp), 2}[(variant/3)%4]
	seed := 1 + variant%200
	mk := func(n int) xfOp {
		seed += 7
		switch first {
		case "rfc0", "rfc1", "rfc3":
			return xfOp{K: "rfc", N: n, Seed: seed, Conc: int(first[3] - '0'), Src: "opaque"}
		case "w":
			return xfOp{K: "w", N: n, Seed: seed}
		case "wt":
			return xfOp{K: "wt"}
		case "r":
			return xfOp{K: "r", N: n}
		}
		return xfOp{K: "rf", N: n, Seed: seed, Src: first[3:]}
	}
	follow := func() []xfOp {
		seed += 3
		switch then {
		case "w":
			return []xfOp{{K: "w", N: 1 + variant%(mp+1), Seed: seed}}
		case "w0":
			return []xfOp{{K: "w", N: 0}, {K: "w", N: mp + 2, Seed: seed}}
		case "rf":
			return []xfOp{{K: "rf", N: mp + 2, Seed: seed, Src: []string{"len", "opaque", "size"}[variant%3]}}
		case "rfc":
			return []xfOp{{K: "rfc", N: 2*mp + 1, Seed: seed, Conc: 2, Src: "opaque"}}
		case "r":
			return []xfOp{{K: "r", N: mp + 1}}
		case "wt":
			return []xfOp{{K: "wt"}}
		case "sk-cur+1":
			return []xfOp{{K: "sk", Off: 1, Wh: 1}}
		}
		return []xfOp{{K: "sk", Off: 0, Wh: 1}}
	}
	if first == "wt" || first == "r" {
		if S < 4*mp {
			S = 4*mp + 3 // something to read
		}
	}
	ops = append(ops, xfOp{K: "sk", Off: start})
	ops = append(ops, mk(n1))
	ops = append(ops, follow()...)
	if first == "wt" || first == "r" {
		// the reader is at (or near) the end now: go back to a non-zero offset inside the file, relative to the current one
		ops = append(ops, xfOp{K: "sk", Off: -int64(2*mp + 1), Wh: 1})
	}
	ops = append(ops, mk(n2))
	ops = append(ops, follow()...)
	ops = append(ops, xfOp{K: "sk", Off: 0, Wh: 1}, mk(mp+1), xfOp{K: "w", N: 1, Seed: 99}, xfOp{K: "st"}, xfOp{K: "cl"}, xfOp{K: "sk", Wh: 1})
	// which path the first transfer takes under the option set
	switch {
	case first == "wt":
		path = xfWriteToPath(cfg, S)
	case first == "r":
		path = xfCase{Cfg: cfg, API: "Read", Len: n1}.Path()
	case first == "w":
		path = xfCase{Cfg: cfg, API: "Write", Len: n1}.Path()
	case strings.HasPrefix(first, "rfc"):
		path = "concurrent"
	default:
		path = xfCase{Cfg: cfg, API: "ReadFrom", Src: first[3:], Len: n1}.Path()
	}
	return S, ops, path
}

// xfShrinkSeq removes calls one at a time while the same failure key still shows.
func xfShrinkSeq(sc xfSeqCase, key string, run func(xfSeqCase) xfSeqResult) xfSeqCase {
	has := func(r xfSeqResult) (int, bool) {
		for _, f := range r.Fails {
			if f.Key == key {
				return f.At, true
			}
		}
		return 0, false
	}
	r := run(sc)
	at, ok := has(r)
	if !ok {
		return sc
	}
	if at+1 < len(sc.Ops) {
		sc.Ops = append([]xfOp(nil), sc.Ops[:at+1]...)
	}
	for budget := 0; budget < 3; budget++ {
		changed := false
		for j := len(sc.Ops) - 2; j >= 0; j-- {
			try := sc
			try.Ops = append(append([]xfOp(nil), sc.Ops[:j]...), sc.Ops[j+1:]...)
			if _, ok := has(run(try)); ok {
				sc = try
				changed = true
			}
		}
		if !changed {
			break
		}
	}
	// a smaller file, if it still fails
	for _, s := range []int{0, 1, sc.Cfg.MP, sc.Cfg.MP + 1, 2*sc.Cfg.MP + 1, 2*sc.Cfg.MP + 2} {
		if s < sc.FileLen {
			try := sc
			try.FileLen = s
			if _, ok := has(run(try)); ok {
				sc = try
				break
			}
		}
	}
	return sc
}

// ---------- race of Close against other methods ----------

type xfRace struct {
	Hammers int   `json:"hammers"`
	Closers int   `json:"closers"`
	Delay   int   `json:"delay_spins"`
	Seed    int64 `json:"seed"`
}

func xfRunRace(sc xfSeqCase) (fails []xfSeqFailure, stats map[string]int) {
	stats = map[string]int{}
	fail := func(key, what string, exp, act any) {
		fails = append(fails, xfSeqFailure{Key: key, What: what, Expected: exp, Actual: act})
	}
	rc := sc.Race
	peer, err := xfNewPeer(sc.Cfg, xfPeerOpts{File: xfFilePat(sc.FileLen), Exists: true, Window: sc.Window, PermSeed: sc.Seed})
	if err != nil {
		fail("race/setup", err.Error(), nil, nil)
		return
	}
	defer peer.Shutdown()
	f, err := peer.Cli.OpenFile("/f", os.O_RDWR)
	if err != nil {
		fail("race/setup", err.Error(), nil, nil)
		return
	}
	var mu sync.Mutex
	note := func(k string) { mu.Lock(); stats[k]++; mu.Unlock() }
	var bad atomic.Value
	var closeOK, closeClosed int32
	var closedSeen int32 // set once some Close has RETURNED
	start := make(chan struct{})
	var wg sync.WaitGroup
	mp := sc.Cfg.MP
	for h := 0; h < rc.Hammers; h++ {
		wg.Add(1)
		go func(h int) {
			defer wg.Done()
			rng := rand.New(rand.NewSource(rc.Seed + int64(h)*7919))
			<-start
			sawClosed := 0
			for it := 0; it < 400 && sawClosed < 4; it++ {
				afterClose := atomic.LoadInt32(&closedSeen) == 1
				var e error
				var what string
				switch (it + h) % 4 {
				case 0:
					what = "ReadAt"
					b := make([]byte, rng.Intn(3*mp+2))
					_, e = f.ReadAt(b, int64(rng.Intn(sc.FileLen+2)))
					if e == io.EOF {
						e = nil
					}
				case 1:
					what = "WriteAt"
					_, e = f.WriteAt(xfPat(h, rng.Intn(3*mp+2)), int64(rng.Intn(sc.FileLen+2)))
				case 2:
					what = "Stat"
					_, e = f.Stat()
				case 3:
					what = "Truncate"
					e = f.Truncate(int64(sc.FileLen))
				}
				switch {
				case e == nil:
					note("before-close/" + what)
					if afterClose {
						bad.Store(fmt.Sprintf("%s succeeded although a Close call had already returned", what))
					}
				case errors.Is(e, os.ErrClosed):
					note("closed/" + what)
					sawClosed++
				default:
					bad.Store(fmt.Sprintf("%s returned %v (neither success nor os.ErrClosed)", what, e))
				}
			}
		}(h)
	}
	for cl := 0; cl < rc.Closers; cl++ {
		wg.Add(1)
		go func(cl int) {
			defer wg.Done()
			<-start
			for i := 0; i < rc.Delay*(cl+1); i++ {
				runtime.Gosched()
			}
			e := f.Close()
			switch {
			case e == nil:
				atomic.AddInt32(&closeOK, 1)
			case errors.Is(e, os.ErrClosed):
				atomic.AddInt32(&closeClosed, 1)
			default:
				bad.Store(fmt.Sprintf("Close returned %v", e))
			}
			atomic.StoreInt32(&closedSeen, 1)
		}(cl)
	}
	done := make(chan struct{})
	go func() { close(start); wg.Wait(); close(done) }()
	if _, ok := lib.WaitHang(xfProp+"/close-race", 20*time.Second, done); !ok {
		fail("race/hang", "Close racing with ReadAt/WriteAt/Stat/Truncate did not finish within 20 s", "finish", "hang")
		return
	}
	if b := bad.Load(); b != nil {
		fail("race/result", b.(string), nil, nil)
	}
	if closeOK != 1 || int(closeClosed) != rc.Closers-1 {
		fail("race/close-results", "of the concurrent Close calls exactly one must succeed, the others return os.ErrClosed", fmt.Sprintf("1 nil, %d os.ErrClosed", rc.Closers-1), fmt.Sprintf("%d nil, %d os.ErrClosed", closeOK, closeClosed))
	}
	// everything answers os.ErrClosed now
	for name, e := range map[string]error{"Read": xfErr2(f.Read(make([]byte, 1))), "ReadAt": xfErr2(f.ReadAt(make([]byte, 1), 0)), "Write": xfErr2(f.Write([]byte{1})),
		"WriteAt": xfErr2(f.WriteAt([]byte{1}, 0)), "Seek": xfErr2(f.Seek(0, io.SeekStart)), "Stat": xfErr2(f.Stat()), "Truncate": f.Truncate(0), "Close": f.Close(),
		"WriteTo": xfErr2(f.WriteTo(io.Discard)), "ReadFrom": xfErr2(f.ReadFrom(bytes.NewReader([]byte{1}))), "Chmod": f.Chmod(0o600), "Chown": f.Chown(0, 0), "Sync": f.Sync()} {
		if !errors.Is(e, os.ErrClosed) {
			fail("after-close/"+name, name+" after the raced Close did not return os.ErrClosed", "os.ErrClosed", fmt.Sprint(e))
		}
	}
	// the wire: flush by a round trip on another path, then parse everything the client wrote
	peer.Cli.Stat("/f")
	closes, late, _ := xfHandleUseAfterClose(peer.SS.RawIn())
	total := 0
	for _, n := range closes {
		total += n
	}
	if total != 1 {
		fail("race/close-count", "not exactly one CLOSE frame on the wire", 1, total)
	}
	if len(late) > 0 {
		fail("race/use-after-close", "request frames carrying the closed handle follow the CLOSE frame on the wire", "none", late)
	}
	for _, q := range peer.Log() {
		if q.Stale {
			fail("race/use-after-close", fmt.Sprintf("the peer received a request of type %d with the closed handle after CLOSE", q.Typ), "none", q.Seq)
			break
		}
	}
	return
}

func xfErr2[T any](_ T, err error) error { return err }

// ---------- the check ----------

func checkC12(c *lib.Ctx) {
	r := c.R
	res := &xfRes{r: r}
	thorough := c.Tier == "thorough"
	r.Rule = "(a) WriteTo offset sweep: file sizes 0..3*mp*min(conc,3)+2 x start offsets {0,1,mp,size-1,size,size+1} x UseConcurrentReads x UseFstat x (mp,conc) on the scripted peer; (b) PRNG sequences (quick ~12, thorough ~40 calls + Close + 4..18 calls after Close) of Read/ReadAt/Write/WriteAt/ReadFrom(6 source kinds)/ReadFromWithConcurrency/WriteTo/Seek(whence 0,1,2 and invalid 5,7,-1; negative targets; one in seven with an offset at the edges of int64, followed by a Seek back)/Stat/Truncate on os-backed server, request server and scripted peer (in order and permuted replies); in every second peer sequence a quarter of the read/write calls have 1-2 PRNG-chosen chunks answered with a status of code 4/3/1(SSH_FX_EOF)/8/2/255, in every second request-server sequence the handler refuses writes beyond a PRNG quota: there the reference is offset-before + the intact prefix the server side recorded as stored (ReadAt/WriteAt: unchanged) x client options (quick: every (mp,conc) pair with rotating booleans, thorough: full product), mirrored on an *os.File; (b') per server kind and option set 7 (thorough 42) written-out sequences around a disturbed NAME with the handle open (op nm: rename away / remove / rotate / replace by a shorter or longer file / directory / symlink / dangling link, a second different one later; file sizes {0,1,mp,mp+1,2mp,3mp+2}; after each: Seek(x, io.SeekEnd) for x in {0,-1,-size,-size-1 (negative result: rejected without moving),+mp+1}, append, Read, Stat, WriteTo, Truncate, ReadFrom, ReadAt/WriteAt, Close), and every third PRNG sequence draws nm steps (each followed by 0-2 end-relative seeks) among its calls: real renames/removals on the os-backed server, differing STAT/LSTAT(path) vs FSTAT(handle) answers on the request server and the scripted peer, the same done to the os.File twin's name; every Seek's requests are read off the wire (none, or exactly one FSTAT on the handle for io.SeekEnd); (b'') per option set 6 (thorough: all 96) written-out chains of offset-relative calls on ONE handle: Seek to a non-zero start, a transfer variant {ReadFromWithConcurrency(0,1,3), ReadFrom(Len/Size/Stat/LimitedReader: concurrent when UseConcurrentWrites and more than one packet; opaque: sequential), Write, WriteTo, Read} of 2-4 packets, a follower {Write, empty Write+Write, ReadFrom, ReadFromWithConcurrency, Read, WriteTo, Seek(0/1, io.SeekCurrent)}, the transfer variant again, the follower again, Seek(0, io.SeekCurrent), a third transfer, Write, Stat, Close: offset, bytes and content after every call against the os.File twin; x open mode of the File {O_RDWR, +O_CREATE, +O_APPEND, +O_TRUNC, Client.Create(), O_CREATE|O_TRUNC, O_CREATE|O_EXCL on a new name} rotating over chains and PRNG sequences (twin opened alike; O_APPEND is a no-op for the servers, so the twin is opened without it) x servers {os, rs, os+allocator, rs+allocator+max-tx 65536, os+max-tx 65536, os+allocator+max-tx 65536 (these three also with client packet size 40000), request server without sftp.OpenFileWriter (reads through the Filewrite handle must fail with the failure status, deliver nothing and leave the offset alone; writes, seeks, Stat, Truncate go on), client packet size 40000 > default max payload with concurrent reads off}; (b3) client packet size ABOVE what the server returns per READ, a chunk taking three or more READs (each asking for the rest at chunk offset + bytes so far): MaxPacketUnchecked(2*cap+1, 3*cap, 100000, 262000) against {os, rs} x {allocator off, on} with the default max payload (cap 32768) and with max-tx 65536 (quick: per server kind one size with concurrent reads off and one with them on, rotating with the seed so that the default-payload servers together see all four sizes either way; thorough: all), and packet sizes 3,4,7 (32768) against the scripted peer whose DATA replies carry at most 1,2,3 (10000) bytes x MaxConcurrentRequestsPerFile rotating; with concurrent reads OFF these configurations get all the generators above (chains, name sequences, PRNG sequences with lengths/offsets also aimed at cap, cap+1, 2cap, 2cap+1, 3cap+1, mp+2cap+1) plus xfGenCapSeq; with concurrent reads ON only xfGenCapSeq, which keeps to the refilling read paths (Read/ReadAt of at most one packet; WriteTo after the file was truncated to at most one packet = sequential after STAT). xfGenCapSeq: 6-13 (small packets: 6-17) calls of Read x4/ReadAt x3/WriteTo x2/Seek x2/Write/WriteAt/ReadFrom/Truncate/Stat + Close + calls after Close; read lengths from {1,cap-1,cap,cap+1,2cap-1,2cap,2cap+1,3cap,3cap+1,mp-1,mp} and (concurrent reads off) {mp+1,mp+cap+1,mp+2cap+1,2mp,2mp+1,2mp+2cap+1,3mp+1}, a fifth uniform; offsets from {0,1,cap-1,cap,cap+1,2cap+1,mp,mp+1,size-1,size,size+1,size-2cap-1,size-2cap,size-3cap-1,size-mp,current, and such that the read ends at / one before / one beyond end of file or its 2nd/3rd READ meets it}; file sizes {2cap+1,3cap,3cap+1,mp-1,mp,mp+1,mp+2cap+1,2mp+1,2mp+2cap+2,3mp+2}; 10 such sequences per big-packet job, 24 per small-packet job (thorough x4); the histogram (above-cap|…|data-READs-per-chunk) says how many READs the fullest chunk of each read call took; (b4) per server kind and option set 2 (thorough 8) written-out sequences of Seeks at the edges of int64 (c12_seekedge.go): the offset is made non-zero by a Read, a Write, a Seek or Read+Seek on a file of {1,2,mp,mp+1,2mp+1,3mp+2} bytes, then for whence start, current, end every offset of {MaxInt64, MaxInt64-1, MinInt64, MinInt64+1, +-2^62, +-2^32, 2^32-1, 2^31, MaxInt64-base, MaxInt64-base+-1, -base, -base+-1, MaxInt64/2(+1), MinInt64/2} (base = 0 / current offset / size); after a seek that was taken far out, current-relative steps to and across MaxInt64 (+1, MaxInt64-offset, +1; MaxInt64; MinInt64, -offset-1), then back to a small non-zero offset by one of three routes; finally Read, Write, Close, Seeks after Close. Reference: the os.File twin where its file system takes the target, else (and while the File stands at such a position) the arithmetic itself: target = base + offset over the integers must be taken iff it is a non-negative int64, else refused with os.ErrInvalid without moving (Seek(0, io.SeekCurrent) asked after every call); (c) Close raced by 2 closers against 3..8 goroutines of ReadAt/WriteAt/Stat/Truncate on the scripted peer with the raw request stream parsed (c') two calls on ONE fresh File leaving a spin barrier at the same moment (in most attempts of the pairs other than Close||Close one side starts 40-5000 atomic increments late, either side), 150 attempts per job (Close||Close: 2000; 32 KiB packets: a quarter), on the scripted peer which counts the requests per handle: Close||Close x 6 option sets, Close||{Read, Write, Seek(start), Seek(end), Stat, ReadAt, WriteAt, Truncate, WriteTo, ReadFrom} and Seek||Read, Seek||Write, Seek||Seek, Read||Read, Write||Write, Read||Write x 2 option sets (thorough x4), lengths {1, mp, mp+1, 2mp+1} on a file of 3mp+2 bytes: exactly one CLOSE request and no request with the closed handle after it, {nil, os.ErrClosed} for two Closes, os.ErrClosed or the call's own result beside a Close, the results + final offset + content of one of the two orders for two offset-moving calls, os.ErrClosed from every method afterwards; non-trivial = a sequence that moves the offset through at least two different methods; distinct by the whole case text"
	r.Rule += "; (b5) the request server over the package's OWN example backend sftp.InMemHandler() (xfer_inmem.go) gets the chains, the seek-edge sequences and the PRNG sequences too (no name disturbances: its names are its own; 32 KiB packets with at most 3 requests per file); (b6) per server kind and option set 2 (thorough 6) HISTORIES of one file (xfer_hist.go: data up to hi, shrink by Truncate / Close + open again with O_TRUNC / Create() / the open of the sequence itself, a sparse write beyond the new end by WriteAt / Seek+Write / Seek+ReadFrom / Seek+ReadFromWithConcurrency, everything read back; op ro = Close + open the same name again, on the twin alike: exactly one CLOSE per handle); (d) the reply to the CLOSE request itself (c12_closereply.go), 2 (thorough 12) sequences per scripted-peer and request-server job: after 0-3 calls that leave the offset non-zero the CLOSE is answered with a failure status of code {4,3,2,256,5,6,7,8,255,1,2^32-1,257} (scripted peer, 4 of 5), the connection is cut instead of an answer (scripted peer, 1 of 5), or the file object of the request server's handler fails its Close() with one of the 29 error values of xfHandlerErrs (opens served by OpenFile, and by Filewrite when FilePut is no OpenFileWriter); the handle is released by the server when the request arrives, so: that first Close returns the server's failure (cut: an error of its own), and then EVERY File method once in a PRNG order - Read x2, ReadAt x2, Write x2, WriteAt x2, ReadFrom x3, ReadFromWithConcurrency, WriteTo, Seek x5, Stat, Truncate x2, Chmod, Chown, Sync, Close, and one more Close at the end - must return os.ErrClosed (the os.File twin agrees), exactly one CLOSE request was sent and no request naming the released handle reached the peer; the status codes of failing chunks inside sequences now include 256, 257 and 0xFFFFFF01"
	r.Rule += "; (e) transfers whose SOURCE or SINK stalls (c12_stall.go), scripted peer, per option set 16 (thorough 60) cases, each option set in a child process of its own (a goroutine left behind by a call may also panic: then the case the child was running is the failing input): ReadFromWithConcurrency(r, 0/1/2/3/5), ReadFrom(r) with r opaque / Len() / Size() / *io.LimitedReader (concurrent when UseConcurrentWrites and more than a packet is announced), WriteTo(w) x the server refuses {every chunk, the first, the last before the stall, a PRNG subset, none} of the call's chunk plan with status 4/3/8/2/255/256 (all 60 combinations in 60 consecutive cases), replies in order or permuted; the source hands out 0..4 (now and then up to 2*conc+6) whole packets, +0/+1/+mp-1 bytes, in pieces of 1/2/3/mp/mp+1 bytes or as asked, and then BLOCKS in Read until released (the sink: in Write), after which it goes on for 0/1/mp/mp+1/2mp+1/3mp more bytes, ends, or fails; start offset 0 or {1,mp,mp+1,2mp+1}; Close is called beside the stalled call (a third) or when the call has returned; for 20 ms the harness watches whether the call (or that Close) returns although the source is still blocked - then the File is closed at once, as an application may; then the source/sink is released, call and Close are waited for (hang budget), and after a settle period (the released Read has returned, 4 ms, two STAT round trips) the wire order recorded by the peer and parsed again from the raw byte stream must show exactly one CLOSE, Close == nil, and NOTHING naming the handle after the CLOSE frame (requests written before it are fine), and one more method must answer os.ErrClosed; non-trivial = the stall is reached with a refusal, a failing/ending source or a Close beside the call"
	r.Rule += "; (f) a File method FAILS, then every other method, then Close (c12_afterfail.go), on a scripted peer that hits the k-th request of a given type after it was armed: open, offset left at 0 or made non-zero by Seek / Read / Write; the failing call m1 in {Stat, Chmod, Chown, Truncate, Sync, SetExtendedData, Seek(-1, io.SeekEnd), ReadAt, WriteAt, Read, Write, ReadFrom(opaque), ReadFrom(source with Len), ReadFromWithConcurrency, WriteTo (1 or 3 packets; chunk 0 / 1 / last of the call's plan is hit, WriteTo with concurrent reads also at its size query), Seek to a negative position, Seek with an unknown whence, Sync without the fsync@openssh.com extension (these three fail without asking the server)}; the fault: the request is REFUSED with status code {4,3,2,8,1,5,6,7,9,255,256,2^32-1}, answered with a MALFORMED reply {HANDLE / NAME / EXTENDED_REPLY frame, STATUS frame ending after the id, ATTRS frame shorter than its flags, DATA frame shorter than its length word, SSH_FX_OK where attributes are due}, or the connection is CUT instead of an answer; then AT ONCE (no call in between) the method m2 in {the above + Seek(start), Seek(current), Close}, then every other method once in a rotating order, each followed by Seek(0, io.SeekCurrent), then Close, then every method once more; quick: every ordered pair (m1, m2) once (17 x 20 = 340, the fault rotating) + every fault of every m1 once (m2 rotating), two option sets per m1 (packet sizes 1,2,3,4,7,32768, concurrency 1,2,3,64, concurrent reads/writes on and off, UseFstat rotating); thorough: every pair x every fault, six option sets per m1. Reference: the File as the property describes it (offset, content, mode bits, open/closed): the failing call returns the server's status (io.EOF / os.ErrNotExist / os.ErrPermission for codes 1/2/3; malformed reply or cut connection: an error other than os.ErrClosed), count and data of the intact prefix below the failing chunk (ReadFrom: what it took from its source), the offset advanced by that prefix (Read, Write, ReadFrom, WriteTo) or unmoved (all others), the served file = prefix stored + nothing changed outside the call's range; every later call = the same call on an os.File in that state (behind a cut connection: every call that needs the server fails and moves nothing, start/current-relative Seeks go on working, Close returns an error of its own); Close returns, exactly one CLOSE request carrying the handle (cut: at most one) and nothing naming the handle after it, every method afterwards os.ErrClosed. Every call has the hang deadline (class c12/after-failed/<m1>); a call that does not return is reported as after-failed-<last call that failed>/<call that hung>/hang; after one hang behind a method the job's other histories in which that method fails are not run, after 2 none of any job (said in a note); histories with a cut connection run in a second pass"
	model := xfProbeModel(c)
	xfProbeDefects(&model)
	r.Note("client packet sizes above the server's max payload are asked on the REFILLING read paths only (Read/ReadAt of at most one packet, every read with UseConcurrentReads(false), sequential WriteTo): the concurrent readers take a short DATA reply for end of file, so with concurrent reads on and such a packet size ReadAt of several packets and WriteTo of a larger file lose data on the unchanged code - outside C01's quantifier (\"as long as the client's packet size does not exceed the server's maximum payload\"), not asked and not reported here")
	if model.Seq {
		r.Note("every modellable sequence is also evaluated by the Lean driver op xfer.seq (switches wtm=%d rfm=%d taken from the implementation)", model.WTM, model.RFM)
	}
	root, err := lib.MkScratch("vh-c12-")
	if err != nil {
		r.Fail(lib.Failure{Kind: "tie", Key: "tmpdir", What: err.Error()})
		return
	}
	defer os.RemoveAll(root)
	mc := &xfSeqCompare{}

	report := func(sc xfSeqCase, fs []xfSeqFailure) {
		for _, f := range fs {
			kind := "oracle"
			if strings.Contains(f.Key, "setup") || strings.Contains(f.Key, "/twin") {
				kind = "tie"
			}
			what := f.What
			if sc.Stall == nil && sc.After == nil {
				what = fmt.Sprintf("%s (call #%d)", f.What, f.At)
			}
			res.Fail(lib.Failure{Kind: kind, Key: f.Key, What: what, Input: sc, Expected: f.Expected, Actual: f.Actual})
		}
	}
	addModel := func(sc xfSeqCase, sr xfSeqResult) {
		if !model.Seq || !sr.Modelled || len(sr.Fails) > 0 || sr.Impl == "" || sc.FileLen > 150000 {
			return
		}
		if sc.Cfg.MP > 40000 {
			// (the model works on byte lists: sequences that move more than about half a megabyte take seconds)
			moved := 0
			for _, o := range sc.Ops {
				moved += o.N
				if o.K == "wt" {
					moved += sc.FileLen
				}
			}
			if moved > 600000 {
				return
			}
		}
		var calls []string
		for _, o := range sc.Ops {
			if o.K != "nm" { // the model has no names: a disturbed name must change nothing
				calls = append(calls, o.model())
			}
		}
		mc.add(xfSeqLine{input: sc, line: fmt.Sprintf("xfer.seq %s %d %s", model.cfgToken(sc.Cfg, xfMaxTx(sc.Srv)), sc.FileLen, strings.Join(calls, ";")),
			calls: sr.Impl, file: sr.FileText})
	}

	if c.Replay != "" {
		inputs, err := xfReplayInputs(c.Replay)
		if err != nil {
			r.Fail(lib.Failure{Kind: "tie", Key: "replay", What: err.Error()})
			return
		}
		for _, raw := range inputs {
			var sc xfSeqCase
			if err := json.Unmarshal(raw, &sc); err != nil || (len(sc.Ops) == 0 && sc.Race == nil && sc.Pair == nil && sc.Stall == nil && sc.After == nil) {
				continue
			}
			res.Case(sc.Text(), true)
			if sc.Stall != nil {
				if err := xfStallExec([]xfSeqCase{sc}, false, root, "replay", func(sc xfSeqCase, fs []xfSeqFailure, _ []string, _ bool) { report(sc, fs) }); err != nil {
					r.Note("replay: %v", err)
				}
				continue
			}
			if sc.Pair != nil {
				fs, _ := xfRunPairs(sc, nil)
				report(sc, fs)
				continue
			}
			if sc.After != nil {
				fs, _ := xfRunAfterFail(sc, nil)
				report(sc, fs)
				continue
			}
			if sc.Race != nil {
				fs, _ := xfRunRace(sc)
				report(sc, fs)
				continue
			}
			var real *xfReal
			if sc.Srv.Kind != "peer" {
				if real, err = xfStartPair(sc.Srv, sc.Cfg, root); err != nil {
					r.Fail(lib.Failure{Kind: "tie", Key: "setup/pair", What: err.Error()})
					return
				}
			}
			sr := xfRunSeq(sc, real, nil, root)
			if real != nil {
				real.Shutdown()
			}
			if sr.SetupErr != nil {
				r.Fail(lib.Failure{Kind: "tie", Key: "setup", What: sr.SetupErr.Error(), Input: sc})
			}
			report(sc, sr.Fails)
			addModel(sc, sr)
		}
		mc.compare(c, "c12")
		return
	}

	// (a) the WriteTo offset sweep, smallest inputs first so that the first report is the minimal one
	{
		hold := &xfPeerHold{}
		f12 := 0
		for _, mp := range []int{2, 3, 4, 1, 7} {
			for _, conc := range []int{64, 1, 2, 3} {
				for b := 0; b < 4; b++ {
					cfg := xfCfg{MP: mp, Conc: conc, CR: b&1 == 0, Fstat: b&2 != 0}
					kc := conc
					if kc > 3 {
						kc = 3
					}
					maxS := 3*mp*kc + 2
					if !thorough && maxS > 3*mp+2 && conc != 64 {
						maxS = 3*mp + 2
					}
					for S := 0; S <= maxS; S++ {
						for _, o := range []int{0, 1, mp, S - 1, S, S + 1} {
							if o < 0 || (o > 1 && o != mp && !thorough && S%2 == 1) {
								continue
							}
							sc := xfSeqCase{Srv: xfSrvSpec{Kind: "peer"}, Cfg: cfg, FileLen: S, Window: 1}
							if o != 0 {
								sc.Ops = append(sc.Ops, xfOp{K: "sk", Off: int64(o)})
							}
							sc.Ops = append(sc.Ops, xfOp{K: "wt"}, xfOp{K: "r", N: 1}, xfOp{K: "cl"})
							sr := xfRunSeq(sc, nil, hold, root)
							res.Case(sc.Text(), S > mp)
							res.Hist("sweep=WriteTo|path="+xfWriteToPath(cfg, S), fmt.Sprintf("sweep=WriteTo|mp%d", mp))
							if sr.SetupErr != nil {
								r.Fail(lib.Failure{Kind: "tie", Key: "setup", What: sr.SetupErr.Error(), Input: sc})
								continue
							}
							for _, f := range sr.Fails {
								if f.Key == xfKeyF12 {
									f12++
								}
							}
							report(sc, sr.Fails)
							addModel(sc, sr)
						}
					}
				}
			}
		}
		hold.Close()
		if f12 > 0 {
			r.Note("known defect F12 (key %s) observed on %d sweep inputs; the first one reported is the smallest (mp 2, 3-byte file => offset 4; the design probe's 10-byte file with mp 4 ends at offset 12)", xfKeyF12, f12)
		}
	}

	// (b) sequences
	specs := []xfSrvSpec{{Kind: "os"}, {Kind: "rs"}, {Kind: "peer"}, {Kind: "peer", Perm: true}, {Kind: "os", Alloc: true}, {Kind: "rs", Alloc: true, MaxTx: 65536},
		{Kind: "os", MaxTx: 65536}, {Kind: "os", Alloc: true, MaxTx: 65536}, {Kind: "rs", NoOFW: true},
		// the request server over the package's own example backend sftp.InMemHandler() (xfer_inmem.go)
		{Kind: "rs", InMem: true}}
	var jobs []xfJob
	rot := int(c.Seed % 8)
	for si, sp := range specs {
		cfgs := xfCoverCfgs(si*3 + rot + 2)
		if thorough {
			cfgs = xfAllCfgs()
			if si >= 4 { // the allocator / max-tx-packet / handler variants get the covering set only
				cfgs = xfCoverCfgs(si*3 + rot + 2)
			}
		}
		for _, cfg := range cfgs {
			if sp.InMem && cfg.MP > 1000 && cfg.Conc > 3 {
				continue // (memFile.WriteAt sleeps a microsecond per byte)
			}
			jobs = append(jobs, xfJob{Spec: sp, Cfg: cfg, Seed: c.Rand.Int63(), Idx: len(jobs)})
		}
		switch {
		case sp.InMem:
		case sp.MaxTx >= 40000:
			// a server whose max payload was raised serves a larger client packet size too
			for b, conc := range []int{1, 3, 64} {
				jobs = append(jobs, xfJob{Spec: sp, Cfg: xfCfg{MP: 40000, Unchecked: true, Conc: conc, CR: (si+b)%2 == 0, CW: (si/2+b)%2 == 0, Fstat: b == 0},
					Seed: c.Rand.Int63(), Idx: len(jobs)})
			}
		case sp.Kind != "peer":
			// a client packet size above the server's max payload: with concurrent reads off every read path asks again
			// for the rest of a short DATA reply, so the offsets must still follow os.File's
			jobs = append(jobs, xfJob{Spec: sp, Cfg: xfCfg{MP: 40000, Unchecked: true, Conc: []int{1, 3}[si%2], CR: false, CW: si%3 == 0, Fstat: si%2 == 0},
				Seed: c.Rand.Int63(), Idx: len(jobs)})
		}
	}
	// (b3) a client packet size above what the server returns per READ, such that a chunk takes THREE or more READs
	// (the 40000 above takes two). Real servers: packet sizes xfAboveCapMPs of the server's max payload; quick gives every
	// server kind one size with concurrent reads off (every generator) and one with them on (xfGenCapSeq only, which keeps
	// to the refilling paths), rotating so that the default-payload servers together see every size; thorough all sizes.
	capSpecs := []xfSrvSpec{{Kind: "os"}, {Kind: "rs"}, {Kind: "os", Alloc: true}, {Kind: "rs", Alloc: true},
		{Kind: "os", MaxTx: 65536}, {Kind: "rs", Alloc: true, MaxTx: 65536}, {Kind: "os", Alloc: true, MaxTx: 65536}, {Kind: "rs", MaxTx: 65536}}
	for si, sp := range capSpecs {
		mps := xfAboveCapMPs(xfMaxTx(sp))
		for k, mp := range mps {
			for b, cr := range []bool{false, true} {
				if !thorough && k != (si+rot+2*b)%len(mps) {
					continue
				}
				jobs = append(jobs, xfJob{Spec: sp, Cfg: xfCfg{MP: mp, Unchecked: true, Conc: []int{1, 3, 64}[(si+k+b)%3], CR: cr, CW: (si+k)%2 == 0, Fstat: (si/2+k+b)%2 == 0},
					Seed: c.Rand.Int63(), Idx: len(jobs)})
			}
		}
	}
	// Scripted peer whose DATA replies carry at most ShortCap bytes (any server may answer a READ short): small packet
	// sizes, so that every boundary is met many times.
	peerCaps := [][2]int{{3, 1}, {4, 1}, {7, 1}, {7, 2}, {7, 3}, {32768, 10000}}
	if thorough {
		peerCaps = append(peerCaps, [2]int{2, 1}, [2]int{7, 5}, [2]int{4, 3}, [2]int{32768, 16383}, [2]int{32768, 1000})
	}
	for pi, pc := range peerCaps {
		for b, cr := range []bool{false, true} {
			for ci, conc := range xfConcs {
				if !thorough && ci != (pi+b+rot)%len(xfConcs) {
					continue
				}
				jobs = append(jobs, xfJob{Spec: xfSrvSpec{Kind: "peer"}, ShortCap: pc[1], Cfg: xfCfg{MP: pc[0], Unchecked: (pi+ci)%2 == 1, Conc: conc, CR: cr, CW: (pi+ci+b)%2 == 0, Fstat: (pi/2+ci)%2 == 0},
					Seed: c.Rand.Int63(), Idx: len(jobs)})
			}
		}
	}
	perJob0, seqLen := 14, 12
	if thorough {
		perJob0, seqLen = 30, 40
	}
	// order of execution: the small-packet jobs against the capped peer first (they take milliseconds, and of the failures
	// of one key the first three are kept: those should be the small inputs), then the jobs that move the most bytes
	// (the pool is then busy to the end)
	order := make([]int, len(jobs))
	for i := range order {
		order[i] = i
	}
	weight := func(j xfJob) int {
		if j.ShortCap > 0 && j.Cfg.MP <= 1000 {
			return 1 << 30
		}
		return j.Cfg.MP
	}
	sort.SliceStable(order, func(a, b int) bool { return weight(jobs[order[a]]) > weight(jobs[order[b]]) })
	var sampleN int32
	hangs := &xfHangBudget{}
	defer hangs.Report(r)
	xfParallel(len(jobs), runtime.GOMAXPROCS(0), func(w, oi int) {
		job := jobs[order[oi]]
		rng := rand.New(rand.NewSource(job.Seed))
		dir := filepath.Join(root, fmt.Sprintf("j%d", job.Idx))
		if err := os.Mkdir(dir, 0o755); err != nil {
			res.Fail(lib.Failure{Kind: "tie", Key: "tmpdir", What: err.Error()})
			return
		}
		defer os.RemoveAll(dir)
		var real *xfReal
		hold := &xfPeerHold{slot: w}
		defer hold.Close()
		start := func() bool {
			if job.Spec.Kind == "peer" {
				return true
			}
			var err error
			if real, err = xfStartPair(job.Spec, job.Cfg, dir); err != nil {
				res.Fail(lib.Failure{Kind: "tie", Key: "setup/pair", What: err.Error(), Input: job})
				return false
			}
			return true
		}
		if !start() {
			return
		}
		defer func() {
			if real != nil {
				real.Shutdown()
			}
		}()
		run := func(sc xfSeqCase) xfSeqResult { return xfRunSeq(sc, real, hold, dir) }
		nameSeqs := len(xfNameActs)
		if thorough {
			nameSeqs *= 6
		}
		if job.Spec.NoOFW || job.Spec.InMem {
			nameSeqs = 0 // (the written-out name sequences read through the handle at every step; InMemHandler's names are its own)
		}
		// the chains of offset-relative calls: quick rotates through the (transfer, follower) pairs, thorough takes them all
		nPairs := len(xfChainFirst) * len(xfChainThen)
		chainSeqs := 6
		if thorough {
			chainSeqs = nPairs
		}
		if job.Cfg.MP > 1000 {
			chainSeqs = min(chainSeqs, 4)
			if thorough {
				chainSeqs = 24
			}
		}
		// what the server returns per READ, when that is less than the client's packet size: the sequences of
		// xfGenCapSeq follow the others (s >= perJob); with concurrent reads on they are the only ones (the other
		// generators ask the concurrent readers too)
		perJob, capSeqs := perJob0, 0
		readCap := xfSeqCase{Srv: job.Spec, ShortCap: job.ShortCap}.ReadCap()
		if readCap >= job.Cfg.MP {
			readCap = 0
		}
		if readCap > 0 {
			switch {
			case job.Cfg.MP <= 1000:
				capSeqs = 24
			case job.Cfg.MP <= 40000:
				capSeqs = 8
			default:
				capSeqs, perJob, nameSeqs = 10, 4, min(nameSeqs, 2)
			}
			if thorough {
				capSeqs *= 4
			}
			if job.Cfg.CR {
				perJob, nameSeqs, chainSeqs = 0, 0, 0
			}
		}
		// the seeks at the edges of int64 (c12_seekedge.go): one sequence per prefix kind rotating with the job
		edgeSeqs := 2
		if thorough {
			edgeSeqs = 8
		}
		if readCap > 0 && job.Cfg.CR {
			edgeSeqs = 0
		}
		// histories of one file (xfer_hist.go: data, shrink, sparse write beyond the new end, read back) and sequences whose
		// CLOSE request comes to something other than SSH_FX_OK (c12_closereply.go: scripted peer and the harness's handlers)
		histSeqs, closeSeqs := 2, 0
		if job.Spec.Kind == "peer" || (job.Spec.Kind == "rs" && !job.Spec.InMem) {
			closeSeqs = 2
		}
		if thorough {
			histSeqs, closeSeqs = 6, closeSeqs*6
		}
		if readCap > 0 && job.Cfg.CR {
			histSeqs, closeSeqs = 0, 0 // (only xfGenCapSeq keeps to the refilling read paths)
		}
		for s := -nameSeqs - chainSeqs - edgeSeqs; s < perJob+capSeqs+histSeqs+closeSeqs; s++ {
			if hangs.Spent(job.Spec) {
				return
			}
			var S int
			var ops []xfOp
			tag := ""
			var ready *xfSeqCase // the sequence comes with its open mode
			if s >= perJob+capSeqs+histSeqs {
				t := s - perJob - capSeqs - histSeqs
				S, ops = xfCloseReplySeq(rng, job.Spec, job.Cfg, job.Idx*closeSeqs+t+rot)
				tag = "close-reply"
			} else if s >= perJob+capSeqs {
				hc := xfHistCase(rng, job.Spec, job.Cfg, job.Idx*histSeqs+s+rot)
				hc.ShortCap = job.ShortCap
				ready, S, ops, tag = &hc, hc.FileLen, hc.Ops, "history"
			} else if s < -nameSeqs-chainSeqs {
				t := s + nameSeqs + chainSeqs + edgeSeqs
				mp := job.Cfg.MP
				S = []int{1, mp + 1, 3*mp + 2, 2, mp, 2*mp + 1}[(job.Idx+t)%6]
				ops = xfSeekEdgeSeq(job.Cfg, S, job.Idx*edgeSeqs+t+rot, !job.Spec.NoOFW)
				tag = "seek-edges|prefix=" + []string{"Read", "Write", "Seek", "Read+Seek"}[(job.Idx*edgeSeqs+t+rot)%4]
			} else if s < -nameSeqs {
				t := s + nameSeqs + chainSeqs
				pi := (job.Idx*chainSeqs*5 + rot*7 + t*13) % nPairs
				if thorough && chainSeqs == nPairs {
					pi = t
				}
				first, then := xfChainFirst[pi%len(xfChainFirst)], xfChainThen[pi/len(xfChainFirst)]
				var cpath string
				S, ops, cpath = xfChainSeq(job.Cfg, first, then, job.Idx+t)
				tag = "chain|first=" + first + "|path=" + cpath + ";chain|then=" + then
			} else if s < 0 {
				// (b') the written-out sequences around a disturbed name: every kind of disturbance for this option set
				t := s + nameSeqs
				ai, variant := t%len(xfNameActs), t/len(xfNameActs)+job.Idx
				mp := job.Cfg.MP
				S = []int{0, 1, mp + 1, 3*mp + 2, mp, 2 * mp}[(job.Idx+t)%6]
				ops = xfNameSeq(job.Cfg, S, variant, xfNameActs[ai], xfNameActs[(ai+3+variant%2)%len(xfNameActs)])
			} else if s >= perJob {
				n := seqLen/2 + rng.Intn(seqLen)
				if job.Cfg.MP > 1000 {
					n = 6 + rng.Intn(8)
				}
				S, ops = xfGenCapSeq(rng, job.Cfg, readCap, n)
				tag = "above-cap|generator=xfGenCapSeq"
			} else {
				n := seqLen/2 + rng.Intn(seqLen)
				if job.Cfg.MP > 1000 {
					n = 4 + rng.Intn(6)
				}
				S, ops = xfGenSeq(rng, job.Cfg, n, job.Spec.Kind == "peer" && s%2 == 1 && job.ShortCap == 0, s%3 == 2 && !job.Spec.NoOFW && !job.Spec.InMem, readCap)
			}
			sc := xfSeqCase{Srv: job.Spec, Cfg: job.Cfg, FileLen: S, Ops: ops, Window: 1, Tag: tag, ShortCap: job.ShortCap}
			if ready != nil {
				sc = *ready
			}
			// the open mode rotates over the sequences (the written-out name sequences keep track of the exact size
			// themselves and stay with plain O_RDWR)
			if ready == nil && (s >= 0 || s < -nameSeqs) {
				name := xfSeqOpenModes[(job.Idx*3+s+nameSeqs+chainSeqs+edgeSeqs+rot)%len(xfSeqOpenModes)]
				if m, _ := xfOpenModeByName(name); m.Empties() && (strings.HasPrefix(tag, "chain|first=wt") || strings.HasPrefix(tag, "chain|first=r|") || strings.HasPrefix(tag, "seek-edges") || s >= perJob) {
					name = "rdwr+append" // these chains need something to read (and xfGenCapSeq keeps track of the exact size)
				}
				if name != "rdwr" {
					xfApplySeqOpen(&sc, name)
				}
			}
			if s < 0 {
				if job.Spec.Perm {
					sc.Seed = rng.Int63() >> 11
					sc.Window = 2 + rng.Intn(job.Cfg.Conc+1)
				}
			} else if job.Spec.Kind == "rs" && !job.Spec.InMem && s%2 == 1 && s < perJob {
				sc.Limit = int64(S/2 + 1 + rng.Intn(S/2+2*job.Cfg.MP+2))
			}
			if readCap > 0 {
				hsCap := fmt.Sprintf("above-cap|srv=%s|mp%d|cap%d|cr%d", job.Spec, job.Cfg.MP, readCap, xfB(job.Cfg.CR))
				if tag != "" {
					tag += ";"
				}
				tag += hsCap
				sc.Tag = tag
			}
			if job.Spec.Perm && s >= 0 {
				sc.Seed = rng.Int63() >> 11
				sc.Window = 2 + rng.Intn(job.Cfg.Conc+1)
			}
			sr := run(sc)
			movers := map[string]bool{}
			for _, o := range ops {
				switch o.K {
				case "r", "w", "rf", "rfc", "wt", "sk":
					movers[o.K] = true
				}
				if o.K == "cl" {
					break
				}
			}
			res.Case(sc.Text(), len(movers) >= 2)
			hs := []string{"seq|srv=" + job.Spec.String(), fmt.Sprintf("seq|opt=mp%d|c%d", job.Cfg.MP, job.Cfg.Conc),
				fmt.Sprintf("seq|opt=cr%d|cw%d|fstat%d", xfB(job.Cfg.CR), xfB(job.Cfg.CW), xfB(job.Cfg.Fstat))}
			if s < 0 && s >= -nameSeqs {
				hs = append(hs, "seq|written-out-around-a-disturbed-name")
			}
			if tag != "" {
				hs = append(hs, strings.Split(tag, ";")...)
			}
			hs = append(hs, "seq|open="+sc.Mode().Name, "seq|open="+sc.Mode().Name+"|srv="+job.Spec.Kind)
			if !sr.Modelled && len(sr.Fails) == 0 && sr.SetupErr == nil {
				hs = append(hs, "model=not-compared|sequence has calls the model cannot express")
			}
			for k, n := range sr.Marks {
				for ; n > 0; n-- {
					hs = append(hs, k)
				}
			}
			closedAt := -1
			for i, o := range ops {
				k := "call=" + o.K
				if o.K == "nm" {
					continue // counted by the run (only those that were carried out)
				}
				if closedAt >= 0 {
					k = "after-close=" + o.K
				} else if o.K == "sk" {
					k += fmt.Sprintf("|whence=%d", o.Wh)
					if o.Off < 0 {
						k += "|negative-offset"
					}
				} else if o.K == "rf" {
					k += "|" + o.Src
				}
				hs = append(hs, k)
				if o.K == "cl" && closedAt < 0 {
					closedAt = i
				}
			}
			for k, n := range sr.Failing {
				for ; n > 0; n-- {
					hs = append(hs, "call="+k+"|injected-failure|srv="+job.Spec.Kind)
				}
			}
			res.Hist(hs...)
			if atomic.AddInt32(&sampleN, 1) <= 3 {
				res.Sample(sc)
			}
			if sr.SetupErr != nil {
				res.Fail(lib.Failure{Kind: "tie", Key: "setup", What: sr.SetupErr.Error(), Input: sc})
				if real != nil {
					real.Shutdown()
					real = nil
					if !start() {
						return
					}
				}
				continue
			}
			if len(sr.Fails) > 0 {
				// minimise the first failure that is not the known F12 (that one has its minimal input from the sweep)
				reported := false
				for _, f := range sr.Fails {
					if f.Key == xfKeyF12 {
						continue
					}
					if strings.HasSuffix(f.Key, "/hang") {
						// (every re-run of a hanging sequence costs 20 s: cut it after the hanging call, do not shrink further)
						small := sc
						if f.At+1 < len(small.Ops) {
							small.Ops = append([]xfOp(nil), small.Ops[:f.At+1]...)
						}
						report(small, []xfSeqFailure{f})
						reported = true
						break
					}
					small := xfShrinkSeq(sc, f.Key, run)
					sm := run(small)
					report(small, sm.Fails)
					reported = true
					break
				}
				if !reported {
					report(sc, sr.Fails[:1])
					res.Hist("known=F12-in-sequence")
				}
				hang := false
				for _, f := range sr.Fails {
					hang = hang || strings.HasSuffix(f.Key, "/hang")
				}
				if hang {
					hangs.Add(job.Spec)
				}
				if hang && real != nil {
					real.Shutdown()
					real = nil
					if !start() {
						return
					}
				}
				continue
			}
			addModel(sc, sr)
		}
	})

	// (c) races
	trials := 800
	if thorough {
		trials = 4000
	}
	type raceJob struct{ sc xfSeqCase }
	var rj []raceJob
	for t := 0; t < trials; t++ {
		cfg := xfCfg{MP: []int{1, 2, 3, 4, 7, 32768}[t%6], Conc: []int{1, 2, 3, 64}[(t/6)%4], CR: t%2 == 0, CW: t%3 == 0, Fstat: t%5 == 0}
		sc := xfSeqCase{Srv: xfSrvSpec{Kind: "peer", Perm: t%4 == 3}, Cfg: cfg, FileLen: 1 + c.Rand.Intn(40), Window: 1, Seed: c.Rand.Int63() >> 11,
			Race: &xfRace{Hammers: 3 + c.Rand.Intn(6), Closers: 2, Delay: c.Rand.Intn(200), Seed: c.Rand.Int63() >> 11}}
		if cfg.MP > 1000 {
			sc.FileLen = 1 + c.Rand.Intn(100000)
		}
		if sc.Srv.Perm {
			sc.Window = 2 + c.Rand.Intn(4)
		}
		rj = append(rj, raceJob{sc})
	}
	var before, closedCalls int64
	xfParallel(len(rj), runtime.GOMAXPROCS(0)/2, func(w, i int) {
		sc := rj[i].sc
		xfInflight(w, sc)
		fs, st := xfRunRace(sc)
		res.Case(sc.Text()+fmt.Sprint(*sc.Race), true)
		res.Hist("race|hammers="+fmt.Sprint(sc.Race.Hammers), fmt.Sprintf("race|window=%d", sc.Window))
		for k, n := range st {
			if strings.HasPrefix(k, "before-close/") {
				atomic.AddInt64(&before, int64(n))
			} else {
				atomic.AddInt64(&closedCalls, int64(n))
			}
		}
		report(sc, fs)
	})
	r.Note("race trials: %d calls completed before the Close, %d calls answered os.ErrClosed", before, closedCalls)

	// (c') two calls leaving a spin barrier together on a fresh File, many times (c12_pairs.go)
	{
		var pj []xfSeqCase
		reps := 1
		if thorough {
			reps = 4
		}
		for rep := 0; rep < reps; rep++ {
			for pi, pr := range xfPairList {
				ncfg := 2
				if pr[1] == "Close" {
					ncfg = 6 // Close || Close: the window is a few instructions wide
				}
				for ci := 0; ci < ncfg; ci++ {
					t := pi*7 + ci*3 + rot + rep*11
					mp := []int{2, 7, 4, 32768, 3, 1}[t%6]
					cfg := xfCfg{MP: mp, Conc: []int{1, 2, 3, 64}[(t/2)%4], CR: t%2 == 0, CW: (t/3)%2 == 0, Fstat: t%5 < 2}
					att := 150
					if pr[1] == "Close" {
						att = 2000 // (an attempt takes some 50 us)
					}
					S := 3*mp + 2
					pp := &xfPairRace{A: pr[0], B: pr[1], Attempts: att, N: []int{mp + 1, 1, 2*mp + 1, mp}[(t/4)%4], Off: int64(1 + t%(mp+1))}
					if mp > 1000 {
						pp.Attempts, pp.N, S = att/4, []int{mp + 1, 1}[t%2], mp+mp/2
					}
					pj = append(pj, xfSeqCase{Srv: xfSrvSpec{Kind: "peer"}, Cfg: cfg, FileLen: S, Window: 1, Pair: pp})
				}
			}
		}
		var attempts int64
		xfParallel(len(pj), max(2, runtime.GOMAXPROCS(0)/4), func(w, i int) { // (three spinning goroutines per job: keep them on cores of their own)
			sc := pj[i]
			if lib.Stop(xfProp + "/pair-race") {
				return
			}
			xfInflight(w, sc)
			hold := &xfPeerHold{slot: w}
			fs, st := xfRunPairs(sc, hold)
			hold.Close()
			res.Case(sc.Text(), true)
			res.Hist("pair-race|" + sc.Pair.A + "||" + sc.Pair.B)
			for k, n := range st {
				for ; n > 0; n-- {
					res.Hist(k)
				}
			}
			atomic.AddInt64(&attempts, int64(sc.Pair.Attempts))
			report(sc, fs)
		})
		r.Note("pair races: %d attempts of two calls leaving a spin barrier together on a fresh File (histogram pair=...: which order each attempt showed)", attempts)
	}
	// (e) transfers whose source or sink stalls; Close; the source/sink goes on (c12_stall.go)
	{
		cfgs := xfCoverCfgs(rot + 5)
		per := 16
		if thorough {
			cfgs, per = xfAllCfgs(), 60
		}
		var sj [][]xfSeqCase
		for ji, cfg := range cfgs {
			rng := rand.New(rand.NewSource(c.Rand.Int63()))
			var cases []xfSeqCase
			for i := 0; i < per; i++ {
				cases = append(cases, xfGenStall(rng, cfg, ji*per+i+rot))
			}
			sj = append(sj, cases)
		}
		var early, stalled, notRun int64
		xfParallel(len(sj), runtime.GOMAXPROCS(0), func(w, ji int) {
			err := xfStallExec(sj[ji], true, root, fmt.Sprint(ji), func(sc xfSeqCase, fs []xfSeqFailure, marks []string, ran bool) {
				if !ran && len(fs) == 0 {
					atomic.AddInt64(&notRun, 1)
					return
				}
				if ran {
					res.Case(sc.Text(), xfStallNontrivial(sc))
					res.Hist(marks...)
					for _, m := range marks {
						if strings.HasPrefix(m, "stall|returned-while") {
							atomic.AddInt64(&early, 1)
						}
						if strings.HasPrefix(m, "stall|outcome=source/sink blocked") {
							atomic.AddInt64(&stalled, 1)
						}
					}
					if atomic.AddInt32(&sampleN, 1) <= 5 {
						res.Sample(sc)
					}
				}
				report(sc, fs)
			})
			if err != nil {
				res.Note("stalled transfers, option set %s: %v", cfgs[ji], err)
			}
		})
		r.Note("stalled transfers: %d cases reached the stall with the call under way; in %d of them the call (or a Close beside it) returned while the source/sink was still blocked; %d cases not run (budgets)", stalled, early, notRun)
	}
	// (f) a File method fails; then every other method; finally Close (c12_afterfail.go)
	xfCheckAfterFail(c, res, report, rot)
	mc.compare(c, "c12")
}
