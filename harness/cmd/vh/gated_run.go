package main

// Runner for schedule-controlled server cases: starts a real server, opens the
// handles of the program through the protocol, pipelines the requests and, in
// gated mode, lets the instrumented calls return in the order the case prescribes.

import (
	"bytes"
	"fmt"
	"math/rand"
	"os"
	"path/filepath"
	"sort"
	"strconv"
	"strings"
	"sync"
	"syscall"
	"time"

	"github.com/pkg/sftp"

	"verifharness/lib"
	"verifharness/peers"
	"verifharness/wire"
)

const gDeadline = 20 * time.Second

type gCase struct {
	Prog  gProg  `json:"prog"`
	Mode  string `json:"mode"`            // gated | free | sleep | serial
	Order []int  `json:"order,omitempty"` // gated: request numbers (from 0) in the order their held calls return
	// Hold (gated mode), when not nil: only the calls of these requests are held; the calls of all other requests
	// return on their own as soon as they are made.
	Hold []int `json:"hold,omitempty"`
	// Watch (gated mode): while waiting for calls to reach their gates, give up at once when a Close is entered that
	// the pipeline cannot have reached yet (implied by Grace > 0).
	Watch bool  `json:"watch_close,omitempty"`
	Grace int   `json:"grace_ms,omitempty"`
	Seed  int64 `json:"seed,omitempty"`
	// HoldMs (gated mode): DURATION. With no gate opened yet — every call the pipeline can start sits on its gate, a
	// CLOSE behind them waits for them — the calls are kept there for this long before the first gate is opened
	// (longer than any plausible timeout constant in the code under test), and no Close may be entered meanwhile.
	// A deliberate hold, not a hang deadline: it is not charged to the hang budget; it ends early when the soft
	// deadline of the run passes.
	HoldMs int `json:"hold_ms,omitempty"`
	// Staged (gated mode): the requests are sent one by one, each only after every call that the requests before it
	// make has reached its gate — a request that follows an OPEN then arrives while the handler of that OPEN is
	// running. (From the first request on that the server cannot take in before a gate is opened, the rest of the
	// stream is sent in one piece, as in every other case.)
	Staged bool `json:"staged,omitempty"`
	// EndInput (> 0): END OF STREAM as an event of the schedule. The client ends its request stream (half-close: the
	// replies keep flowing) without waiting for the replies of the requests it has sent — a batch client that has
	// nothing more to say. Gated mode: the input is closed as soon as the server has taken in the whole request stream
	// and EndInput-1 gates have been opened (1 = at the earliest moment: with the calls the pipeline could start still
	// sitting on their gates and the CLOSEs behind them waiting); nothing may be closed (and no context cancelled)
	// during the grace period that follows (HoldMs, when given, is spent there instead of before the first gate),
	// the held calls then return in the order of the case, every reply is owed as in any other case, and Serve returns.
	// Unforced modes: the input is closed right after the last byte of the stream was taken in.
	EndInput int    `json:"end_input,omitempty"`
	Root     string `json:"-"` // os-backed server: scratch root to (re)build; "" = private temp dir
	Tag      string `json:"tag,omitempty"`
}

// gFault is a problem found while driving the case (as opposed to one found by inspecting the responses).
type gFault struct {
	Key, What string
	Step      int
}

type gRun struct {
	Case      *gCase
	Routes    []gRoute
	Frames    []wire.Pkt // replies to the pipelined requests, in the order they left the server
	Extra     []wire.Pkt // anything the server wrote after the last expected reply (before the clean-up phase)
	Raw       []byte
	Calls     []gCall
	Setup     int // calls made during set-up (not part of the pipeline)
	Problems  []string
	Fault     *gFault
	Trace     string
	ModelSent string
	Handled   []int // predicted order of handler returns (request numbers)
	AllocOn   bool
	UsedQ     int // allocator pages marked used once every reply was read
	AvailQ    int
	UsedEnd   int
	AvailEnd  int
	ServeErr  string
	Final     map[string][]byte // handle name → final content (put / rw handles)
	GraceViol string
	HoldCut   string   // the long hold of the case (gCase.HoldMs) was cut short, and why
	Opened    []string // handles handed out by OPEN/OPENDIR requests inside the pipeline
	// PageViol: with every request received and some not yet answered, fewer pages were marked in use than requests
	// were waiting for their reply (each of them owns the page its frame was received into until its reply is sent).
	PageViol string
	// EndInfo (cases with EndInput): what the pipeline looked like when the input was closed.
	EndInfo string
	PipeEnd int64    // sequence number of the call log when the last reply of the pipeline had been read (clean-up starts here)
	Effects []string // os-backed server: state of every object the requests name, after Serve has returned
	Started time.Time
}

// gCollector takes reply frames off the transport as they arrive.
type gCollector struct {
	srv    *peers.Srv
	mu     sync.Mutex
	frames []wire.Pkt
	err    error
	note   chan struct{}
	stop   chan struct{}
	done   chan struct{}
	halted bool
}

func newCollector(srv *peers.Srv) *gCollector {
	c := &gCollector{srv: srv, note: make(chan struct{}, 1), stop: make(chan struct{}), done: make(chan struct{})}
	go func() {
		defer close(c.done)
		for {
			select {
			case <-c.stop:
				return
			default:
			}
			f, err := srv.Recv(2 * time.Millisecond)
			if err == peers.ErrTimeout {
				continue
			}
			c.mu.Lock()
			if err != nil {
				c.err = err
			} else {
				c.frames = append(c.frames, f)
			}
			c.mu.Unlock()
			select {
			case c.note <- struct{}{}:
			default:
			}
			if err != nil {
				return
			}
		}
	}()
	return c
}

// upTo waits until want frames have arrived; it gives up when no frame arrives for the length of deadline.
// It returns the frames that have arrived so far (all of them: a frame too many shows as such).
func (c *gCollector) upTo(want int, deadline time.Duration) ([]wire.Pkt, error) {
	last, t0 := -1, time.Now()
	for {
		c.mu.Lock()
		fs, err := c.frames, c.err
		c.mu.Unlock()
		if len(fs) >= want {
			return fs[:max(want, 0)], nil
		}
		if err != nil {
			return fs, err
		}
		if len(fs) != last {
			last, t0 = len(fs), time.Now()
		}
		left := deadline - time.Since(t0)
		if left <= 0 {
			return fs, peers.ErrTimeout
		}
		select {
		case <-c.note:
		case <-time.After(min(left, 50*time.Millisecond)):
		}
	}
}

// halt stops the collector (idempotent); from then on the frames stay on the transport.
func (c *gCollector) halt() {
	c.mu.Lock()
	was := c.halted
	c.halted = true
	c.mu.Unlock()
	if !was {
		close(c.stop)
	}
	<-c.done
}

// rest returns the frames collected beyond the first n (none in a correct run).
func (c *gCollector) rest(n int) []wire.Pkt {
	c.mu.Lock()
	defer c.mu.Unlock()
	if len(c.frames) <= n {
		return nil
	}
	return append([]wire.Pkt(nil), c.frames[n:]...)
}

func (c *gCase) abs(root string) func(string) string {
	if c.Prog.Server == "rs" {
		if c.Prog.WorkDir {
			return func(p string) string { return gRSStartDir + "/" + p }
		}
		return func(p string) string { return "/" + p }
	}
	return func(p string) string { return filepath.Join(root, p) }
}

// gRSStartDir is the start directory of request servers run with WorkDir.
const gRSStartDir = "/wd"

// openName is the name by which the set-up opens an object: the absolute one, or, on a server with a working /
// start directory, the one relative to it.
func (c *gCase) openName(root string) func(string) string {
	if c.Prog.WorkDir {
		return func(p string) string { return p }
	}
	return c.abs(root)
}

// sent gives the form in which the path names of request o go over the wire: relative to the working / start
// directory on a server that has one (unless the request asks for the absolute form), absolute otherwise.
func (c *gCase) sent(root string, o gOp) func(string) string {
	if c.Prog.WorkDir && !o.Abs {
		return func(p string) string { return p }
	}
	return c.abs(root)
}

// gModifyingOps are the instrumented methods of an opened file that change it.
var gModifyingOps = map[string]bool{"WriteAt": true, "Chmod": true, "Chown": true, "Truncate": true}

func gAllocCounts(srv *peers.Srv) (int, int, bool) {
	if srv.OS != nil {
		return sftp.VerifServerAlloc(srv.OS)
	}
	return sftp.VerifRequestServerAlloc(srv.RS)
}

func gExec(cs *gCase) *gRun {
	run := &gRun{Case: cs, Final: map[string][]byte{}, Started: time.Now()}
	p := cs.Prog
	hub := newHub(false)
	hub.free = gFreeCall
	k := lib.NewCase(gClass(gChildProp, p.Server)) // hang account of this case (lib/budget.go)
	hub.kase = k
	root := cs.Root
	if p.Server == "os" {
		if root == "" {
			d, err := lib.MkScratch("vh-gated-")
			if err != nil {
				run.Fault = &gFault{Key: "harness/tmpdir", What: err.Error()}
				return run
			}
			root = d
			defer os.RemoveAll(d)
		}
		if err := gBuildTree(root, p); err != nil {
			run.Fault = &gFault{Key: "harness/tree", What: err.Error()}
			return run
		}
	}
	abs := cs.abs(root)

	var srv *peers.Srv
	var rsh *gRS
	if p.Server == "os" {
		var opts []sftp.ServerOption
		if p.Alloc {
			opts = append(opts, sftp.WithAllocator())
		}
		if p.MaxTx != 0 {
			opts = append(opts, sftp.WithMaxTxPacket(p.MaxTx))
		}
		if p.ReadOnly {
			opts = append(opts, sftp.ReadOnly())
		}
		if p.WorkDir {
			opts = append(opts, sftp.WithServerWorkingDirectory(root))
		}
		var err error
		srv, err = peers.StartOS(opts...)
		if err != nil {
			run.Fault = &gFault{Key: "harness/server-start", What: err.Error()}
			return run
		}
	} else {
		rsh = &gRS{hub: hub, obj: map[string]*gRSFile{}}
		var opts []sftp.RequestServerOption
		if p.Alloc {
			opts = append(opts, sftp.WithRSAllocator())
		}
		if p.MaxTx != 0 {
			opts = append(opts, sftp.WithRSMaxTxPacket(p.MaxTx))
		}
		if p.WorkDir {
			opts = append(opts, sftp.WithStartDirectory(gRSStartDir))
		}
		hs := rsh.handlers(p.Ifaces)
		if got := gIfacesOf(hs); got != p.Ifaces {
			run.Fault = &gFault{Key: "harness/handler-set", What: fmt.Sprintf("handler set built for %+v implements %+v", p.Ifaces, got)}
			return run
		}
		srv = peers.StartRS(hs, opts...)
	}
	finished := false
	defer func() {
		if !finished {
			hub.releaseAll()
			srv.CloseInput()
			hWaitSrv(srv, k, gDeadline)
		}
	}()
	fault := func(key, what string, step int) *gRun {
		run.Fault = &gFault{Key: key, What: what, Step: step}
		run.Calls, run.Problems = hub.snapshot()
		run.Raw = srv.RawOut()
		return run
	}
	if v, err := hHandshake(srv, k); err != nil || v.Typ != wire.Version {
		return fault("harness/handshake", fmt.Sprint(err, v.Typ), -1)
	}

	// ---- set-up: open the handles one by one, each after the previous reply ----
	handles := map[string]string{}
	sid := uint32(0xF0000000)
	openName := cs.openName(root)
	for _, h := range p.Handles {
		sid++
		var f []byte
		switch h.Kind {
		case "get":
			f = wire.Req(wire.Open, sid, wire.B{}.Str(openName(h.Path)).U32(wire.FRead).U32(0))
		case "put":
			f = wire.Req(wire.Open, sid, wire.B{}.Str(openName(h.Path)).U32(wire.FWrite|wire.FCreat|wire.FTrunc).U32(0))
		case "rw":
			f = wire.Req(wire.Open, sid, wire.B{}.Str(openName(h.Path)).U32(wire.FRead|wire.FWrite).U32(0))
		case "dir":
			f = wire.Req(wire.Opendir, sid, wire.B{}.Str(openName(h.Path)))
		}
		r, err := hCall(srv, k, f)
		if err != nil || r.Typ != wire.Handle || r.ID() != sid {
			return fault("harness/setup-open", fmt.Sprintf("opening %s (%s): type %d err %v", h.Name, h.Kind, r.Typ, err), -1)
		}
		d := wire.D{B: r.Body[4:]}
		hs := d.Str()
		handles[h.Name] = hs
		if h.Closed {
			sid++
			if r, err := hCall(srv, k, wire.Req(wire.Close, sid, wire.B{}.Str(hs))); err != nil || r.Typ != wire.Status {
				return fault("harness/setup-close", fmt.Sprint(err), -1)
			}
		} else if p.Server == "os" {
			obj := abs(h.Path)
			if !sftp.VerifSwapFile(srv.OS, hs, func(f sftp.VerifFile) sftp.VerifFile { return &gOSFile{f: f, hub: hub, obj: obj} }) {
				return fault("harness/swap", "handle "+hs+" not in the server's table", -1)
			}
		}
	}
	hub.mu.Lock()
	run.Setup = len(hub.calls)
	setupCloses := len(hub.closes)
	hub.counters = map[string]int{}
	hub.hold = cs.Mode == "gated"
	if p.Server == "os" && p.ReadOnly {
		hub.never = gModifyingOps
	}
	if cs.Mode == "sleep" {
		rng := rand.New(rand.NewSource(cs.Seed))
		hub.sleep = func(key string, n int) time.Duration { return time.Duration(rng.Intn(1500)) * time.Microsecond }
	}
	hub.mu.Unlock()

	// ---- the pipeline ----
	run.Routes = gRoutes(p, abs)
	hub.mu.Lock()
	for _, rt := range run.Routes {
		if rt.Forbidden != "" {
			hub.pass = append(hub.pass, rt.Forbidden)
		}
	}
	var held map[int]bool
	if cs.Mode == "gated" && cs.Hold != nil {
		held = map[int]bool{}
		hub.only = map[string]bool{}
		for _, i := range cs.Hold {
			if i >= 0 && i < len(run.Routes) && run.Routes[i].Sim.Gate != "" {
				held[i] = true
				hub.only[run.Routes[i].Sim.Gate] = true
			}
		}
	}
	hub.mu.Unlock()
	reqs := make([]simReq, len(p.Ops))
	var stream []byte
	var frames [][]byte
	for i, o := range p.Ops {
		reqs[i] = run.Routes[i].Sim
		if held != nil && !held[i] {
			reqs[i].Gate = "" // for the simulator: returns without being held
		}
		h := ""
		if o.H != "" {
			if hs, ok := handles[o.H]; ok {
				h = hs
			} else {
				h = "no-such-handle-" + o.H
			}
		} else if o.Nx > 0 { // a handle number the server has not handed out yet (every handle of the set-up took one)
			h = strconv.Itoa(len(p.Handles) + o.Nx)
		}
		fr := o.frame(cs.sent(root, o), h)
		frames = append(frames, fr)
		stream = append(stream, fr...)
	}
	n := len(p.Ops)
	// Long pipelines: the transport buffers 4096 unread replies and then stops reading, the server stops writing
	// and with it the whole pipeline stops. While the harness waits for calls to reach their gates a collector
	// therefore keeps taking the replies off the transport.
	var col *gCollector
	if n > 3000 {
		col = newCollector(srv)
		defer col.halt()
	}
	recvUpTo := func(want int, deadline time.Duration) error {
		if col != nil {
			fs, err := col.upTo(want, deadline)
			run.Frames = fs
			if err != nil {
				gDeadlineHits.Add(1)
				k.Spend(deadline)
				return fmt.Errorf("reply %d of %d did not arrive: %v", len(run.Frames)+1, n, err)
			}
			return nil
		}
		for len(run.Frames) < want {
			f, err := srv.Recv(deadline)
			if err != nil {
				gDeadlineHits.Add(1)
				k.Spend(deadline)
				return fmt.Errorf("reply %d of %d did not arrive: %v", len(run.Frames)+1, n, err)
			}
			run.Frames = append(run.Frames, f)
		}
		return nil
	}
	sendErr := make(chan error, 1)
	sentDone, sentErr := false, error(nil)
	// awaitSent waits until the server has taken in the whole request stream (the transport is unbuffered: Send
	// returns when the last byte has been read).
	awaitSent := func(d time.Duration) bool {
		if sentDone {
			return true
		}
		err, ok := lib.WaitCase(k, d, sendErr)
		if ok {
			sentDone, sentErr = true, err
		}
		return ok
	}
	staged := 0 // requests sent one by one before the rest of the stream
	if cs.Mode == "gated" && cs.Staged {
		all := make([]simReq, len(p.Ops))
		for i := range all {
			all[i] = run.Routes[i].Sim
			if held != nil && !held[i] {
				all[i].Gate = ""
			}
		}
		for i := range frames {
			pre := newSim(all[:i+1])
			if pre.nextRecv != i+1 || pre.recvHold >= 0 { // request i is not taken in before a gate is opened
				break
			}
			if i > 0 {
				var ks []string
				for _, j := range newSim(all[:i]).started() {
					ks = append(ks, all[j].Gate)
				}
				if err := hub.waitBlocked(ks, gWait(k)); err != nil {
					return fault("schedule/blocked-set-differs/"+p.Server, fmt.Sprintf("before sending request %d (requests sent one by one): %v", i, err), i)
				}
			}
			if err := hSend(srv, k, frames[i]); err != nil {
				return fault("input/send-failed/"+p.Server, err.Error(), i)
			}
			staged = i + 1
		}
	}
	switch cs.Mode {
	case "serial":
		for i := range frames {
			if err := hSend(srv, k, frames[i]); err != nil {
				return fault("input/send-failed/"+p.Server, err.Error(), i)
			}
			if err := recvUpTo(i+1, gWait(k)); err != nil {
				return fault("count/missing-response/"+p.Server, err.Error(), i)
			}
		}
		sendErr <- nil
	default:
		var rest []byte
		for _, fr := range frames[staged:] {
			rest = append(rest, fr...)
		}
		if len(rest) == 0 {
			sendErr <- nil
		} else {
			go func() { sendErr <- srv.Send(rest) }()
		}
	}

	sim := newSim(reqs)
	ended := false // the input has been closed (gCase.EndInput)
	if cs.Mode == "gated" {
		keysOf := func(ix []int) []string {
			var ks []string
			for _, i := range ix {
				ks = append(ks, reqs[i].Gate)
			}
			return ks
		}
		gracedCloses := 0
		// earlyClose (hub locked): a Close call that the pipeline cannot have reached with the gates opened so far
		// (the simulator takes every step that is enabled, so every Close the server may have made is in its list).
		type earlyCloseErr struct{ error }
		var dueCloses map[string]bool
		earlyClose := func() error {
			for _, c := range hub.closes[setupCloses:] {
				if !dueCloses[c.Key] && !c.Free {
					return earlyCloseErr{fmt.Errorf("%s was entered", c.Key)}
				}
			}
			return nil
		}
		if cs.Grace <= 0 && !cs.Watch && cs.HoldMs <= 0 && cs.EndInput <= 0 { // only cases that ask for it (C14)
			earlyClose = nil
		}
		for step := 0; ; step++ {
			st := sim.started()
			// calls that are never held (Close) and that the pipeline has let run by now must have returned before
			// the next gate is opened, so that the log shows one definite completion order
			var closes []string
			for _, i := range sim.handled {
				if k := run.Routes[i].CloseKey; k != "" {
					closes = append(closes, k)
				}
			}
			hub.mu.Lock()
			dueCloses = map[string]bool{}
			for _, k := range closes {
				dueCloses[k] = true
			}
			hub.mu.Unlock()
			earlyFault := func(err error, when string) *gRun {
				run.GraceViol = fmt.Sprintf("%v %s; calls held at that moment: [%s], calls due to be held: [%s]", err, when, strings.Join(func() []string {
					hub.mu.Lock()
					defer hub.mu.Unlock()
					return hub.blockedLocked()
				}(), " "), strings.Join(keysOf(st), " "))
				return fault("close/entered-during-hold/"+p.Server, "Close of the object was entered while reads/writes of earlier requests were held or had not yet been started: "+run.GraceViol, step)
			}
			if err := hub.waitBlockedUnless(keysOf(st), gWait(k), earlyClose); err != nil {
				if _, early := err.(earlyCloseErr); early {
					return earlyFault(err, fmt.Sprintf("with %d gates opened, while the calls of the requests before its CLOSE were being started", step))
				}
				return fault("schedule/blocked-set-differs/"+p.Server, fmt.Sprintf("before opening gate number %d: %v", step, err), step)
			}
			if err := hub.wait(gWait(k), func() (bool, error) {
				for _, k := range closes {
					cs := hub.byKey[k]
					if len(cs) == 0 || cs[len(cs)-1].Fin == 0 {
						return false, nil
					}
				}
				return true, nil
			}); err != nil {
				return fault("schedule/close-did-not-run/"+p.Server, fmt.Sprintf("with %d gates opened Close calls [%s] are due: %v", step, strings.Join(closes, " "), err), step)
			}
			longHold := cs.HoldMs > 0 && cs.EndInput <= 0 // (with EndInput the long hold follows the end of the input)
			if len(st) > 0 && ((cs.Grace > 0 && (step == 0 || len(closes) > gracedCloses)) || (longHold && step == 0)) {
				// nothing else may start while the calls of st sit on their gates: give a missing barrier time to show.
				// Done with no gate opened yet and again whenever a CLOSE has completed since (the pipeline has moved
				// on to the requests behind it, the next CLOSE now stands behind the calls held at this moment).
				// With no gate opened yet the hold lasts HoldMs where the case asks for that (a barrier that gives up
				// after some time shows only when the calls in front of it take longer than that).
				gracedCloses = len(closes)
				hold := cs.Grace
				if step == 0 && longHold && cs.HoldMs > hold {
					hold = cs.HoldMs
				}
				held, cut, err := hub.holdFor(time.Duration(hold)*time.Millisecond, earlyClose)
				if _, early := err.(earlyCloseErr); early {
					return earlyFault(err, fmt.Sprintf("with %d gates opened, %d ms into a hold of %d ms that began when the calls of the requests before its CLOSE had all been started", step, held.Milliseconds(), hold))
				}
				if cut {
					run.HoldCut = fmt.Sprintf("the hold of %d ms was ended after %d ms: soft deadline of the run", hold, held.Milliseconds())
				}
				if err := hub.waitBlockedUnless(keysOf(st), time.Millisecond, earlyClose); err != nil {
					if _, early := err.(earlyCloseErr); early {
						return earlyFault(err, fmt.Sprintf("with %d gates opened, within %d ms after the calls of the requests before its CLOSE had all been started", step, hold))
					}
					return fault("schedule/blocked-set-differs/"+p.Server, "after the grace period: "+err.Error(), step)
				}
			}
			if err := recvUpTo(len(sim.sent), gWait(k)); err != nil {
				return fault("count/missing-response/"+p.Server, fmt.Sprintf("with %d gates opened the first %d replies are due: %v", step, len(sim.sent), err), step)
			}
			if sim.nextRecv == n && sim.recvHold < 0 {
				// The pipeline has room for every request that is left: before the next gate is opened the server has
				// taken all of them in (a request that waits for a busy worker waits with every later frame received).
				if !awaitSent(gWait(k)) {
					return fault("input/send-blocked/"+p.Server, fmt.Sprintf("with %d gates opened the pipeline has room for the whole request stream, but the server did not take it in", step), step)
				}
				if sentErr != nil {
					return fault("input/send-failed/"+p.Server, sentErr.Error(), step)
				}
				if p.Alloc && run.PageViol == "" {
					// every request that has not been answered owns the page its frame was received into, and the
					// receive loop has taken one more for the frame to come
					want := n - len(sim.sent) + 1
					if ended { // (after the end of the input the receive loop is gone; its last page stays marked only until Serve returns)
						want--
					}
					used := 0
					// (the receive loop takes that page as soon as it is scheduled again: a few microseconds, but on a
					// loaded machine possibly much longer — the first findings of a process are given 3 s to go away)
					limit := 3 * time.Second
					if gPageHits.Load() >= 4 {
						limit = 150 * time.Millisecond
					}
					for t0 := time.Now(); ; {
						used, _, _ = gAllocCounts(srv)
						if used >= want || time.Since(t0) > limit {
							break
						}
						time.Sleep(100 * time.Microsecond)
					}
					if used < want {
						gPageHits.Add(1)
						run.PageViol = fmt.Sprintf("with %d gates opened: %d of %d requests received and not yet answered, %d pages marked in use (each unanswered request holds the page of its frame, the receive loop — while the input is open — one more)", step, n-len(sim.sent), n, used)
					}
				}
			}
			if cs.EndInput > 0 && !ended && step >= cs.EndInput-1 && sim.nextRecv == n && sim.recvHold < 0 {
				// END OF STREAM: every request has been received (awaitSent above), the calls of st sit on their gates
				ended = true
				waiting := 0 // CLOSE requests received and not yet answered
				for i, o := range p.Ops {
					if o.K == "close" && run.Routes[i].CloseKey != "" {
						waiting++
					}
				}
				for _, i := range sim.handled {
					if run.Routes[i].CloseKey != "" {
						waiting--
					}
				}
				run.EndInfo = fmt.Sprintf("gates-opened=%d calls-held=%d closes-pending=%d", step, len(st), waiting)
				srv.CloseInput()
				hold := max(cs.Grace, 25)
				if cs.HoldMs > hold {
					hold = cs.HoldMs
				}
				held, cut, err := hub.holdFor(time.Duration(hold)*time.Millisecond, earlyClose)
				if _, early := err.(earlyCloseErr); early {
					return earlyFault(err, fmt.Sprintf("%d ms after the END OF THE REQUEST STREAM (input closed with %d gates opened, every request received, replies still owed)", held.Milliseconds(), step))
				}
				if cut {
					run.HoldCut = fmt.Sprintf("the hold of %d ms was ended after %d ms: soft deadline of the run", hold, held.Milliseconds())
				}
				if err := hub.waitBlockedUnless(keysOf(st), time.Millisecond, earlyClose); err != nil {
					if _, early := err.(earlyCloseErr); early {
						return earlyFault(err, fmt.Sprintf("within %d ms after the END OF THE REQUEST STREAM (input closed with %d gates opened)", hold, step))
					}
					return fault("schedule/blocked-set-differs/"+p.Server, "after the end of the request stream: "+err.Error(), step)
				}
			}
			if step >= len(cs.Order) {
				if len(st) != 0 {
					return fault("harness/order-too-short", fmt.Sprintf("order ends with calls %v still held", st), step)
				}
				break
			}
			i := cs.Order[step]
			if i < 0 || i >= n || !sim.isStarted(i) {
				return fault("harness/order-infeasible", fmt.Sprintf("request %d cannot return at step %d (running: %v)", i, step, st), step)
			}
			if err := hub.release(reqs[i].Gate, gWait(k)); err != nil {
				return fault("schedule/held-call-did-not-return/"+p.Server, err.Error(), step)
			}
			sim.finish(i)
		}
	} else {
		// no forced schedule: every handler returns on its own
		if cs.EndInput > 0 && cs.Mode != "serial" {
			if !awaitSent(gWait(k)) {
				return fault("input/send-blocked/"+p.Server, "the server did not take in the request stream", -1)
			}
			if sentErr != nil {
				return fault("input/send-failed/"+p.Server, sentErr.Error(), -1)
			}
			ended = true
			run.EndInfo = "unforced"
			srv.CloseInput()
		}
		for i := range reqs {
			sim.finish(i)
		}
	}
	if err := recvUpTo(n, gWait(k)); err != nil {
		return fault("count/missing-response/"+p.Server, err.Error(), len(cs.Order))
	}
	if col != nil {
		col.halt()
		run.Extra = append(run.Extra, col.rest(n)...)
	}
	if !awaitSent(gDeadline) {
		return fault("input/send-blocked/"+p.Server, "the server did not consume the request stream", -1)
	}
	if sentErr != nil {
		return fault("input/send-failed/"+p.Server, sentErr.Error(), -1)
	}
	run.Trace = sim.traceText()
	run.ModelSent = simSentText(reqs, sim.sent)
	run.Handled = sim.handled

	// ---- quiescence: every reply read, input still open ----
	var on bool
	for t0 := time.Now(); ; {
		run.UsedQ, run.AvailQ, on = gAllocCounts(srv)
		if run.UsedQ <= 1 {
			break
		}
		if limit := 2 * time.Second; time.Since(t0) > limit || (gQuiesceHits.Load() >= 4 && time.Since(t0) > limit/20) {
			gQuiesceHits.Add(1)
			break
		}
		time.Sleep(200 * time.Microsecond)
	}
	run.AllocOn = on
	// a second reply to any request would be on its way by now; collect what is there without waiting long
	if f, err := srv.Recv(500 * time.Microsecond); err == nil {
		run.Extra = append(run.Extra, f)
	}

	// ---- clean-up: close what is still open, one request at a time; then end the stream ----
	hub.mu.Lock()
	run.PipeEnd = hub.seq
	hub.mu.Unlock()
	hub.releaseAll()
	for i, f := range run.Frames {
		if k := p.Ops[i].K; (k == "open" || k == "opendir") && f.Typ == wire.Handle {
			d := wire.D{B: f.Body[4:]}
			run.Opened = append(run.Opened, d.Str())
		}
	}
	closing := map[string]bool{}
	for i, o := range p.Ops {
		if o.K == "close" && run.Routes[i].CloseKey != "" {
			closing[o.H] = true
		}
	}
	var toClose []string
	for _, h := range p.Handles {
		if !h.Closed && !closing[h.Name] {
			toClose = append(toClose, handles[h.Name])
		}
	}
	toClose = append(toClose, run.Opened...)
	if ended { // nothing more can be sent: Serve closes what is still open when it returns
		toClose = nil
	}
	for _, hs := range toClose {
		sid++
		r, err := hCall(srv, k, wire.Req(wire.Close, sid, wire.B{}.Str(hs)))
		if err != nil {
			return fault("count/missing-response/"+p.Server, "clean-up CLOSE not answered: "+err.Error(), -1)
		}
		if r.ID() != sid {
			run.Extra = append(run.Extra, r)
		}
	}
	srv.CloseInput()
	serr, ok := hWaitSrv(srv, k, gDeadline)
	finished = true
	if !ok {
		return fault("shutdown/serve-did-not-return/"+p.Server, "Serve still running 20 s after the end of the input", -1)
	}
	if serr != nil {
		run.ServeErr = serr.Error()
	}
	run.Extra = append(run.Extra, srv.Drain(2*time.Second)...)
	run.UsedEnd, run.AvailEnd, _ = gAllocCounts(srv)
	run.Raw = srv.RawOut()
	run.Calls, run.Problems = hub.snapshot()
	if p.Server == "os" {
		run.Effects = gTreeEffects(run, abs)
	}

	// final contents of written objects
	for _, h := range p.Handles {
		if h.Closed || (h.Kind != "put" && h.Kind != "rw") {
			continue
		}
		if p.Server == "os" {
			// (a file that a defective server has extended to an absurd size is not read in)
			if fi, err := os.Stat(abs(h.Path)); err == nil && fi.Size() <= 1<<26 {
				if b, err := os.ReadFile(abs(h.Path)); err == nil {
					run.Final[h.Name] = b
				}
			}
		} else {
			rsh.mu.Lock()
			f := rsh.obj[abs(h.Path)]
			rsh.mu.Unlock()
			if f != nil {
				run.Final[h.Name] = f.assemble(h)
			}
		}
	}
	return run
}

// assemble overlays the recorded writes on the initial content.
func (f *gRSFile) assemble(h gHandle) []byte {
	f.mu.Lock()
	defer f.mu.Unlock()
	var b []byte
	if h.Kind == "rw" {
		b = gContent(h.Path, 0, int(gSize(h.Path)))
	}
	var offs []int64
	for o := range f.writes {
		offs = append(offs, o)
	}
	sort.Slice(offs, func(i, j int) bool { return offs[i] < offs[j] })
	for _, o := range offs {
		d := f.writes[o]
		if need := int(o) + len(d); need > len(b) {
			b = append(b, make([]byte, need-len(b))...)
		}
		copy(b[o:], d)
	}
	return b
}

// gExpectedFinal computes what a written object must contain, given the writes whose calls succeeded.
func gExpectedFinal(run *gRun, h gHandle) []byte {
	var b []byte
	if h.Kind == "rw" {
		b = gContent(h.Path, 0, int(gSize(h.Path)))
	}
	for i, o := range run.Case.Prog.Ops {
		if o.K != "write" || o.H != h.Name || run.Routes[i].Sim.Gate == "" || run.Routes[i].Mismatch {
			continue
		}
		d := gWriteData(o.H, o.Off, int(o.Len))
		if need := int(o.Off) + len(d); need > len(b) {
			b = append(b, make([]byte, need-len(b))...)
		}
		copy(b[o.Off:], d)
	}
	return b
}

// ---- the oracles every property shares (C02's statement) ----

type gStatus struct {
	Code uint32
	Msg  string
}

func gParseStatus(f wire.Pkt) gStatus {
	d := wire.D{B: f.Body}
	d.U32()
	return gStatus{Code: d.U32(), Msg: d.Str()}
}

func gFrameText(f wire.Pkt) string {
	s := fmt.Sprintf("%s id=%d", gTypeName(f.Typ), f.ID())
	switch f.Typ {
	case wire.Status:
		st := gParseStatus(f)
		s += fmt.Sprintf(" code=%d %q", st.Code, st.Msg)
	case wire.Data:
		if len(f.Body) >= 8 {
			s += fmt.Sprintf(" len=%d", len(f.Body)-8)
		}
	}
	return s
}

func (run *gRun) input() any { return run.Case }

// gCheckCommon evaluates: one reply per request, in request order, carrying the request's id, of a legal type,
// and (for requests that reached an instrumented call) built from what THAT call returned.
func gCheckCommon(run *gRun) []lib.Failure {
	var out []lib.Failure
	p := run.Case.Prog
	srv := p.Server
	fail := func(kind, key, what string, exp, act any) {
		out = append(out, lib.Failure{Kind: kind, Key: key, What: what, Input: run.input(), Expected: exp, Actual: act})
	}
	if run.Fault != nil {
		kind := "oracle"
		if strings.HasPrefix(run.Fault.Key, "harness/") {
			kind = "tie"
		}
		var got []string
		for _, f := range run.Frames {
			got = append(got, gFrameText(f))
		}
		fail(kind, run.Fault.Key, run.Fault.What, nil, map[string]any{"replies_so_far": got, "step": run.Fault.Step})
		return out
	}
	for _, pr := range run.Problems {
		fail("oracle", "alloc/buffer-lent-twice/"+srv, pr, "buffers of concurrently running calls are disjoint", pr)
	}
	if run.PageViol != "" {
		fail("oracle", "alloc/page-released-before-its-response/"+srv, "a page was given back while the request received into it had not been answered", "pages in use >= unanswered requests + 1", run.PageViol)
	}
	if len(run.Extra) > 0 {
		var ex []string
		for _, f := range run.Extra {
			ex = append(ex, gFrameText(f))
		}
		fail("oracle", "count/extra-response/"+srv, "the server wrote more replies than it received requests", len(p.Ops), ex)
	}
	byKey := map[string][]gCall{}
	for _, c := range run.Calls[run.Setup:] {
		byKey[c.Key] = append(byKey[c.Key], c)
	}
	for i, o := range p.Ops {
		f := run.Frames[i]
		rt := run.Routes[i]
		if f.ID() != o.ID {
			var ids []uint32
			for _, g := range run.Frames {
				ids = append(ids, g.ID())
			}
			fail("oracle", "order/id-mismatch/"+srv, fmt.Sprintf("reply number %d does not carry the id of request number %d", i+1, i+1), o.ID, ids)
			break
		}
		succ := gSuccessType(o.K)
		legal := f.Typ == wire.Status || f.Typ == succ
		okStatus := f.Typ == wire.Status && gParseStatus(f).Code == wire.OK
		if legal && succ != wire.Status && okStatus {
			legal = false
		}
		if !legal {
			key := fmt.Sprintf("legal-type/%s/%s->%s", srv, o.K, gTypeName(f.Typ))
			if srv == "rs" && rt.Mismatch {
				key = "rs/handle-method-mismatch"
			}
			fail("oracle", key, fmt.Sprintf("%s on a %s handle answered with %s", o.K, rt.HKind, gFrameText(f)),
				gTypeName(succ)+" or an error STATUS", gFrameText(f))
			continue
		}
		if rt.WantCode != 0 && (f.Typ != wire.Status || gParseStatus(f).Code != rt.WantCode) {
			why, key := "a server started with ReadOnly() must refuse it with PERMISSION_DENIED", fmt.Sprintf("legal-type/%s/read-only/%s", srv, o.K)
			if rt.NoCall != "" {
				why, key = "the handlers do not implement "+rt.NoCall+": the only reply is the status OP_UNSUPPORTED", fmt.Sprintf("legal-type/%s/no-%s/%s", srv, rt.NoCall, o.K)
			}
			fail("oracle", key, fmt.Sprintf("request %d (%s) answered with %s; %s", i, o.text(), gFrameText(f), why), fmt.Sprintf("STATUS code=%d", rt.WantCode), gFrameText(f))
			continue
		}
		if rt.Forbidden != "" {
			for _, c := range run.Calls[run.Setup:] {
				if strings.HasPrefix(c.Key, rt.Forbidden) {
					fail("oracle", "rs/handle-method-mismatch", fmt.Sprintf("%s on a %s handle was passed to the handler of the handle's own operation (%s called)", o.K, rt.HKind, c.Op),
						"an error STATUS without any handler call", c.Key+" ("+c.Op+")")
					break
				}
			}
		}
		if rt.Sim.Gate == "" {
			if rt.CloseKey != "" {
				if cs := byKey[rt.CloseKey]; len(cs) != 1 {
					fail("oracle", "calls/close-count/"+srv, fmt.Sprintf("CLOSE of %s made %d Close calls on the object", o.H, len(cs)), 1, len(cs))
				} else if !okStatus {
					fail("oracle", "legal-type/"+srv+"/close-failed", "CLOSE of an open handle whose Close returned nil was not answered OK", "STATUS 0", gFrameText(f))
				}
			}
			continue
		}
		cs := byKey[rt.Sim.Gate]
		if len(cs) != 1 {
			fail("oracle", "calls/count/"+srv, fmt.Sprintf("request %d (%s) made %d calls %s", i, o.text(), len(cs), rt.Sim.Gate), 1, len(cs))
			continue
		}
		c := cs[0]
		if rt.Mismatch {
			continue // the reply is an error (checked above); nothing of the call's result is owed to the client
		}
		switch o.K {
		case "read":
			wantData := c.ErrNil || (c.Err == "EOF" && c.N > 0)
			if wantData != (f.Typ == wire.Data) {
				fail("oracle", "data/read-outcome/"+srv, "the type of the READ reply does not follow the result of the ReadAt call of this request",
					fmt.Sprintf("ReadAt returned n=%d err=%q", c.N, c.Err), gFrameText(f))
				break
			}
			if f.Typ == wire.Data {
				d := wire.D{B: f.Body[4:]}
				got := d.Bytes()
				if d.Err != nil || !bytes.Equal(got, c.Data) {
					key := "data/wrong-payload/" + srv
					fail("oracle", key, fmt.Sprintf("DATA reply %d (%s) is not what the ReadAt call of this request returned", i+1, o.text()),
						gDigest(c.Data), gDigest(got))
				}
			}
		case "write", "fsetstat", "remove", "rmdir", "setstat", "mkdir", "rename", "symlink", "posixrename", "hardlink":
			if c.ErrNil != okStatus {
				fail("oracle", "data/status-outcome/"+srv, "the STATUS reply does not follow the result of the call of this request",
					fmt.Sprintf("call returned err=%q", c.Err), gFrameText(f))
			}
		case "readdir":
			wantName := c.N > 0 && (c.ErrNil || c.Err == "EOF")
			if wantName != (f.Typ == wire.Name) {
				fail("oracle", "data/readdir-outcome/"+srv, "the type of the READDIR reply does not follow the result of the listing call of this request",
					fmt.Sprintf("listing returned n=%d err=%q", c.N, c.Err), gFrameText(f))
				break
			}
			if f.Typ == wire.Name {
				d := wire.D{B: f.Body[4:]}
				cnt := int(d.U32())
				var names []string
				for k := 0; k < cnt && d.Err == nil; k++ {
					names = append(names, d.Str())
					d.Str()
					d.St()
				}
				if d.Err != nil || strings.Join(names, ",") != string(c.Data) {
					fail("oracle", "data/wrong-listing/"+srv, "NAME reply does not list what the listing call of this request returned", string(c.Data), strings.Join(names, ","))
				}
			}
		default:
			if c.ErrNil != (f.Typ == succ) {
				fail("oracle", "data/reply-outcome/"+srv, "the reply type does not follow the result of the call of this request",
					fmt.Sprintf("call returned err=%q", c.Err), gFrameText(f))
			}
		}
	}
	if srv == "os" && p.ReadOnly {
		for _, c := range run.Calls[run.Setup:] {
			if gModifyingOps[c.Op] {
				fail("oracle", "read-only/modifying-call-made/"+srv, "a server started with ReadOnly() called a modifying method of an opened file", "no such call", c.Key+" ("+c.Op+")")
				break
			}
		}
	}
	// calls nobody asked for
	want := map[string]bool{}
	for _, rt := range run.Routes {
		if rt.Sim.Gate != "" {
			want[rt.Sim.Gate] = true
		}
		if rt.CloseKey != "" {
			want[rt.CloseKey] = true
		}
	}
	pipelineEnd := int64(0)
	for _, c := range run.Calls[run.Setup:] {
		if want[c.Key] && c.Fin > pipelineEnd {
			pipelineEnd = c.Fin
		}
	}
	var forbidden []string
	for _, rt := range run.Routes {
		if rt.Forbidden != "" {
			forbidden = append(forbidden, rt.Forbidden)
		}
	}
	for _, c := range run.Calls[run.Setup:] {
		forb := false
		for _, pf := range forbidden {
			if strings.HasPrefix(c.Key, pf) {
				forb = true
			}
		}
		if !want[c.Key] && !forb && !c.Free && c.Op != "Close" && c.Start < pipelineEnd {
			fail("oracle", "calls/unrequested/"+srv, "an instrumented call was made that no request of the stream accounts for", nil, c.Key+" ("+c.Op+")")
		}
	}
	return out
}

// gTreeEffects (os-backed server) describes every object the requests of the program name, as the file system shows
// it once Serve has returned: kind and permissions, size, owner, modification time (to the second; "during-the-run"
// for a time that the run itself produced, which two runs of the same program do not share).
func gTreeEffects(run *gRun, abs func(string) string) []string {
	p := run.Case.Prog
	seen := map[string]bool{}
	var out []string
	add := func(name string) {
		if name == "" || seen[name] || len(name) > 200 {
			return
		}
		seen[name] = true
		fi, err := os.Lstat(abs(name))
		if err != nil {
			out = append(out, name+": absent")
			return
		}
		mt := "during-the-run"
		if m := fi.ModTime(); m.Before(run.Started.Add(-time.Minute)) || m.After(time.Now().Add(time.Minute)) {
			mt = fmt.Sprint(m.Unix())
		}
		uid, gid := -1, -1
		if st, ok := fi.Sys().(*syscall.Stat_t); ok {
			uid, gid = int(st.Uid), int(st.Gid)
		}
		size := fi.Size()
		if fi.IsDir() {
			size = 0
		}
		out = append(out, fmt.Sprintf("%s: mode=%v size=%d owner=%d:%d mtime=%s", name, fi.Mode(), size, uid, gid, mt))
	}
	for _, h := range p.Handles {
		add(h.Path)
	}
	for _, o := range p.Ops {
		if o.Pad == 0 && !strings.Contains(o.P, "/") {
			add(o.P)
		}
		add(o.P2)
	}
	sort.Strings(out)
	return out
}

// gEffects is what the requests of a run did, beyond the replies: on the request server what every command and
// open handler was shown (method, paths, flags, attribute block), on the os-backed server the resulting objects.
func gEffects(run *gRun) []string {
	if run.Case.Prog.Server == "os" {
		return run.Effects
	}
	var out []string
	for _, c := range run.Calls[run.Setup:] {
		if c.Free || (c.Op != "Filecmd" && c.Op != "PosixRename" && !strings.HasPrefix(c.Op, "Open")) {
			continue
		}
		out = append(out, c.Key+": "+string(c.Data))
	}
	sort.Strings(out)
	return out
}

func gDigest(b []byte) string {
	if len(b) <= 24 {
		return fmt.Sprintf("%d bytes %x", len(b), b)
	}
	return fmt.Sprintf("%d bytes %x…%x", len(b), b[:12], b[len(b)-12:])
}

// gProbeModel reports whether the model driver knows op (the driver answers "bad-op" to unknown operations).
func gProbeModel(c *lib.Ctx, line string) bool {
	if c.ModelPath == "" {
		return false
	}
	saved := c.R.ModelCases
	out, err := c.Model([]string{line})
	c.R.ModelCases = saved
	return err == nil && len(out) == 1 && out[0] != "bad-op"
}

// gCurCfg returns the configuration token which the translator regenerated from the source on this run
// (driver op `cur.cfg <name>`, lean/Sftp/Driver/Cur.lean), so that schedules are replayed in the model of the
// code as it is now. Without a driver (or with an older one) the pinned token is used. A difference between
// the two is recorded in the evidence notes; whether it matters for the property is decided by the
// instantiation theorems (Props/*Inst.lean), not here.
func gCurCfg(c *lib.Ctx, name, pinned string) string {
	if c.ModelPath == "" {
		return pinned
	}
	saved := c.R.ModelCases
	out, err := c.Model([]string{"cur.cfg " + name})
	c.R.ModelCases = saved
	if err != nil || len(out) != 1 || out[0] == "bad-op" || out[0] == "" {
		c.R.Note("driver does not serve `cur.cfg %s`: schedules are replayed in the pinned configuration %s", name, pinned)
		return pinned
	}
	if out[0] != pinned {
		c.R.Note("configuration regenerated from the source for %s is %s (the configuration the harness was written against: %s); schedules are replayed in the regenerated one", name, out[0], pinned)
	} else {
		c.R.Note("model configuration for %s taken from the regenerated source facts: %s", name, out[0])
	}
	return out[0]
}
