package main

// C12 — Seek at the edges of int64.
//
// "Seek computes start-, current- and end-relative positions and rejects a negative result without moving": the
// position is base + offset over the integers. With a non-zero base (a current offset after some Read/Write/Seek, the
// size of a non-empty file) and an offset near math.MaxInt64 the sum is not an int64 at all: such a Seek must be
// refused like a negative one, and the File must stay where it was (a wrapped, negative offset would go out with the
// next READ/WRITE as a huge unsigned one). xfSeekEdgeSeq writes these calls out for all three whences; xfRunSeq judges
// them by the os.File twin and by the arithmetic itself where the twin's file system does not take the target
// (an ext4 file cannot be positioned beyond 16 TiB; an sftp.File can).

import (
	"encoding/json"
	"fmt"
	"math"
	"strconv"
	"strings"
)

// An offset beyond 2^53 does not survive a JSON round trip through float64 (a result that is read into `any` and
// written again, as the parent process of a check does): such offsets are written as decimal strings.
func (o xfOp) MarshalJSON() ([]byte, error) {
	type plain xfOp
	if o.Off > -(1<<53) && o.Off < 1<<53 {
		return json.Marshal(plain(o))
	}
	return json.Marshal(struct {
		plain
		OffS string `json:"off"`
	}{plain(o), strconv.FormatInt(o.Off, 10)})
}

func (o *xfOp) UnmarshalJSON(b []byte) error {
	type plain xfOp
	var aux struct {
		plain
		OffR json.RawMessage `json:"off"`
	}
	if err := json.Unmarshal(b, &aux); err != nil {
		return err
	}
	*o = xfOp(aux.plain)
	o.Off = 0
	if t := strings.Trim(strings.TrimSpace(string(aux.OffR)), `"`); t != "" && t != "null" {
		v, err := strconv.ParseInt(t, 10, 64)
		if err != nil {
			return fmt.Errorf("op offset %s: %v", aux.OffR, err)
		}
		o.Off = v
	}
	return nil
}

const xfMaxI, xfMinI = int64(math.MaxInt64), int64(math.MinInt64)

// xfSeekEdges are the offsets at the edges (base: the position the offset is relative to).
func xfSeekEdges(base int64) []int64 {
	return []int64{xfMaxI, xfMaxI - 1, xfMinI, xfMinI + 1, 1 << 62, -(1 << 62), 1 << 32, -(1 << 32), 1<<32 - 1, 1 << 31,
		xfMaxI - base, xfMaxI - base + 1, xfMaxI - base - 1, -base, -base - 1, -base + 1, xfMaxI / 2, xfMaxI/2 + 1, xfMinI / 2}
}

// xfSeekEdgeClass names an edge offset for the histogram ("": an ordinary one).
func xfSeekEdgeClass(off, base int64) string {
	switch {
	case off == xfMaxI:
		return "MaxInt64"
	case off == xfMaxI-1:
		return "MaxInt64-1"
	case off == xfMinI:
		return "MinInt64"
	case off == xfMinI+1:
		return "MinInt64+1"
	case base > 0 && off == xfMaxI-base:
		return "MaxInt64-base"
	case base > 0 && off == xfMaxI-base+1:
		return "MaxInt64-base+1"
	case base > 0 && off == xfMaxI-base-1:
		return "MaxInt64-base-1"
	case off == 1<<62 || off == -(1<<62):
		return fmt.Sprintf("%+d*2^62", off>>62)
	case off == 1<<32 || off == -(1<<32):
		return fmt.Sprintf("%+d*2^32", off>>32)
	case off >= 1<<40 || off <= -(1<<40):
		return "other-huge"
	}
	return ""
}

// xfSeekEdgeSeq writes a sequence of edge seeks on a file of S > 0 bytes. It keeps track of the exact offset and size
// (nothing in it fails). prefix: how the offset becomes non-zero first ("r": Read, "w": Write, "sk": Seek, "rsk": Read
// then Seek to another non-zero offset). reads: the handle serves READs.
func xfSeekEdgeSeq(cfg xfCfg, S int, variant int, reads bool) []xfOp {
	mp := cfg.MP
	size, pos := int64(S), int64(0)
	var ops []xfOp
	accept := func(base, off int64) (int64, bool) {
		if off > 0 && base > xfMaxI-off {
			return 0, false
		}
		t := base + off
		return t, t >= 0
	}
	seek := func(off int64, wh int) {
		ops = append(ops, xfOp{K: "sk", Off: off, Wh: wh})
		if t, ok := accept([]int64{0, pos, size}[wh], off); ok {
			pos = t
		}
	}
	prefix := []string{"r", "w", "sk", "rsk"}[variant%4]
	if !reads && (prefix == "r" || prefix == "rsk") {
		prefix = "w"
	}
	home := func() { // back to a small non-zero offset, by a different route each time
		p := int64(1 + (variant+len(ops))%max(S, 1))
		switch len(ops) % 3 {
		case 0:
			seek(p, 0)
		case 1:
			seek(p, 0)
			seek(0, 1)
		default:
			seek(p-size, 2)
		}
	}
	switch prefix {
	case "r":
		n := 1 + variant%min(S, mp+1)
		ops = append(ops, xfOp{K: "r", N: n})
		pos += int64(n)
	case "w":
		n := 1 + variant%(mp+1)
		ops = append(ops, xfOp{K: "w", N: n, Seed: 1 + variant%200})
		pos += int64(n)
		size = max(size, pos)
	case "sk":
		seek(int64(1+variant%max(S, 1)), 0)
	case "rsk":
		ops = append(ops, xfOp{K: "r", N: 1})
		pos++
		seek(int64(variant%max(S, 1)), 1)
	}
	for wh := 0; wh <= 2; wh++ {
		base := []int64{0, pos, size}[wh]
		for ei, off := range xfSeekEdges(base) {
			was := pos
			seek(off, wh)
			if pos != was && pos > 1<<40 {
				// taken, far out: from there the current-relative seeks meet the upper edge themselves
				switch (ei + variant) % 4 {
				case 0:
					seek(1, 1)
					seek(xfMaxI-pos, 1)
					seek(1, 1) // at MaxInt64 now (if the one before was taken): one more step is not an int64
				case 1:
					seek(-1, 1)
					seek(xfMaxI, 1)
				case 2:
					seek(xfMinI, 1)
					seek(-pos-1, 1)
				}
				home()
			} else if pos != was {
				home()
			}
			if wh == 1 {
				base = pos
			}
		}
	}
	// the offset the transfers start at is the one the seeks left
	if reads {
		ops = append(ops, xfOp{K: "r", N: 1})
	}
	ops = append(ops, xfOp{K: "w", N: 1, Seed: 7}, xfOp{K: "sk", Wh: 1}, xfOp{K: "cl"}, xfOp{K: "sk", Off: xfMaxI, Wh: 1}, xfOp{K: "sk", Off: xfMinI, Wh: 2})
	return ops
}
