package main

// C01 — SEVERAL Files open on one served file at the same time.
//
// Every other transfer case opens a File, moves bytes through it and closes it; the histories of xfer_hist.go keep ONE
// File open at a time. What a server hands out for an open handle has an identity of its own, though: "the served file"
// of the property is one thing however many handles refer to it, under whatever names and opened in whatever mode. A
// backend that gives a later open (O_TRUNC, Create(), O_CREATE over an existing name …) a NEW object, that answers a
// handle by the path it was opened under, or that mixes up the handles of one path, moves every byte of a single-handle
// transfer correctly — and loses the writes of / serves stale bytes to every File that was already open.
//
// A multi-handle history (xfMultiCase) keeps up to four Files open at once on two names of the served file system:
//
//	open   a slot in any mode of xfOpenModeList (O_RDONLY / O_WRONLY / O_RDWR x O_CREATE, O_APPEND, O_TRUNC, O_EXCL,
//	       Client.Create()) while others are open on the same file; opens that must be refused (no O_CREATE on a missing
//	       name, O_EXCL on an existing one) included,
//	w wa rf rfc / r ra wt   transfers through ANY of the open Files the mode of which allows it, interleaved,
//	sk tr st close          Seek (three whences), File.Truncate, File.Stat, Close of one of them,
//	link rename rm          (os-backed server and sftp.InMemHandler) a hard link of the file under the second name, a
//	                        rename (onto a free name: Rename; onto an existing one: PosixRename), a Remove of a name
//	                        while Files are open on the file (a name created again afterwards is another file).
//
// Reference: package os. Every step is mirrored on twin files in the scratch directory (one *os.File per *sftp.File,
// opened with the same flags minus O_APPEND - the servers take the offsets the client sends -, the same links, renames
// and removes): one byte array per file, shared by everything that refers to it. After every call: count, bytes, error
// class and File offset against the twin's; after every call that can change anything: what each NAME holds on the
// server side against the twin names, and what EVERY open File with read access reads (ReadAt of size+1 bytes at 0)
// against what its twin descriptor reads. At the end all Files are closed, the names compared once more and the
// server's handle table must be empty.
//
// Keys: multi/<call>[/<open mode>]/<site>. A failing history is shrunk step by step.
//
// Model: the same history - the calls that were made, in the driver's token syntax - goes to the Lean driver op `mh.run`
// (Sftp/Driver/MultiHandle.lean: the inode specification of Sftp/Model/MultiHandle.lean, to which the model of the
// request server over InMemHandler is proved equal in Props/C01Multi.lean), one line per history, all histories of a run
// in one call of the driver. What every call returned (count, end-of-file flag, hash of the bytes, error class, File
// offset afterwards) and what was then seen of the served file (every name on the server side, ReadAt of size+1 bytes
// through every open File with read access) is compared token by token; the first difference of a history is a failure
// of kind "correspondence" with key multi/model/<call>.

import (
	"bytes"
	"errors"
	"fmt"
	"io"
	"math/rand"
	"os"
	"path/filepath"
	"sort"
	"strings"
	"sync"

	"github.com/pkg/sftp"

	"verifharness/lib"
)

type xfMStep struct {
	// open close w wa rf rfc r ra wt sk tr st link rename rm
	K string `json:"k"`
	// the File slot the call goes through (open: the slot it fills)
	H int `json:"h"`
	// open, rm: the name (0: f, 1: g); link, rename: the source name (the target is the other one)
	Name int    `json:"name,omitempty"`
	Mode string `json:"mode,omitempty"` // open: a name of xfOpenModeList (only its flags are used: the twin tells what must come of it)
	N    int    `json:"n,omitempty"`
	Off  int64  `json:"off,omitempty"`
	Wh   int    `json:"whence,omitempty"`
	Seed int    `json:"seed,omitempty"`
	Src  string `json:"src,omitempty"`
	Conc int    `json:"conc,omitempty"`
}

type xfMultiCase struct {
	Srv xfSrvSpec `json:"server"`
	Cfg xfCfg     `json:"client_options"`
	// what name f holds before the first step (-1: the name does not exist); name g never exists at the start
	FileLen int       `json:"file_len"`
	Steps   []xfMStep `json:"steps"`
}

const xfMultiSlots = 4

func (mc xfMultiCase) Text() string {
	var sb strings.Builder
	fmt.Fprintf(&sb, "multi %s %s S%d:", mc.Srv, mc.Cfg, mc.FileLen)
	for _, s := range mc.Steps {
		fmt.Fprintf(&sb, " %s#%d/%d/%s/%d/%d/%d/%s/%d", s.K, s.H, s.Name, s.Mode, s.N, s.Off, s.Wh, s.Src, s.Conc)
	}
	return sb.String()
}

// xfMultiNameOps: the served file systems whose names can be linked / renamed / removed under open handles (the
// harness's own handlers xfMemFS keep their files by path).
func xfMultiNameOps(spec xfSrvSpec) bool {
	return spec.Kind == "os" || (spec.Kind == "rs" && spec.InMem)
}

// The modes a slot is opened in (the refusing / fresh variants of xfOpenModeList carry the same flags).
var xfMultiModes = []string{"rdonly", "wronly", "rdwr", "wronly+creat", "rdwr+creat", "wronly+append", "rdwr+append", "wronly+creat+append",
	"wronly+trunc", "rdwr+trunc", "rdwr+creat+trunc", "create()", "wronly+creat+excl", "rdwr+creat+excl"}

// ---------- generator ----------

type xfMGenFile struct{ size int }

type xfMGenSlot struct {
	open  bool
	file  *xfMGenFile
	name  int
	mode  xfOpenMode
	pos   int
	stale bool // the name the File was opened under no longer refers to its file (renamed, removed, replaced)
}

// xfGenMulti writes one multi-handle history; k rotates what the history starts from and how the second File is opened.
func xfGenMulti(rng *rand.Rand, spec xfSrvSpec, cfg xfCfg, k int) xfMultiCase {
	mp := cfg.MP
	kc := min(cfg.Conc, 3)
	pick := func(c ...int) int { return c[rng.Intn(len(c))] }
	mc := xfMultiCase{Srv: spec, Cfg: cfg}
	mc.FileLen = []int{mp + 1, 0, 2*mp + 1, -1, 3*mp + 2, 1, 2, mp}[k%8]
	nameOps := xfMultiNameOps(spec)
	var names [2]*xfMGenFile
	if mc.FileLen >= 0 {
		names[0] = &xfMGenFile{size: mc.FileLen}
	}
	var slots [xfMultiSlots]xfMGenSlot
	seed := rng.Intn(251)
	next := func() int { seed = (seed + 37) % 251; return seed }
	srcs := []string{"len", "size", "stat", "limited", "opaque", "opaque1"}
	emit := func(s xfMStep) { mc.Steps = append(mc.Steps, s) }
	openSlots := func(ok func(*xfMGenSlot) bool) (out []int) {
		for i := range slots {
			if slots[i].open && (ok == nil || ok(&slots[i])) {
				out = append(out, i)
			}
		}
		return out
	}
	freeSlot := func() int {
		for i := range slots {
			if !slots[i].open {
				return i
			}
		}
		return -1
	}
	staleName := func(n int) {
		for i := range slots {
			if slots[i].open && slots[i].name == n {
				slots[i].stale = true
			}
		}
	}
	seekTo := func(h, o int) {
		s := &slots[h]
		if s.pos == o && rng.Intn(2) == 0 {
			return
		}
		switch w := rng.Intn(3); {
		case w == 1:
			emit(xfMStep{K: "sk", H: h, Off: int64(o - s.pos), Wh: 1})
		case w == 2 && !s.stale:
			emit(xfMStep{K: "sk", H: h, Off: int64(o - s.file.size), Wh: 2})
		default:
			emit(xfMStep{K: "sk", H: h, Off: int64(o)})
		}
		s.pos = o
	}
	geom := func(s *xfMGenSlot) (off, l int) {
		S := s.file.size
		l = max(1, pick(1, 2, mp-1, mp, mp+1, 2*mp+1, 1, mp))
		if mp <= 7 && rng.Intn(6) == 0 {
			l = mp*kc + 1
		}
		off = max(0, pick(0, 0, 1, S-1, S, S, S+1, S+mp, s.pos, mp, mp-1, S-l, S/2))
		if S > 4*mp+4 {
			off = min(off, max(0, S-l)) // (keeps the file from growing without bound)
		}
		return off, l
	}
	write := func(h int) {
		s := &slots[h]
		off, l := geom(s)
		switch rng.Intn(7) {
		case 0, 1, 2:
			emit(xfMStep{K: "wa", H: h, N: l, Off: int64(off), Seed: next()})
		case 3, 4:
			seekTo(h, off)
			emit(xfMStep{K: "w", H: h, N: l, Seed: next()})
			s.pos = off + l
		case 5:
			seekTo(h, off)
			emit(xfMStep{K: "rf", H: h, N: l, Seed: next(), Src: srcs[rng.Intn(len(srcs))]})
			s.pos = off + l
		default:
			seekTo(h, off)
			emit(xfMStep{K: "rfc", H: h, N: l, Seed: next(), Conc: pick(0, 1, 3), Src: "opaque"})
			s.pos = off + l
		}
		s.file.size = max(s.file.size, off+l)
	}
	read := func(h int) {
		s := &slots[h]
		S := s.file.size
		switch r := rng.Intn(6); {
		case r <= 2:
			if rng.Intn(2) == 0 {
				emit(xfMStep{K: "ra", H: h, N: S + 1}) // the whole file and one byte more
			} else {
				off, l := geom(s)
				emit(xfMStep{K: "ra", H: h, N: l, Off: int64(off)})
			}
		case r == 3 && !s.stale: // (a concurrent WriteTo sizes itself by STAT of the name or FSTAT of the handle)
			off := min(pick(0, 0, 1, mp, S), S)
			seekTo(h, off)
			emit(xfMStep{K: "wt", H: h})
			s.pos = max(off, S)
		default:
			off, l := geom(s)
			if rng.Intn(2) == 0 {
				off, l = 0, S+1
			}
			seekTo(h, off)
			emit(xfMStep{K: "r", H: h, N: l})
			s.pos = off + min(l, max(0, S-off))
		}
	}
	writable := func(s *xfMGenSlot) bool { return s.mode.Writes() }
	readable := func(s *xfMGenSlot) bool { return s.mode.Reads() }
	// open fills a free slot; it returns the slot when the open is one that succeeds
	open := func(name int, modeName string) int {
		h := freeSlot()
		m, ok := xfOpenModeByName(modeName)
		if h < 0 || !ok {
			return -1
		}
		emit(xfMStep{K: "open", H: h, Name: name, Mode: modeName})
		creat, excl := m.Wire&8 != 0, m.Wire&32 != 0
		switch {
		case names[name] == nil && !creat, names[name] != nil && creat && excl:
			return -1 // refused
		case names[name] == nil:
			names[name] = &xfMGenFile{}
		case m.Trunc():
			names[name].size = 0
		}
		slots[h] = xfMGenSlot{open: true, file: names[name], name: name, mode: m}
		return h
	}
	// after an open: transfers through the Files that were open on the same file before it
	older := func(h int) {
		var ws, rs []int
		for i := range slots {
			if i != h && slots[i].open && slots[i].file == slots[h].file {
				if slots[i].mode.Writes() {
					ws = append(ws, i)
				}
				if slots[i].mode.Reads() {
					rs = append(rs, i)
				}
			}
		}
		if slots[h].mode.Writes() && rng.Intn(2) == 0 {
			write(h)
		}
		if len(ws) > 0 && rng.Intn(4) != 0 {
			write(ws[rng.Intn(len(ws))])
		}
		if len(rs) > 0 && rng.Intn(4) != 0 {
			read(rs[rng.Intn(len(rs))])
		}
	}
	// the first File: a mode that opens what is there (or creates it)
	first := xfMultiModes[(k/8)%len(xfMultiModes)]
	if m, _ := xfOpenModeByName(first); names[0] == nil && m.Wire&8 == 0 {
		first = []string{"rdwr+creat", "wronly+creat", "create()", "rdwr+creat+excl"}[k%4]
	} else if names[0] != nil && m.Wire&32 != 0 {
		first = "rdwr"
	}
	if h := open(0, first); h >= 0 && slots[h].mode.Writes() {
		write(h)
	}
	// the second one rotates through all modes (k), the rest is drawn
	second := xfMultiModes[(k+k/len(xfMultiModes))%len(xfMultiModes)]
	steps := 12 + rng.Intn(10)
	if mp > 1000 {
		steps = 8 + rng.Intn(5)
	}
	for n := 0; len(mc.Steps) < steps && n < 4*steps; n++ {
		all := openSlots(nil)
		r := rng.Intn(100)
		switch {
		case len(all) == 0 || (r < 24 && freeSlot() >= 0):
			name := 0
			if nameOps && (names[1] != nil || rng.Intn(4) == 0) && rng.Intn(2) == 0 {
				name = 1
			}
			mode := xfMultiModes[rng.Intn(len(xfMultiModes))]
			if second != "" {
				mode, second, name = second, "", 0
			} else if rng.Intn(3) == 0 {
				mode = pick2(rng, "rdwr+trunc", "create()", "wronly+trunc", "rdwr+creat+trunc") // the opens that shrink what others have open
			}
			if h := open(name, mode); h >= 0 {
				older(h)
			}
		case r < 31 && len(all) > 1:
			h := all[rng.Intn(len(all))]
			emit(xfMStep{K: "close", H: h})
			slots[h] = xfMGenSlot{}
		case r < 41 && nameOps:
			a := rng.Intn(2)
			if names[a] == nil {
				a = 1 - a
			}
			b := 1 - a
			if names[a] == nil {
				continue
			}
			// … and then a File on the name that came of it, and transfers through the Files that were open all along
			after := func(name int, modes ...string) {
				if freeSlot() < 0 || rng.Intn(4) == 0 {
					return
				}
				if h := open(name, pick2(rng, modes...)); h >= 0 {
					older(h)
					if ws := openSlots(writable); len(ws) > 0 && rng.Intn(2) == 0 {
						write(ws[rng.Intn(len(ws))])
					}
				}
			}
			switch op := rng.Intn(4); {
			case op == 0 && names[b] == nil:
				emit(xfMStep{K: "link", Name: a})
				names[b] = names[a]
				after(b, "rdwr", "rdwr+trunc", "create()", "wronly+trunc", "rdonly", "wronly+creat", "rdwr+creat+trunc", "rdwr+append")
			case op == 1 || op == 0:
				emit(xfMStep{K: "rename", Name: a})
				if names[a] != names[b] { // (two names of one file: rename(2) does nothing)
					staleName(a)
					staleName(b)
					names[b], names[a] = names[a], nil
				}
				after(b, "rdwr", "rdwr+trunc", "create()", "wronly", "rdonly", "rdwr+creat")
			case op == 2 && (names[b] != nil || rng.Intn(2) == 0):
				emit(xfMStep{K: "rm", Name: a})
				staleName(a)
				names[a] = nil
				after(a, "rdwr+creat", "create()", "wronly+creat", "rdwr+creat+excl", "rdwr+creat+trunc")
			}
		case r < 45:
			if ws := openSlots(func(s *xfMGenSlot) bool { return writable(s) && !s.stale }); len(ws) > 0 {
				h := ws[rng.Intn(len(ws))]
				S := slots[h].file.size
				to := max(0, pick(0, 1, S/2, S-1, S+1, S+mp, mp))
				emit(xfMStep{K: "tr", H: h, N: to})
				slots[h].file.size = to
			}
		case r < 50:
			if ss := openSlots(func(s *xfMGenSlot) bool { return !s.stale }); len(ss) > 0 {
				emit(xfMStep{K: "st", H: ss[rng.Intn(len(ss))]})
			}
		case r < 76:
			if ws := openSlots(writable); len(ws) > 0 {
				write(ws[rng.Intn(len(ws))])
			}
		default:
			if rs := openSlots(readable); len(rs) > 0 {
				read(rs[rng.Intn(len(rs))])
			}
		}
	}
	return mc
}

func pick2(rng *rand.Rand, c ...string) string { return c[rng.Intn(len(c))] }

// ---------- runner ----------

type xfMultiResult struct {
	Fails    []xfSeqFailure
	SetupErr error
	Hung     bool
	Marks    map[string]int
	Trace    xfMHTrace // the calls that were made and what they returned, in the syntax of the driver op mh.run
}

type xfMSlot struct {
	f    *sftp.File
	tw   *os.File
	mode xfOpenMode
	// a truncating open of the same file came after this File was opened
	truncatedUnder bool
}

func xfMErr(err error) string {
	switch {
	case err == nil:
		return "ok"
	case err == io.EOF:
		return "eof"
	}
	return "error"
}

// xfRunMulti runs one multi-handle history on the pair and on the twin files and stops at the first disagreement.
func xfRunMulti(mc xfMultiCase, real *xfReal, dir string, slot int) (res xfMultiResult) {
	kase := lib.NewCase(xfClass(mc.Srv) + "/multi") // hang account of this history (lib/budget.go)
	xfInflight(slot, mc)
	res.Marks = map[string]int{}
	res.Trace.Flen = "-"
	if mc.FileLen >= 0 {
		res.Trace.Flen = fmt.Sprint(mc.FileLen)
	}
	defer func() {
		if res.SetupErr == nil {
			xfMHModel.add(mc, res.Trace)
		}
	}()
	// rec: one call of the history as the model's token, and what the implementation answered
	rec := func(at int, kind, tok, impl string) { res.Trace.add(at, kind, tok, impl) }
	if real == nil || mc.Srv.Kind == "peer" {
		res.SetupErr = errors.New("a multi-handle history needs a real server")
		return
	}
	cli := real.Cli
	nm := [2]string{"f", "g"}
	twin := [2]string{filepath.Join(dir, "mtwin.f"), filepath.Join(dir, "mtwin.g")}
	cleanup := func() error {
		for i := range nm {
			if err := real.Remove(nm[i]); err != nil {
				return err
			}
			if err := os.Remove(twin[i]); err != nil && !os.IsNotExist(err) {
				return err
			}
		}
		return nil
	}
	if err := cleanup(); err != nil {
		res.SetupErr = err
		return
	}
	if mc.FileLen >= 0 {
		b := xfFilePat(mc.FileLen)
		if err := real.Put(nm[0], b); err != nil {
			res.SetupErr = err
			return
		}
		if err := os.WriteFile(twin[0], b, 0o644); err != nil {
			res.SetupErr = err
			return
		}
	}
	var slots [xfMultiSlots]*xfMSlot
	defer func() {
		for _, s := range slots {
			if s == nil {
				continue
			}
			s.tw.Close()
			if res.Hung {
				go s.f.Close() // (a call that never returned holds the File's lock)
			} else if ok, _ := xfGuardK(kase, func() { s.f.Close() }); !ok {
				res.Hung = true
			}
		}
		if !res.Hung {
			cleanup()
		}
	}()
	fail := func(at int, key, what string, exp, act any) {
		res.Fails = append(res.Fails, xfSeqFailure{Key: key, What: what, At: at, Expected: exp, Actual: act})
	}
	hang := func(at int, key string) {
		fail(at, key+"/hang", "the call did not return within 20 s", "return", "hang")
		res.Hung = true
	}
	// checkAll: what every name holds on the server side, and what every open File with read access reads
	checkAll := func(at int, key string) bool {
		for i := range nm {
			want, terr := os.ReadFile(twin[i])
			got, serr := real.Get(nm[i])
			switch {
			case serr == nil:
				rec(at, xfMHKind(mc, at), "cat:"+nm[i], fmt.Sprintf("%d:%d", len(got), xfHash(got)))
			case errors.Is(serr, os.ErrNotExist):
				rec(at, xfMHKind(mc, at), "cat:"+nm[i], "notExist")
			}
			switch {
			case terr != nil && !os.IsNotExist(terr):
				res.SetupErr = fmt.Errorf("twin: %v", terr)
				return false
			case serr != nil && !errors.Is(serr, os.ErrNotExist):
				if strings.Contains(serr.Error(), xfErrHang.Error()) {
					hang(at, key+"/served-file")
					return false
				}
				res.SetupErr = fmt.Errorf("reading the served file %s on the server side: %v", nm[i], serr)
				return false
			case (terr == nil) != (serr == nil):
				fail(at, key+"/name-exists", fmt.Sprintf("after the call the served name %s exists=%v, the same name of the os twin exists=%v", nm[i], serr == nil, terr == nil), terr == nil, serr == nil)
				return false
			case terr == nil && !bytes.Equal(got, want):
				fail(at, key+"/content", fmt.Sprintf("after the call the served file %s is not what the same calls of package os leave in the twin (sizes %d vs %d, first difference at byte %d)", nm[i], len(got), len(want), xfFirstDiff(got, want)),
					xfShort(want), xfShort(got))
				return false
			}
		}
		for h, s := range slots {
			if s == nil || !s.mode.Reads() {
				continue
			}
			want := xfReadFd(s.tw)
			buf := make([]byte, len(want)+1)
			var n int
			var err error
			ok, pn := xfGuardK(kase, func() { n, err = s.f.ReadAt(buf, 0) })
			if ok && pn == nil {
				rec(at, xfMHKind(mc, at), fmt.Sprintf("ra:%d:%d:0", h, len(buf)), xfMHRead(n, buf, err, "*"))
			}
			switch {
			case !ok:
				hang(at, key+"/handle-read")
				return false
			case pn != nil:
				fail(at, key+"/handle-read/panic", "ReadAt panicked", nil, fmt.Sprint(pn))
				return false
			case n != len(want) || err != io.EOF || !bytes.Equal(buf[:max(0, min(n, len(buf)))], want):
				fail(at, key+"/handle-read", fmt.Sprintf("after the call File #%d (opened in mode %s, still open) does not read what the served file holds: ReadAt(size+1 bytes, 0) must give the %d bytes of the file and io.EOF (first difference at byte %d)",
					h, s.mode.Name, len(want), xfFirstDiff(buf[:max(0, min(n, len(buf)))], want)), fmt.Sprintf("(%d, EOF) %s", len(want), xfShort(want)), fmt.Sprintf("(%d, %v) %s", n, err, xfShort(buf[:max(0, min(n, len(buf)))])))
				return false
			}
		}
		return true
	}
	maxOpen := 0
	for i, st := range mc.Steps {
		key := "multi/" + st.K
		if st.H < 0 || st.H >= xfMultiSlots || st.Name < 0 || st.Name > 1 {
			continue
		}
		s := slots[st.H]
		mutates := true
		switch st.K {
		case "open":
			m, okm := xfOpenModeByName(st.Mode)
			if s != nil || !okm {
				continue // (a step a shrunk history has no use for)
			}
			key += "/" + m.Name
			var nf *sftp.File
			var oerr error
			ok, pn := xfGuardK(kase, func() { nf, oerr = m.Open(cli, real.Path(nm[st.Name])) })
			if !ok {
				hang(i, key)
				return
			}
			if pn != nil {
				fail(i, key+"/panic", "the open panicked", nil, fmt.Sprint(pn))
				return
			}
			rec(i, "open", fmt.Sprintf("o:%d:%s:%s", st.H, nm[st.Name], xfMHFlags(m.Wire)), xfMHErr(oerr, "ok"))
			flags := m.Flags &^ os.O_APPEND
			if m.Create {
				flags = os.O_RDWR | os.O_CREATE | os.O_TRUNC
			}
			ntw, terr := os.OpenFile(twin[st.Name], flags, 0o644)
			if (oerr == nil) != (terr == nil) {
				fail(i, key+"/result", "the open of the served name and the same open of package os on the twin do not both succeed / both fail", fmt.Sprint(terr), fmt.Sprint(oerr))
				if nf != nil {
					xfGuardK(kase, func() { nf.Close() })
				}
				if ntw != nil {
					ntw.Close()
				}
				return
			}
			others := 0
			if oerr == nil {
				ti, _ := ntw.Stat()
				for _, o := range slots {
					if o == nil {
						continue
					}
					if oi, e := o.tw.Stat(); e == nil && ti != nil && os.SameFile(ti, oi) {
						others++
						if m.Trunc() {
							o.truncatedUnder = true
						}
					}
				}
				slots[st.H] = &xfMSlot{f: nf, tw: ntw, mode: m}
			}
			res.Marks[fmt.Sprintf("open|mode=%s|Files-already-open-on-that-file=%s|refused=%v", m.Name, xfMCount(others), oerr != nil)]++
			n := 0
			for _, o := range slots {
				if o != nil {
					n++
				}
			}
			maxOpen = max(maxOpen, n)
		case "close":
			if s == nil {
				continue
			}
			var cerr error
			ok, pn := xfGuardK(kase, func() { cerr = s.f.Close() })
			s.tw.Close()
			slots[st.H] = nil
			if ok && pn == nil {
				rec(i, "close", fmt.Sprintf("cl:%d", st.H), xfMHErr(cerr, "ok"))
			}
			switch {
			case !ok:
				hang(i, key)
				return
			case pn != nil:
				fail(i, key+"/panic", "Close panicked", nil, fmt.Sprint(pn))
				return
			case cerr != nil:
				fail(i, key+"/error", "Close of one of the Files failed", "<nil>", cerr.Error())
				return
			}
		case "link", "rename", "rm":
			if !xfMultiNameOps(mc.Srv) {
				continue
			}
			a, b := st.Name, 1-st.Name
			pa, pb := real.Path(nm[a]), real.Path(nm[b])
			if okp, why := lib.InScratch("", twin[a]); !okp {
				res.SetupErr = fmt.Errorf("name operation outside the scratch directory not run: %s", why)
				return
			}
			if mc.Srv.Kind == "os" {
				if okp, why := lib.InScratch("", pa); !okp {
					res.SetupErr = fmt.Errorf("name operation outside the scratch directory not run: %s", why)
					return
				}
			}
			_, eb := os.Lstat(twin[b])
			var serr, terr error
			ok, pn := xfGuardK(kase, func() {
				switch st.K {
				case "link":
					serr = cli.Link(pa, pb)
				case "rename":
					if eb == nil {
						serr = cli.PosixRename(pa, pb) // (SFTP v3 RENAME onto an existing name is an error)
					} else {
						serr = cli.Rename(pa, pb)
					}
				default:
					serr = cli.Remove(pa)
				}
			})
			if ok && pn == nil {
				tok := map[string]string{"link": "ln", "rename": "rn", "rm": "rm"}[st.K]
				if st.K == "rename" && eb == nil {
					tok = "prn"
				}
				tok += ":" + nm[a]
				if st.K != "rm" {
					tok += ":" + nm[b]
				}
				rec(i, st.K, tok, xfMHErr(serr, "ok"))
			}
			switch st.K {
			case "link":
				terr = os.Link(twin[a], twin[b])
			case "rename":
				terr = os.Rename(twin[a], twin[b])
			default:
				terr = os.Remove(twin[a])
			}
			switch {
			case !ok:
				hang(i, key)
				return
			case pn != nil:
				fail(i, key+"/panic", "the call panicked", nil, fmt.Sprint(pn))
				return
			case (serr == nil) != (terr == nil):
				fail(i, key+"/result", "the name operation and the same call of package os on the twin do not both succeed / both fail", fmt.Sprint(terr), fmt.Sprint(serr))
				return
			}
			n := 0
			for _, o := range slots {
				if o != nil {
					n++
				}
			}
			res.Marks[fmt.Sprintf("name-op=%s|onto-existing-name=%v|Files-open=%s", st.K, eb == nil && st.K != "rm", xfMCount(n))]++
		default:
			if s == nil {
				continue
			}
			isW := st.K == "w" || st.K == "wa" || st.K == "rf" || st.K == "rfc" || st.K == "tr"
			isR := st.K == "r" || st.K == "ra" || st.K == "wt"
			if (isW && !s.mode.Writes()) || (isR && !s.mode.Reads()) || (!isW && !isR && st.K != "sk" && st.K != "st") {
				continue
			}
			mutates = isW
			f, tw := s.f, s.tw
			var sn, tn int64
			var serr, terr error
			var sdata, tdata []byte
			var src xfSource
			ok, pn := xfGuardK(kase, func() {
				switch st.K {
				case "r":
					sb, tb := make([]byte, st.N), make([]byte, st.N)
					var a, b int
					a, serr = f.Read(sb)
					b, terr = tw.Read(tb)
					sn, tn, sdata, tdata = int64(a), int64(b), sb[:max(0, min(a, len(sb)))], tb[:max(b, 0)]
				case "ra":
					sb, tb := make([]byte, st.N), make([]byte, st.N)
					var a, b int
					a, serr = f.ReadAt(sb, st.Off)
					b, terr = tw.ReadAt(tb, st.Off)
					sn, tn, sdata, tdata = int64(a), int64(b), sb[:max(0, min(a, len(sb)))], tb[:max(b, 0)]
				case "wt":
					var sb, tb bytes.Buffer
					sn, serr = f.WriteTo(&sb)
					tn, terr = io.Copy(&tb, struct{ io.Reader }{tw})
					sdata, tdata = sb.Bytes(), tb.Bytes()
				case "w":
					d := xfPat(st.Seed, st.N)
					var a, b int
					a, serr = f.Write(d)
					b, terr = tw.Write(d)
					sn, tn = int64(a), int64(b)
				case "wa":
					d := xfPat(st.Seed, st.N)
					var a, b int
					a, serr = f.WriteAt(d, st.Off)
					b, terr = tw.WriteAt(d, st.Off)
					sn, tn = int64(a), int64(b)
				case "rf", "rfc":
					d := xfPat(st.Seed, st.N)
					kind := st.Src
					if kind == "" {
						kind = "opaque"
					}
					var e error
					if src, e = xfNewSource(kind, d, dir); e != nil {
						serr, terr = e, e
						return
					}
					if st.K == "rf" {
						sn, serr = f.ReadFrom(src.R)
					} else {
						sn, serr = f.ReadFromWithConcurrency(src.R, st.Conc)
					}
					var b int
					b, terr = tw.Write(d)
					tn = int64(b)
				case "sk":
					sn, serr = f.Seek(st.Off, st.Wh)
					tn, terr = tw.Seek(st.Off, st.Wh)
				case "tr":
					serr = f.Truncate(int64(st.N))
					terr = tw.Truncate(int64(st.N))
				case "st":
					if fi, e := f.Stat(); e != nil {
						serr = e
					} else {
						sn = fi.Size()
					}
					if ti, e := tw.Stat(); e != nil {
						terr = e
					} else {
						tn = ti.Size()
					}
				}
			})
			if src.Cleanup != nil {
				src.Cleanup()
			}
			if !ok {
				hang(i, key)
				return
			}
			if pn != nil {
				fail(i, key+"/panic", "the call panicked", nil, fmt.Sprint(pn))
				return
			}
			{
				// the call as the model's token and what it returned (the File offset afterwards: Seek(0, SeekCurrent) is
				// answered by the File itself)
				at := "*"
				if o, e := f.Seek(0, io.SeekCurrent); e == nil {
					at = fmt.Sprint(o)
				}
				switch st.K {
				case "r":
					rec(i, st.K, fmt.Sprintf("r:%d:%d", st.H, st.N), xfMHRead(int(sn), sdata, serr, at))
				case "ra":
					rec(i, st.K, fmt.Sprintf("ra:%d:%d:%d", st.H, st.N, st.Off), xfMHRead(int(sn), sdata, serr, at))
				case "wt":
					// (where a concurrent WriteTo leaves the offset is C12's)
					rec(i, st.K, fmt.Sprintf("wt:%d", st.H), xfMHErr(serr, fmt.Sprintf("%d:%d@*", sn, xfHash(sdata))))
				case "w", "rf", "rfc":
					rec(i, st.K, fmt.Sprintf("w:%d:%d:%d", st.H, st.N, st.Seed), xfMHErr(serr, fmt.Sprintf("%d@%s", sn, at)))
				case "wa":
					rec(i, st.K, fmt.Sprintf("wa:%d:%d:%d:%d", st.H, st.N, st.Seed, st.Off), xfMHErr(serr, fmt.Sprintf("%d@%s", sn, at)))
				case "sk":
					rec(i, st.K, fmt.Sprintf("sk:%d:%d:%d", st.H, st.Off, st.Wh), xfMHErr(serr, fmt.Sprint(sn)))
				case "tr":
					rec(i, st.K, fmt.Sprintf("tr:%d:%d", st.H, st.N), xfMHErr(serr, "ok@"+at))
				case "st":
					rec(i, st.K, fmt.Sprintf("st:%d", st.H), xfMHErr(serr, fmt.Sprintf("%d@%s", sn, at)))
				}
			}
			if s.truncatedUnder {
				res.Marks["call="+st.K+"|through-a-File-that-was-open-when-the-file-was-opened-again-with-O_TRUNC"]++
			}
			n := 0
			for _, o := range slots {
				if o != nil {
					n++
				}
			}
			res.Marks["call="+st.K+"|Files-open="+xfMCount(n)]++
			got := fmt.Sprintf("(%d, %v)", sn, serr)
			ref := fmt.Sprintf("(%d, %v)", tn, terr)
			switch st.K {
			case "r", "ra", "wt":
				// (os.File.Read answers a short read with nil and the next one with io.EOF; File.Read says io.EOF at once)
				wantErr := "ok"
				if st.K != "wt" && sn < int64(st.N) {
					wantErr = "eof"
				}
				if terr != nil && terr != io.EOF {
					res.SetupErr = fmt.Errorf("twin: %s: %v", st.K, terr)
					return
				}
				if sn != tn || !bytes.Equal(sdata, tdata) {
					fail(i, key+"/data", fmt.Sprintf("the bytes read through File #%d (mode %s) are not the bytes the served file holds there (first difference at index %d)", st.H, s.mode.Name, xfFirstDiff(sdata, tdata)),
						fmt.Sprintf("n=%d %s", tn, xfShort(tdata)), fmt.Sprintf("n=%d %s", sn, xfShort(sdata)))
					return
				}
				if xfMErr(serr) != wantErr {
					fail(i, key+"/error", "the error of a read is not nil for a full read / io.EOF for a short one", wantErr, got)
					return
				}
			case "w", "wa", "rf", "rfc":
				if terr != nil || tn != int64(st.N) {
					res.SetupErr = fmt.Errorf("twin: %s: (%d, %v)", st.K, tn, terr)
					return
				}
				if serr != nil || sn != int64(st.N) {
					fail(i, key+"/count-error", "a complete write must return (len, nil)", ref, got)
					return
				}
			case "tr":
				if terr != nil {
					res.SetupErr = fmt.Errorf("twin: Truncate: %v", terr)
					return
				}
				if serr != nil {
					fail(i, key+"/error", "File.Truncate failed", "<nil>", serr.Error())
					return
				}
			case "sk":
				if (serr == nil) != (terr == nil) || (terr == nil && sn != tn) {
					fail(i, key+"/result", "Seek does not answer what os.File.Seek answers", ref, got)
					return
				}
			case "st":
				if terr != nil {
					res.SetupErr = fmt.Errorf("twin: Stat: %v", terr)
					return
				}
				if serr != nil || sn != tn {
					fail(i, key+"/size", fmt.Sprintf("File.Stat through File #%d does not report the size of the served file", st.H), ref, got)
					return
				}
			}
			// the File offset afterwards
			to, e2 := tw.Seek(0, io.SeekCurrent)
			so, e1 := f.Seek(0, io.SeekCurrent)
			if e2 != nil {
				res.SetupErr = fmt.Errorf("twin: %v", e2)
				return
			}
			switch {
			case st.K == "wt":
				// (where a concurrent WriteTo leaves the offset is C12's: known finding F12; the two go on from one position)
				p, e := f.Seek(to, io.SeekStart)
				rec(i, st.K, fmt.Sprintf("sk:%d:%d:0", st.H, to), xfMHErr(e, fmt.Sprint(p)))
				if e != nil {
					fail(i, key+"/offset", "Seek to the end of what WriteTo delivered failed", "<nil>", e.Error())
					return
				}
			case e1 != nil || so != to:
				fail(i, key+"/offset", "the File offset after the call is not where os.File's is", to, fmt.Sprintf("%d (%v)", so, e1))
				return
			}
		}
		if mutates && !checkAll(i, key) {
			return
		}
		if res.SetupErr != nil {
			return
		}
	}
	res.Marks["Files-open-at-once(max)="+fmt.Sprint(maxOpen)]++
	// the end: every File is closed, the names hold what the twin names hold, the server holds no handle
	at := len(mc.Steps)
	for h, s := range slots {
		if s == nil {
			continue
		}
		var cerr error
		ok, pn := xfGuardK(kase, func() { cerr = s.f.Close() })
		if !ok {
			hang(at, "multi/end/close")
			return
		}
		if pn == nil {
			rec(at, "end", fmt.Sprintf("cl:%d", h), xfMHErr(cerr, "ok"))
		}
		s.tw.Close()
		slots[h] = nil
		if pn != nil || cerr != nil {
			fail(at, "multi/end/close", "Close at the end of the history failed", "<nil>", fmt.Sprint(pn, cerr))
			return
		}
	}
	if !checkAll(at, "multi/end") {
		return
	}
	if n := real.OpenHandles(); n != 0 {
		fail(at, "multi/end/handle-left", "the server still holds handles after every File was closed", 0, n)
	}
	return
}

func xfMCount(n int) string {
	if n >= 2 {
		return "2+"
	}
	return fmt.Sprint(n)
}

// xfShrinkMulti drops steps as long as a failure with the same key remains (steps that lost their File are skipped by
// the runner, so any subsequence is a history).
func xfShrinkMulti(mc xfMultiCase, f xfSeqFailure, run func(xfMultiCase) xfMultiResult) xfMultiCase {
	has := func(r xfMultiResult) bool {
		if r.SetupErr != nil || r.Hung {
			return false
		}
		for _, g := range r.Fails {
			if g.Key == f.Key {
				return true
			}
		}
		return false
	}
	if f.At+1 < len(mc.Steps) && f.At >= 0 {
		mc.Steps = append([]xfMStep(nil), mc.Steps[:f.At+1]...)
	}
	budget := 120
	for changed := true; changed && budget > 0; {
		changed = false
		for i := len(mc.Steps) - 1; i >= 0 && budget > 0; i-- {
			cand := mc
			cand.Steps = append(append([]xfMStep(nil), mc.Steps[:i]...), mc.Steps[i+1:]...)
			budget--
			if has(run(cand)) {
				mc, changed = cand, true
			}
		}
	}
	return mc
}

// xfMultiBefore names what the first name held before the history (histogram).
func xfMultiBefore(mc xfMultiCase) string {
	switch {
	case mc.FileLen < 0:
		return "nothing"
	case mc.FileLen <= 2:
		return fmt.Sprint(mc.FileLen)
	case mc.FileLen <= mc.Cfg.MP:
		return "<=mp"
	case mc.FileLen <= 2*mc.Cfg.MP:
		return "<=2mp"
	}
	return ">2mp"
}

// ---------- the same histories through the Lean model (driver op mh.run) ----------

// xfMHTrace is one history as it was run: per call the token of the driver's <steps> syntax and the token the driver
// must answer for it (Sftp/Driver/MultiHandle.lean), with the step of the history the call belongs to.
type xfMHTrace struct {
	Flen  string
	Toks  []string
	Impl  []string
	At    []int
	Kinds []string
}

func (t *xfMHTrace) add(at int, kind, tok, impl string) {
	t.Toks = append(t.Toks, tok)
	t.Impl = append(t.Impl, impl)
	t.At = append(t.At, at)
	t.Kinds = append(t.Kinds, kind)
}

func (t xfMHTrace) Line() string {
	steps := "-"
	if len(t.Toks) > 0 {
		steps = strings.Join(t.Toks, ";")
	}
	return "mh.run " + t.Flen + " " + steps
}

// xfMHKind: the call of the history after which the served file was looked at.
func xfMHKind(mc xfMultiCase, at int) string {
	if at >= 0 && at < len(mc.Steps) {
		return mc.Steps[at].K
	}
	return "end"
}

// xfMHFlags renders OPEN pflags in the driver's letters (Append is not part of the model: the servers write where the
// client says).
func xfMHFlags(w uint32) string {
	out := ""
	for _, b := range []struct {
		bit uint32
		c   string
	}{{1, "r"}, {2, "w"}, {8, "c"}, {16, "t"}, {32, "x"}} {
		if w&b.bit != 0 {
			out += b.c
		}
	}
	return out
}

// xfMHErr: the token of a call that returned err (ok: the token of a call that returned nil). SFTP v3 has one status for
// "exists", "bad flags" and "not through this handle": the model's classes other than notExist and closed are one.
func xfMHErr(err error, ok string) string {
	switch {
	case err == nil:
		return ok
	case errors.Is(err, os.ErrNotExist):
		return "notExist"
	case errors.Is(err, os.ErrClosed):
		return "closed"
	}
	return "fail"
}

func xfMHRead(n int, b []byte, err error, at string) string {
	if err != nil && err != io.EOF {
		return xfMHErr(err, "")
	}
	b = b[:max(0, min(n, len(b)))]
	eof := 0
	if err == io.EOF {
		eof = 1
	}
	return fmt.Sprintf("%d:%d:%d@%s", n, eof, xfHash(b), at)
}

// xfMHNorm brings a token of the driver to what can be told apart on the client side of SFTP v3.
func xfMHNorm(tok string) string {
	switch tok {
	case "exist", "invalid", "access", "negative":
		return "fail"
	}
	return tok
}

// xfMHSame compares a driver token with the implementation's; `@*` on the implementation's side: the File offset was not
// asked / is another property's.
func xfMHSame(model, impl string) bool {
	model = xfMHNorm(model)
	if strings.HasSuffix(impl, "@*") {
		if j := strings.LastIndexByte(model, '@'); j >= 0 {
			model = model[:j] + "@*"
		}
	}
	return model == impl
}

type xfMHItem struct {
	mc xfMultiCase
	tr xfMHTrace
}

type xfMHCollector struct {
	mu    sync.Mutex
	seen  map[string]bool
	items []xfMHItem
}

var xfMHModel = &xfMHCollector{}

func (m *xfMHCollector) add(mc xfMultiCase, tr xfMHTrace) {
	if len(tr.Toks) == 0 {
		return
	}
	k := tr.Line() + "\x00" + strings.Join(tr.Impl, ";")
	m.mu.Lock()
	defer m.mu.Unlock()
	if m.seen == nil {
		m.seen = map[string]bool{}
	}
	if m.seen[k] {
		return
	}
	m.seen[k] = true
	m.items = append(m.items, xfMHItem{mc: mc, tr: tr})
}

// xfMHCompare sends every history that was run (shrunk variants of failing ones included) to the driver in ONE call and
// reports the first difference of each; of the histories that differ under one key the shortest ones are written out.
func xfMHCompare(c *lib.Ctx) {
	m := xfMHModel
	m.mu.Lock()
	items := m.items
	m.items, m.seen = nil, nil
	m.mu.Unlock()
	if len(items) == 0 {
		return
	}
	if c.ModelPath == "" {
		c.R.Skip("no --model given: multi-handle histories not compared with mh.run")
		return
	}
	const probe, want = "mh.run - o:0:f:rwc;w:0:3:1;o:1:f:wt;wa:1:1:9:2;ra:0:4:0;st:0", "ok;3@3;ok;1@0;3:1:209539@3;3@3"
	sort.SliceStable(items, func(i, j int) bool { return len(items[i].tr.Toks) < len(items[j].tr.Toks) })
	lines := []string{probe}
	for _, it := range items {
		lines = append(lines, it.tr.Line())
	}
	before := c.R.ModelCases
	out, err := c.Model(lines)
	if err != nil {
		c.R.Fail(lib.Failure{Kind: "tie", Key: "c01/model-driver", What: "mh.run: " + err.Error()})
		return
	}
	c.R.ModelCases = before + len(items)
	if out[0] != want {
		if out[0] == "bad-op" {
			c.R.Skip("Lean driver op mh.run does not exist in this build of sftpmodel: %d multi-handle histories not compared with the model", len(items))
		} else {
			c.R.Skip("Lean driver op mh.run answers %q for %q where the harness expects %q: format not understood, multi-handle histories not compared with the model", out[0], probe, want)
		}
		c.R.ModelCases = before
		return
	}
	calls, differ := 0, 0
	for i, it := range items {
		mod := strings.Split(out[i+1], ";")
		tr := it.tr
		calls += len(tr.Toks)
		if len(mod) != len(tr.Toks) {
			c.R.Fail(lib.Failure{Kind: "tie", Key: "c01/model-driver", What: fmt.Sprintf("mh.run answered %d tokens for %d calls (%s)", len(mod), len(tr.Toks), out[i+1]), Input: tr.Line()})
			continue
		}
		for j := range mod {
			if xfMHSame(mod[j], tr.Impl[j]) {
				continue
			}
			differ++
			small := it.mc
			if tr.At[j]+1 < len(small.Steps) {
				small.Steps = append([]xfMStep(nil), small.Steps[:tr.At[j]+1]...)
			}
			what := fmt.Sprintf("call %s (step #%d of the multi-handle history, %s) answers %s where the model of the served file system (mh.run: names -> inodes -> bytes, handles hold inodes) answers %s; the calls up to there: %s",
				tr.Toks[j], tr.At[j], it.mc.Srv, tr.Impl[j], mod[j], "mh.run "+tr.Flen+" "+strings.Join(tr.Toks[:j+1], ";"))
			c.R.Fail(lib.Failure{Kind: "correspondence", Key: "multi/model/" + tr.Kinds[j], What: what, Input: small,
				Expected: strings.Join(mod[:j+1], ";"), Actual: strings.Join(tr.Impl[:j+1], ";")})
			break
		}
	}
	c.R.Note("multi-handle histories: %d histories (%d calls and looks at the served file) were also run through the Lean driver op mh.run (inode specification, Props/C01Multi.lean) in one call of the driver; %d differ", len(items), calls, differ)
}
