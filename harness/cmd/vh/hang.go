package main

// Hang-budget wrappers around the peers API (see lib/budget.go).  Every wait for the code under test takes its
// deadline from the run's hang budget and charges it when the deadline passes, so that a defect which makes calls
// hang costs a bounded amount of time and never the findings.

import (
	"time"

	"verifharness/lib"
	"verifharness/peers"
	"verifharness/wire"
)

const hangDeadline = 20 * time.Second // hangs are declared after this long only (DESIGN 8a), while the hang budget lasts

// hRecv is srv.Recv with the nominal hang deadline d taken from the budget of case k (nil: unclassified).
func hRecv(s *peers.Srv, k *lib.Case, d time.Duration) (wire.Pkt, error) {
	w := k.Wait(d)
	p, err := s.Recv(w)
	if err == peers.ErrTimeout {
		k.Spend(w)
	}
	return p, err
}

// hSend is srv.Send; peers waits a fixed 20 s for a server that does not read, which is charged afterwards.
func hSend(s *peers.Srv, k *lib.Case, b []byte) error {
	err := s.Send(b)
	if err == peers.ErrTimeout {
		k.Spend(hangDeadline)
	}
	return err
}

// hCall is srv.Call: one request, one response.
func hCall(s *peers.Srv, k *lib.Case, frame []byte) (wire.Pkt, error) {
	if err := hSend(s, k, frame); err != nil {
		return wire.Pkt{}, err
	}
	return hRecv(s, k, hangDeadline)
}

// hHandshake is srv.Handshake.
func hHandshake(s *peers.Srv, k *lib.Case) (wire.Pkt, error) {
	if err := hSend(s, k, wire.Frame(wire.Init, wire.B{}.U32(3))); err != nil {
		return wire.Pkt{}, err
	}
	return hRecv(s, k, 10*time.Second)
}

// hWaitSrv is srv.Wait (Serve returns) with the nominal deadline d.
func hWaitSrv(s *peers.Srv, k *lib.Case, d time.Duration) (error, bool) {
	w := k.Wait(d)
	err, ok := s.Wait(w)
	if !ok {
		k.Spend(w)
	}
	return err, ok
}

// hNext is ScriptedServer.Next with the nominal deadline d.
func hNext(s *peers.ScriptedServer, k *lib.Case, d time.Duration) (wire.Pkt, error) {
	w := k.Wait(d)
	p, err := s.Next(w)
	if err == peers.ErrTimeout {
		k.Spend(w)
	}
	return p, err
}

// hCleanupSrv waits (nominally d) for Serve to return after a case — a clean-up wait, not an oracle: it has a budget
// of its own and stops no class (lib.WaitCleanup).
func hCleanupSrv(s *peers.Srv, class string, d time.Duration) (error, bool) {
	w := lib.CleanupWait(d)
	err, ok := s.Wait(w)
	if !ok {
		lib.SpendCleanup(class, w)
	}
	return err, ok
}
