package main

// C16, family "kinds": "… with the attributes the server reported" for entries of EVERY FILE KIND.
//
// The listings of c16.go hold regular files (and directories for Walk).  Here every listed directory holds one
// entry per file kind, and every os.FileInfo that reaches the caller — from ReadDir, ReadDirContext, from Walk
// (Walker.Stat of every step) — is checked accessor by accessor against what the server reported:
//
//	IsDir() == Mode().IsDir()            the two ways of asking the same entry the same question
//	Mode()  == the mode served           type, permission and setuid/setgid/sticky bits
//	Size()  == the size served
//
// and the consumers that branch on IsDir must act on directories only: Walk visits the root, every entry once and
// the children of the real directories, nothing else and without errors; Glob(dir/*/*) returns the children of the
// real directories; no OPENDIR / List request is made for an entry that is not a directory.
//
// Three servers:
//
//	rs    a real request server whose lister returns os.FileInfo values of every os type (regular, directory,
//	      symbolic link, named pipe, socket, device, character device)
//	wire  a scripted peer that answers READDIR with NAME replies carrying ANY mode word: all 16 type nibbles
//	      (the 7 that POSIX defines and the 9 it does not) — what a server other than this package's may send
//	os    the real os-backed server over a scratch directory holding a regular file, a directory, a symbolic
//	      link, a fifo, a socket made by mknod(2) and one left behind by a unix listener, a character and a block
//	      device node (device number 0:0, which no driver answers to) — as far as the host lets us create them
//
// each with a few permission / special-bit words (thorough: 64 of the 4096, seed-dependent) laid over every entry.

import (
	"context"
	"encoding/json"
	"fmt"
	"net"
	"os"
	"path"
	"path/filepath"
	"sort"
	"strings"
	"sync"
	"syscall"
	"time"

	"github.com/pkg/sftp"

	"verifharness/lib"
	"verifharness/peers"
	"verifharness/wire"
)

const c16KFamily = "kinds"

type c16KCase struct {
	Family string `json:"family"` // "kinds"
	Server string `json:"server"` // rs | wire | os
	API    string `json:"api"`    // readdir | ctx | walk | glob
	Perm   uint32 `json:"perm"`   // the 12 permission / setuid / setgid / sticky bits (POSIX form) laid over every entry
}

func (cs c16KCase) key() string { b, _ := json.Marshal(cs); return string(b) }

// c16KEnt is one entry of the listed directory as the server reports it.
type c16KEnt struct {
	name string
	word uint32      // wire: the mode word sent
	mode os.FileMode // what Mode() of the returned FileInfo must be (valid == true)
	// valid is false for the mode words whose type nibble POSIX does not define (wire only): os.FileMode cannot
	// express them; the entry must not be a directory, and its permission and special bits must survive
	valid bool
	dir   bool // a directory: it has the children c0, c1
	size  int64
}

func c16KPermMode(perm uint32) os.FileMode {
	m := os.FileMode(perm & 0o777)
	if perm&0o4000 != 0 {
		m |= os.ModeSetuid
	}
	if perm&0o2000 != 0 {
		m |= os.ModeSetgid
	}
	if perm&0o1000 != 0 {
		m |= os.ModeSticky
	}
	return m
}

var c16KOsTypes = []struct {
	name string
	typ  os.FileMode
}{
	{"regular", 0}, {"dir", os.ModeDir}, {"symlink", os.ModeSymlink}, {"fifo", os.ModeNamedPipe}, {"socket", os.ModeSocket},
	{"blockdev", os.ModeDevice}, {"chardev", os.ModeDevice | os.ModeCharDevice},
}

// c16KWireType: the os.FileMode type bits of a POSIX type nibble, written from <sys/stat.h> and the documentation
// of os.FileMode; ok is false for the nine nibbles POSIX leaves undefined.
func c16KWireType(word uint32) (t os.FileMode, ok bool) {
	switch word & 0o170000 {
	case 0o100000:
		return 0, true
	case 0o040000:
		return os.ModeDir, true
	case 0o120000:
		return os.ModeSymlink, true
	case 0o010000:
		return os.ModeNamedPipe, true
	case 0o140000:
		return os.ModeSocket, true
	case 0o060000:
		return os.ModeDevice, true
	case 0o020000:
		return os.ModeDevice | os.ModeCharDevice, true
	}
	return 0, false
}

// c16KScripted: the entries a scripted server (rs, wire) reports under the case.
func c16KScripted(cs c16KCase) []c16KEnt {
	var out []c16KEnt
	switch cs.Server {
	case "rs":
		for i, t := range c16KOsTypes {
			out = append(out, c16KEnt{name: "k-" + t.name, mode: t.typ | c16KPermMode(cs.Perm), valid: true, dir: t.typ == os.ModeDir, size: int64(10 + i)})
		}
		// a second directory and a second socket, so that directories and look-alikes are not unique
		out = append(out, c16KEnt{name: "k2-dir", mode: os.ModeDir | 0o700, valid: true, dir: true, size: 30},
			c16KEnt{name: "k2-socket", mode: os.ModeSocket | 0o777, valid: true, size: 31})
	case "wire":
		for n := uint32(0); n < 16; n++ {
			w := n<<12 | cs.Perm&0o7777
			t, ok := c16KWireType(w)
			out = append(out, c16KEnt{name: fmt.Sprintf("n%x", n), word: w, mode: t | c16KPermMode(cs.Perm), valid: ok, dir: ok && t == os.ModeDir, size: int64(100 + n)})
		}
	}
	return out
}

var c16KKids = []string{"c0", "c1"}

// ---------------------------------------------------------------------------------------------
// what a consumer saw

type c16KSeen struct {
	path string
	fi   os.FileInfo
	err  string
}

type c16KResult struct {
	seen []c16KSeen // readdir, ctx: one per returned entry (path = name); walk: one per step; glob: one per match (fi nil)
	err  error
	hang bool
}

func c16KConsume(cl *sftp.Client, api, arg string) c16KResult {
	ch := make(chan c16KResult, 1)
	go func() {
		var r c16KResult
		switch api {
		case "readdir", "ctx":
			var fis []os.FileInfo
			if api == "ctx" {
				fis, r.err = cl.ReadDirContext(context.Background(), arg)
			} else {
				fis, r.err = cl.ReadDir(arg)
			}
			for _, fi := range fis {
				r.seen = append(r.seen, c16KSeen{path: fi.Name(), fi: fi})
			}
		case "walk":
			w := cl.Walk(arg)
			for steps := 0; w.Step() && steps < 100000; steps++ {
				s := c16KSeen{path: w.Path(), fi: w.Stat()}
				if w.Err() != nil {
					s.err = w.Err().Error()
				}
				r.seen = append(r.seen, s)
			}
		case "glob":
			var m []string
			m, r.err = cl.Glob(arg + "/*/*")
			for _, p := range m {
				r.seen = append(r.seen, c16KSeen{path: p})
			}
		}
		ch <- r
	}()
	r, ok := lib.WaitHang("c16/kinds/"+api, 20*time.Second, ch)
	if !ok {
		return c16KResult{hang: true}
	}
	return r
}

// ---------------------------------------------------------------------------------------------
// rs: a request server whose lister serves the entries

type c16KInfo struct {
	name string
	size int64
	mode os.FileMode
}

func (f c16KInfo) Name() string       { return f.name }
func (f c16KInfo) Size() int64        { return f.size }
func (f c16KInfo) Mode() os.FileMode  { return f.mode }
func (f c16KInfo) ModTime() time.Time { return time.Unix(1_300_000_000, 0) }
func (f c16KInfo) IsDir() bool        { return f.mode.IsDir() }
func (f c16KInfo) Sys() any           { return nil }

type c16KFS struct {
	root   string
	byPath map[string]c16KInfo // every path of the tree, the root included
	kids   map[string][]os.FileInfo
	mu     sync.Mutex
	opened []string // paths a List was asked for
}

func c16KNewFS(root string, ents []c16KEnt) *c16KFS {
	h := &c16KFS{root: root, byPath: map[string]c16KInfo{root: {name: path.Base(root), mode: os.ModeDir | 0o755}}, kids: map[string][]os.FileInfo{}}
	for _, e := range ents {
		p := path.Join(root, e.name)
		fi := c16KInfo{name: e.name, size: e.size, mode: e.mode}
		h.byPath[p] = fi
		h.kids[root] = append(h.kids[root], fi)
		if e.dir {
			h.kids[p] = []os.FileInfo{}
			for j, k := range c16KKids {
				c := c16KInfo{name: k, size: int64(j), mode: 0o644}
				h.byPath[path.Join(p, k)] = c
				h.kids[p] = append(h.kids[p], c)
			}
		}
	}
	return h
}

func (h *c16KFS) Filelist(r *sftp.Request) (sftp.ListerAt, error) {
	switch r.Method {
	case "List":
		h.mu.Lock()
		h.opened = append(h.opened, r.Filepath)
		h.mu.Unlock()
		if k, ok := h.kids[r.Filepath]; ok {
			return c16Lister{ents: k, calls: new(int64)}, nil
		}
		if _, ok := h.byPath[r.Filepath]; ok {
			return nil, syscall.ENOTDIR
		}
	case "Stat", "Lstat":
		if fi, ok := h.byPath[r.Filepath]; ok {
			return c16Lister{ents: []os.FileInfo{fi}, calls: new(int64)}, nil
		}
	}
	return nil, os.ErrNotExist
}

// ---------------------------------------------------------------------------------------------
// wire: a scripted peer that sends any mode word

type c16KWire struct {
	root   string
	ents   []c16KEnt
	mu     sync.Mutex
	opened []string
	pos    map[string]int // handle -> replies given
}

func (s *c16KWire) attrs(word uint32, size int64) wire.St {
	return wire.St{Flags: wire.ASize | wire.AUIDGID | wire.APerm | wire.ATime, Size: uint64(size), UID: 1, GID: 2, Perm: word, Atime: 1_300_000_000, Mtime: 1_300_000_000}
}

// lookup returns the attributes of a path of the scripted tree and whether it is a directory.
func (s *c16KWire) lookup(p string) (st wire.St, dir, ok bool) {
	if p == s.root {
		return s.attrs(0o040755, 4096), true, true
	}
	for _, e := range s.ents {
		ep := path.Join(s.root, e.name)
		if p == ep {
			return s.attrs(e.word, e.size), e.dir, true
		}
		if e.dir {
			for j, k := range c16KKids {
				if p == path.Join(ep, k) {
					return s.attrs(0o100644, int64(j)), false, true
				}
			}
		}
	}
	return wire.St{}, false, false
}

func (s *c16KWire) answer(p wire.Pkt) []byte {
	d := wire.D{B: p.Body}
	id := d.U32()
	arg := d.Str()
	if d.Err != nil {
		return wire.StatusFrame(id, wire.BadMessage, "short request")
	}
	s.mu.Lock()
	defer s.mu.Unlock()
	switch p.Typ {
	case wire.Opendir:
		s.opened = append(s.opened, arg)
		_, dir, ok := s.lookup(arg)
		switch {
		case !ok:
			return wire.StatusFrame(id, wire.NoSuchFile, "no such file")
		case !dir:
			return wire.StatusFrame(id, wire.Failure, "not a directory")
		}
		return wire.HandleFrame(id, "h:"+arg)
	case wire.Readdir:
		if !strings.HasPrefix(arg, "h:") {
			return wire.StatusFrame(id, wire.Failure, "bad handle")
		}
		dir := arg[2:]
		s.pos[arg]++
		if s.pos[arg] > 1 {
			return wire.StatusFrame(id, wire.EOF, "EOF")
		}
		var out []wire.NameEnt
		if dir == s.root {
			for _, e := range s.ents {
				out = append(out, wire.NameEnt{Name: e.name, Long: "long " + e.name, A: s.attrs(e.word, e.size)})
			}
		} else {
			for j, k := range c16KKids {
				out = append(out, wire.NameEnt{Name: k, Long: "long " + k, A: s.attrs(0o100644, int64(j))})
			}
		}
		return wire.NameFrame(id, out)
	case wire.Close:
		delete(s.pos, arg)
		return wire.StatusFrame(id, wire.OK, "")
	case wire.Stat, wire.Lstat:
		st, _, ok := s.lookup(arg)
		if !ok {
			return wire.StatusFrame(id, wire.NoSuchFile, "no such file")
		}
		return wire.AttrsFrame(id, st)
	}
	return wire.StatusFrame(id, wire.OpUnsupported, "not scripted")
}

// ---------------------------------------------------------------------------------------------
// os: a real directory with an entry of every kind the host lets us create

// c16KMakeReal builds the directory and returns its entries as package os reports them.
func c16KMakeReal(dir string, perm uint32, r *lib.Result) ([]c16KEnt, error) {
	if err := os.Mkdir(dir, 0o755); err != nil {
		return nil, err
	}
	var names []string
	mk := func(name string, f func(p string) error, chmod bool) {
		p := filepath.Join(dir, name)
		if err := f(p); err != nil {
			r.Hist("kinds/os/cannot-create/" + name)
			os.Remove(p)
			return
		}
		if chmod {
			if err := syscall.Chmod(p, perm&0o7777); err != nil {
				r.Hist("kinds/os/cannot-chmod/" + name)
			}
		}
		names = append(names, name)
	}
	mk("k-regular", func(p string) error { return os.WriteFile(p, []byte("abc"), 0o600) }, true)
	mk("k-dir", func(p string) error {
		if err := os.Mkdir(p, 0o700); err != nil {
			return err
		}
		for _, k := range c16KKids {
			if err := os.WriteFile(filepath.Join(p, k), nil, 0o644); err != nil {
				return err
			}
		}
		return nil
	}, false) // the directory keeps rwx for its owner: Walk and Glob must be able to list it whoever runs the check
	mk("k-symlink", func(p string) error { return os.Symlink("k-regular", p) }, false)
	mk("k-fifo", func(p string) error { return syscall.Mknod(p, syscall.S_IFIFO|0o600, 0) }, true)
	mk("k-socket", func(p string) error { return syscall.Mknod(p, syscall.S_IFSOCK|0o600, 0) }, true)
	mk("k-usock", func(p string) error { // the socket a daemon leaves behind
		l, err := net.ListenUnix("unix", &net.UnixAddr{Name: p, Net: "unix"})
		if err != nil {
			return err
		}
		l.SetUnlinkOnClose(false)
		return l.Close()
	}, true)
	mk("k-chardev", func(p string) error { return syscall.Mknod(p, syscall.S_IFCHR|0o600, 0) }, true)
	mk("k-blockdev", func(p string) error { return syscall.Mknod(p, syscall.S_IFBLK|0o600, 0) }, true)
	var out []c16KEnt
	for _, n := range names {
		fi, err := os.Lstat(filepath.Join(dir, n))
		if err != nil {
			return nil, err
		}
		out = append(out, c16KEnt{name: n, mode: fi.Mode(), valid: true, dir: fi.IsDir(), size: fi.Size()})
	}
	return out, nil
}

// ---------------------------------------------------------------------------------------------
// the oracle

type c16KVerdict struct {
	key, what        string
	expected, actual any
}

func c16KDescribe(fi os.FileInfo) string {
	return fmt.Sprintf("name=%q IsDir()=%v Mode()=%v Mode().IsDir()=%v Mode().IsRegular()=%v Mode().Type()=%v Size()=%d", fi.Name(), fi.IsDir(), fi.Mode(), fi.Mode().IsDir(), fi.Mode().IsRegular(), fi.Mode().Type(), fi.Size())
}

func c16KServed(e c16KEnt) string {
	if e.valid {
		return fmt.Sprintf("name=%q mode=%v (directory: %v) size=%d", e.name, e.mode, e.dir, e.size)
	}
	return fmt.Sprintf("name=%q mode word %#o (type nibble %#x, not a POSIX type; not a directory) size=%d", e.name, e.word, e.word>>12&0xF, e.size)
}

// c16KJudge checks what the consumer saw against the entries served.  opened: the directories OPENDIR / List was
// asked for (nil: not observable); root: the directory listed, as the client named it.
func c16KJudge(cs c16KCase, ents []c16KEnt, root string, res c16KResult, opened []string) []c16KVerdict {
	pre := "kinds/" + cs.Server + "/"
	if res.hang {
		return []c16KVerdict{{key: pre + "listing-does-not-terminate/" + cs.API, what: cs.API + " over a directory holding entries of every kind did not return within 20 s"}}
	}
	var out []c16KVerdict
	byPath := map[string]c16KEnt{}
	dirs := map[string]bool{root: true}
	var wantWalk, wantGlob []string
	wantWalk = append(wantWalk, root)
	for _, e := range ents {
		p := path.Join(root, e.name)
		byPath[p] = e
		byPath[e.name] = e
		wantWalk = append(wantWalk, p)
		if e.dir {
			dirs[p] = true
			for _, k := range c16KKids {
				wantWalk = append(wantWalk, path.Join(p, k))
				wantGlob = append(wantGlob, path.Join(p, k))
			}
		}
	}
	// every FileInfo handed to the caller
	reported := map[string]bool{}
	for _, s := range res.seen {
		if s.fi == nil {
			continue
		}
		e, ok := byPath[s.path]
		if !ok {
			continue // the root, children of the directories (Walk): regular bookkeeping entries
		}
		fi := s.fi
		if fi.IsDir() != fi.Mode().IsDir() && !reported["isdir"] {
			reported["isdir"] = true
			out = append(out, c16KVerdict{key: pre + "isdir-disagrees-with-mode", what: "an entry returned by " + cs.API + " answers IsDir() and Mode().IsDir() differently",
				expected: c16KServed(e), actual: c16KDescribe(fi)})
		}
		var bad string
		switch {
		case e.valid && fi.Mode() != e.mode:
			bad = "Mode() is not the mode the server reported"
		case !e.valid && (fi.Mode().IsDir() || fi.IsDir()):
			bad = "a mode word that is not a directory's came out as a directory"
		case !e.valid && fi.Mode()&(os.ModePerm|os.ModeSetuid|os.ModeSetgid|os.ModeSticky) != e.mode&(os.ModePerm|os.ModeSetuid|os.ModeSetgid|os.ModeSticky):
			bad = "permission / special bits of the mode word lost"
		case !e.dir && fi.Size() != e.size:
			bad = "Size() is not the size the server reported"
		}
		if bad != "" && !reported["attrs"] {
			reported["attrs"] = true
			out = append(out, c16KVerdict{key: pre + "entry-not-as-served", what: "an entry returned by " + cs.API + ": " + bad, expected: c16KServed(e), actual: c16KDescribe(fi)})
		}
	}
	// the set of things returned / visited
	var got []string
	for _, s := range res.seen {
		got = append(got, s.path)
	}
	sort.Strings(got)
	var want []string
	switch cs.API {
	case "readdir", "ctx":
		for _, e := range ents {
			want = append(want, e.name)
		}
	case "walk":
		want = wantWalk
	case "glob":
		want = wantGlob
	}
	sort.Strings(want)
	var errs []string
	if res.err != nil {
		errs = append(errs, "returned error: "+res.err.Error())
	}
	for _, s := range res.seen {
		if s.err != "" {
			errs = append(errs, fmt.Sprintf("step %q: %s", s.path, s.err))
		}
	}
	if strings.Join(got, "\x00") != strings.Join(want, "\x00") || len(errs) > 0 {
		out = append(out, c16KVerdict{key: pre + "listing-not-exact/" + cs.API, what: cs.API + " over a directory holding entries of every kind did not return every entry exactly once, without errors (directories descended into, nothing else)",
			expected: want, actual: map[string]any{"paths": got, "errors": errs}})
	}
	// directories opened
	var wrong []string
	for _, p := range opened {
		if !dirs[p] {
			wrong = append(wrong, p)
		}
	}
	if len(wrong) > 0 {
		out = append(out, c16KVerdict{key: pre + "opendir-of-a-non-directory/" + cs.API, what: cs.API + " asked the server to list entries the server had reported as something else than a directory",
			expected: "OPENDIR for the root and the entries served with a directory's mode only", actual: wrong})
	}
	return out
}

// ---------------------------------------------------------------------------------------------
// running one case

// c16KRun runs the case; osRoot is the scratch directory of the os-backed cases ("" for the others).
func c16KRun(c *lib.Ctx, cs c16KCase, osRoot string) {
	r := c.R
	fail := func(vs []c16KVerdict) {
		for _, v := range vs {
			r.Fail(lib.Failure{Kind: "oracle", Key: v.key, What: v.what, Input: cs, Expected: v.expected, Actual: v.actual})
		}
	}
	r.Hist("kinds/" + cs.Server + "/" + cs.API)
	switch cs.Server {
	case "rs":
		ents := c16KScripted(cs)
		h := c16KNewFS("/d", ents)
		p, err := vhStartRS(sftp.Handlers{FileList: h}, nil)
		if err != nil {
			r.Fail(lib.Failure{Kind: "tie", Key: "kinds/rs-start", What: err.Error(), Input: cs})
			return
		}
		res := c16KConsume(p.Client, cs.API, "/d")
		p.Close()
		h.mu.Lock()
		opened := append([]string(nil), h.opened...)
		h.mu.Unlock()
		fail(c16KJudge(cs, ents, "/d", res, opened))
		for _, e := range ents {
			r.Hist("kinds/rs/type/" + e.mode.Type().String())
		}
	case "wire":
		ents := c16KScripted(cs)
		s := &c16KWire{root: "/d", ents: ents, pos: map[string]int{}}
		cl, ss, err := peers.NewClient(wire.VersionFrame(3, nil))
		if err != nil {
			r.Fail(lib.Failure{Kind: "tie", Key: "kinds/wire-start", What: err.Error(), Input: cs})
			return
		}
		ss.Serve(s.answer)
		res := c16KConsume(cl, cs.API, "/d")
		fin := make(chan struct{})
		go func() { ss.CutOutput(); cl.Close(); ss.Shutdown(); close(fin) }()
		lib.WaitCleanup("c16/kinds/close", 10*time.Second, fin)
		s.mu.Lock()
		opened := append([]string(nil), s.opened...)
		s.mu.Unlock()
		fail(c16KJudge(cs, ents, "/d", res, opened))
		for _, e := range ents {
			r.Hist(fmt.Sprintf("kinds/wire/type-nibble-%x", e.word>>12&0xF))
		}
	case "os":
		dir := filepath.Join(osRoot, fmt.Sprintf("p%04o-%s", cs.Perm, cs.API))
		ents, err := c16KMakeReal(dir, cs.Perm, r)
		if err != nil {
			r.Fail(lib.Failure{Kind: "tie", Key: "kinds/os-mkdir", What: err.Error(), Input: cs})
			return
		}
		defer os.RemoveAll(dir)
		if ok, why := lib.InScratch("", dir); !ok {
			r.Hist(lib.NotRunBucket)
			r.Note("kinds: %s", why)
			return
		}
		p, err := vhStartOS(nil)
		if err != nil {
			r.Fail(lib.Failure{Kind: "tie", Key: "kinds/os-start", What: err.Error(), Input: cs})
			return
		}
		res := c16KConsume(p.Client, cs.API, dir)
		p.Close()
		fail(c16KJudge(cs, ents, dir, res, nil))
		for _, e := range ents {
			r.Hist("kinds/os/entry/" + e.name)
		}
	}
	r.Case(cs.key(), true)
}

var c16KAPIs = []string{"readdir", "ctx", "walk", "glob"}

const c16KRule = " FAMILY kinds (c16_kinds.go): directories holding one entry of EVERY FILE KIND — request server: lister entries of the 7 os types (+ a second directory and socket); scripted peer: NAME replies with all 16 type nibbles; os-backed server: real regular file, directory, symbolic link, fifo, socket (mknod and unix listener), character and block device node — each under permission/special words {0, 0644, 0755, 0777, 07777, 04711, 02070, 01007} (thorough: + 64 seed-dependent of the 4096) x ReadDir, ReadDirContext, Walk, Glob(dir/*/*): every returned FileInfo IsDir() == Mode().IsDir(), Mode() and Size() as served; Walk / Glob visit exactly the entries and the children of the real directories, without errors; no OPENDIR for a non-directory."

func checkC16Kinds(c *lib.Ctx, only *c16KCase) {
	r := c.R
	var cases []c16KCase
	if only != nil {
		cases = []c16KCase{*only}
	} else {
		perms := []uint32{0, 0o644, 0o755, 0o777, 0o7777, 0o4711, 0o2070, 0o1007}
		if c.Tier == "thorough" {
			for i := 0; i < 64; i++ {
				perms = append(perms, uint32(c.Rand.Intn(4096)))
			}
		}
		for _, srv := range []string{"rs", "wire", "os"} {
			for _, perm := range perms {
				for _, api := range c16KAPIs {
					cases = append(cases, c16KCase{Family: c16KFamily, Server: srv, API: api, Perm: perm})
				}
			}
		}
	}
	osRoot := ""
	for _, cs := range cases {
		if c.Stop("c16/kinds/" + cs.API) {
			continue
		}
		if cs.Server == "os" && osRoot == "" {
			d, err := lib.MkScratch("vh-c16k-")
			if err != nil {
				r.Fail(lib.Failure{Kind: "tie", Key: "tmpdir", What: err.Error()})
				return
			}
			if rp, err := filepath.EvalSymlinks(d); err == nil {
				d = rp
			}
			osRoot = d
			defer os.RemoveAll(d)
		}
		c16KRun(c, cs, osRoot)
	}
}
