package main

// C19, extended requests against the Lean model M-ExtDispatch (driver op `c19.ext`, lean/Sftp/Driver/C19Ext.lean):
// request-server handlers with and without the optional FileCmd interfaces, the mapping of an observed reply to the
// model's outcome classes, and the batched comparison.

import (
	"fmt"
	"io"
	"sort"
	"strings"
	"sync"

	"github.com/pkg/sftp"

	"verifharness/lib"
	"verifharness/wire"
)

// optional interfaces of Handlers.FileCmd, by their Go names (the model's `rs+I1+I2` dimension)
var c19RSIfaceNames = []string{"PosixRenameFileCmder", "StatVFSFileCmder"}

// c19CallRec records which FileCmd methods a request reached.
type c19CallRec struct {
	mu    sync.Mutex
	calls []string
}

func (c *c19CallRec) note(s string) {
	c.mu.Lock()
	c.calls = append(c.calls, s)
	c.mu.Unlock()
}

func (c *c19CallRec) take() []string {
	if c == nil {
		return nil
	}
	c.mu.Lock()
	defer c.mu.Unlock()
	out := c.calls
	c.calls = nil
	return out
}

// c19Cmd implements FileCmder only; the three types below add the optional interfaces by embedding.
type c19Cmd struct {
	in  sftp.FileCmder
	rec *c19CallRec
}

func (h *c19Cmd) Filecmd(r *sftp.Request) error {
	h.rec.note("Filecmd:" + r.Method)
	return h.in.Filecmd(r)
}
func (h *c19Cmd) posixRename(r *sftp.Request) error {
	h.rec.note("PosixRename")
	return h.in.(sftp.PosixRenameFileCmder).PosixRename(r)
}
func (h *c19Cmd) statVFS(r *sftp.Request) (*sftp.StatVFS, error) {
	h.rec.note("StatVFS")
	return h.in.(sftp.StatVFSFileCmder).StatVFS(r)
}

type c19CmdPR struct{ *c19Cmd }

func (h c19CmdPR) PosixRename(r *sftp.Request) error { return h.posixRename(r) }

type c19CmdSV struct{ *c19Cmd }

func (h c19CmdSV) StatVFS(r *sftp.Request) (*sftp.StatVFS, error) { return h.statVFS(r) }

type c19CmdBoth struct{ *c19Cmd }

func (h c19CmdBoth) PosixRename(r *sftp.Request) error              { return h.posixRename(r) }
func (h c19CmdBoth) StatVFS(r *sftp.Request) (*sftp.StatVFS, error) { return h.statVFS(r) }

func c19WrapCmd(in sftp.FileCmder, ifaces []string, rec *c19CallRec) sftp.FileCmder {
	base := &c19Cmd{in: in, rec: rec}
	pr, sv := c19Has(ifaces, "PosixRenameFileCmder"), c19Has(ifaces, "StatVFSFileCmder")
	switch {
	case pr && sv:
		return c19CmdBoth{base}
	case pr:
		return c19CmdPR{base}
	case sv:
		return c19CmdSV{base}
	}
	return base
}

// c19ObsKey is one question to the model: c19.ext <srv> <ro> <name> <bodyOk>.
type c19ObsKey struct {
	Srv     string
	RO      bool
	NameHex string
	BodyOK  bool
}

func (k c19ObsKey) line() string {
	b := func(x bool) string {
		if x {
			return "1"
		}
		return "0"
	}
	n := k.NameHex
	if n == "" {
		n = "-"
	}
	return "c19.ext " + k.Srv + " " + b(k.RO) + " " + n + " " + b(k.BodyOK)
}

type c19Ob struct {
	Key c19ObsKey
	Got string
}

func (se *c19Sess) modelSrv() string {
	if se.kind == "os" {
		return "os"
	}
	return strings.Join(append([]string{"rs"}, se.ifaces...), "+")
}

// the harness's own table of what a served extension of the os-backed server does (checked on the tree by judge)
var c19OSKind = map[string]string{
	"hardlink@openssh.com":     "os.Link",
	"posix-rename@openssh.com": "os.Rename",
	"statvfs@openssh.com":      "getStatVFSForPath",
}

// observe maps a reply to the model's outcome classes. `clean` = the direct oracle had no complaint (for a served
// extension: the effect was verified on the tree); calls = FileCmd methods the request server's handler saw.
// "served:*" = something ran whose kind this observation cannot tell (an error status of the file system).
func (se *c19Sess) observe(class, name string, p wire.Pkt, err error, clean bool, calls []string) string {
	if err == io.EOF {
		return "ends"
	}
	if err != nil {
		return "no-reply:" + err.Error()
	}
	code, isStatus := c19Code(p)
	if isStatus {
		switch code {
		case wire.OpUnsupported:
			if len(calls) > 0 {
				return "unsupported-after:" + strings.Join(calls, ",")
			}
			return "unsupported"
		case wire.PermissionDenied:
			if len(calls) == 0 {
				return "denied"
			}
		case wire.BadMessage:
			if len(calls) == 0 {
				return "bad"
			}
		}
	}
	if se.kind == "rs" {
		if len(calls) > 0 {
			return "served:" + strings.Join(calls, ",")
		}
		return "served:-"
	}
	if class != "known" {
		// the os-backed server answered something else than a refusal to a request no handler should see
		return "other:" + c19Show(p, nil)
	}
	if clean && (p.Typ == wire.ExtendedReply || (isStatus && code == wire.OK)) {
		return "served:" + c19OSKind[name]
	}
	return "served:*"
}

func c19ObsClass(got string) string {
	if i := strings.IndexByte(got, ':'); i >= 0 {
		return got[:i]
	}
	return got
}

func (s *c19Sink) Obs(k c19ObsKey, got string, in c19ExtCase) {
	if s.obs == nil {
		s.obs = map[c19ObsKey]map[string]c19ExtCase{}
		s.n = map[string]int{}
	}
	s.n[c19ObsClass(got)]++
	m := s.obs[k]
	if m == nil {
		m = map[string]c19ExtCase{}
		s.obs[k] = m
	}
	if _, ok := m[got]; !ok {
		m[got] = in
	}
}

func (s *c19Sink) merge(o *c19Sink) {
	if s.obs == nil {
		s.obs = map[c19ObsKey]map[string]c19ExtCase{}
		s.n = map[string]int{}
	}
	for k, m := range o.obs {
		d := s.obs[k]
		if d == nil {
			d = map[string]c19ExtCase{}
			s.obs[k] = d
		}
		for got, in := range m {
			if _, ok := d[got]; !ok {
				d[got] = in
			}
		}
	}
	for c, n := range o.n {
		s.n[c] += n
	}
	s.nx += o.nx
}

func c19ModelMatches(model, got string) bool {
	if model == got {
		return true
	}
	return got == "served:*" && strings.HasPrefix(model, "served:")
}

// c19CompareModel asks the driver every distinct question once and compares all answers observed for it.
func c19CompareModel(c *lib.Ctx, agg *c19Sink) {
	inexpressible := agg.nx
	r := c.R
	if len(agg.obs) == 0 {
		return
	}
	if c.ModelPath == "" {
		r.Note("no model driver: %d extended-request observations not compared with c19.ext", len(agg.obs))
		return
	}
	if out, err := c.Model([]string{"c19.extnames"}); err != nil || len(out) != 1 || out[0] == "bad-op" || out[0] == "" {
		r.Note("model op c19.ext not available; extended requests checked with the direct oracle only")
		return
	}
	keys := make([]c19ObsKey, 0, len(agg.obs))
	for k := range agg.obs {
		keys = append(keys, k)
	}
	sort.Slice(keys, func(i, j int) bool {
		a, b := keys[i], keys[j]
		if a.Srv != b.Srv {
			return a.Srv < b.Srv
		}
		if a.RO != b.RO {
			return !a.RO
		}
		if len(a.NameHex) != len(b.NameHex) {
			return len(a.NameHex) < len(b.NameHex)
		}
		if a.NameHex != b.NameHex {
			return a.NameHex < b.NameHex
		}
		return a.BodyOK && !b.BodyOK
	})
	lines := make([]string, len(keys))
	for i, k := range keys {
		lines[i] = k.line()
	}
	out, err := c.Model(lines)
	if err != nil {
		r.Fail(lib.Failure{Kind: "tie", Key: "c19/model-driver", What: err.Error()})
		return
	}
	perClass := map[string]int{}
	for i, k := range keys {
		perClass[c19ObsClass(out[i])]++
		gots := make([]string, 0, 1)
		for g := range agg.obs[k] {
			gots = append(gots, g)
		}
		sort.Strings(gots)
		for _, g := range gots {
			if c19ModelMatches(out[i], g) {
				continue
			}
			ln := lines[i]
			if len(ln) > 160 {
				ln = ln[:160] + "…"
			}
			srv := "os"
			if strings.HasPrefix(k.Srv, "rs") {
				srv = "rs"
			}
			r.Fail(lib.Failure{Kind: "correspondence", Key: "c19/c19.ext/" + srv, What: "model and implementation differ on `" + ln + "`", Input: agg.obs[k][g], Expected: out[i], Actual: g})
		}
	}
	var cl []string
	for k, n := range perClass {
		r.HistAdd("model-c19.ext-"+k, n)
		cl = append(cl, fmt.Sprintf("%s=%d", k, n))
	}
	sort.Strings(cl)
	var ob []string
	tot := 0
	for k, n := range agg.n {
		r.HistAdd("observed-c19.ext-"+k, n)
		ob = append(ob, fmt.Sprintf("%s=%d", k, n))
		tot += n
	}
	sort.Strings(ob)
	r.Note("c19.ext: %d extended requests observed (%s) folded into %d distinct model lines (model says %s); %d requests whose id or name does not decode are outside the op (no name to ask about)", tot, strings.Join(ob, " "), len(lines), strings.Join(cl, " "), inexpressible)
}
