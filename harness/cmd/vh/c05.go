package main

// C05 — "Operations through Client and Server behave like package os".
//
// Direct differential: a real *sftp.Client talks over in-memory pipes to a real os-backed sftp.Server that
// serves tree A; the same operation is applied with package os / path/filepath to the twin tree B. After every
// step the outcome category, the returned values and a canonical snapshot of both trees are compared.
// Generated sequences (c05_gen.go) and directed sequences over attribute boundaries and large / long-named
// directories (c05_attr.go) run through the same engine and oracle (c05RunSeq).
// Model comparison: the composites Remove / MkdirAll / RemoveAll are compared with their Lean model and with the
// reference semantics of package os in the family "composite-model" (c05_composite.go, driver ops c05c.*).

import (
	"context"
	"crypto/sha256"
	"encoding/hex"
	"encoding/json"
	"errors"
	"fmt"
	"io"
	"math/rand"
	"os"
	"path"
	"path/filepath"
	"runtime"
	"sort"
	"strings"
	"sync"
	"sync/atomic"
	"syscall"
	"time"
	"verifharness/peers"

	"github.com/pkg/sftp"

	"verifharness/lib"
)

func init() { register("c05", checkC05) }

// c05Documented is the single table of differences between the Client/Server pair and package os that the
// package documents (or that the protocol imposes) and that this check therefore does not report.
// "How" says how the os side of the differential is adjusted; nothing else is adjusted anywhere.
var c05Documented = []struct{ ID, Doc, How string }{
	{"create/mode",
		"client.go Create: \"creates the named file mode 0666 (before umask)\"; the server opens with 0o644 when the request carries no permissions (server.go sshFxpOpenPacket.respond)",
		"the whole check runs under umask 022, where os.Create's 0666&^umask is 0644; os.OpenFile gets perm 0o644"},
	{"open/no-append",
		"server.go sshFxpOpenPacket.respond: \"Don't use O_APPEND flag as it conflicts with WriteAt. The sshFxfAppend flag is a no-op here as the client sends the offsets.\"",
		"O_APPEND is removed from the flags of the os call; both sides then write at offset 0"},
	{"times/second-granularity",
		"SFTP v3 attributes carry uint32 seconds; client.go Chtimes converts with Unix()",
		"os.Chtimes gets the times truncated to the second; modification times are compared to the second, and only when they were set by Chtimes (older than the run) — otherwise both must be recent"},
	{"remove/fallback",
		"client.go Remove: \"removes the specified file or directory\" (REMOVE, then RMDIR, then Stat to choose the error)",
		"compared with os.Remove, which is unlink-then-rmdir as well"},
	{"rmdir/os.Remove",
		"server.go maps SSH_FXP_RMDIR to os.Remove (DESIGN.md §8: lenient reading of the corresponding os call)",
		"RemoveDirectory is compared with os.Remove"},
	{"rename/os.Rename",
		"server.go maps SSH_FXP_RENAME and posix-rename@openssh.com to os.Rename; the SFTP rule that RENAME fails when the target exists is not implemented by this server",
		"Rename and PosixRename are both compared with os.Rename"},
	{"removeall/missing-path",
		"client.go RemoveAll: \"An error will be returned if no file or directory with the specified path exists\" (os.RemoveAll returns nil)",
		"when the path does not exist on the os side, a client error of category not-exist is accepted for os.RemoveAll's nil"},
	{"mkdir/mode",
		"Client.Mkdir has no mode parameter; server.go creates with 0o755 (\"TODO FIXME: ignore flags field\")",
		"os.Mkdir / os.MkdirAll are called with 0o755"},
	{"error-text", "errors cross the wire as a status code and a message", "only the category {ok, not-exist, permission, other} is compared, never the text or the concrete type"},
	{"readdirctx/cancelled",
		"client.go ReadDirContext: \"The passed context can be used to cancel the operation returning all entries listed up to the cancellation\"; package os has no counterpart",
		"with a cancelled context the call may return the context's error: then the entries returned with it must be among those os lists (none when os fails); when it returns anything else it is compared like ReadDir"},
	{"times/uint32-range",
		"SFTP v3 attributes carry times as uint32 seconds (1970-01-01 .. 2106-02-07)",
		"only times inside that range are set or pre-set on files; inside it every value, 0 included, must come out as package os reports it"},
	{"listing-order", "neither Client.ReadDir nor os.File.Readdir (which the server calls) promise an order", "ReadDir names and Glob matches are compared as sorted lists"},
}

// c05Observed: differences that exist on the unchanged package and that DESIGN.md (section 15.2, "observations outside
// the properties' quantifiers") places outside C05: the CLIENT's composites do their own lexical path handling, so
// with a non-canonical spelling they differ from package os whatever the server does.  The generator keeps such
// spellings away from RemoveAll and Walk (c05Gen.spell); what is left is counted, shown in a note, and not reported.
var c05Observed = []struct{ Key, Why string }{
	{"remove/error-from-stat-fallback", "Client.Remove(\"dangling-link/\"): REMOVE and RMDIR fail with ENOTDIR like os.Remove, then the client Stats the path to choose between the two errors and returns the STAT error (not-exist); only with a trailing slash on a dangling symbolic link"},
}

// observedOnly: the key is in c05Observed and its mechanism is present on tree B (the operation failed on both sides,
// so the tree is as it was): the path ends in a slash and names, without it, a symbolic link that leads nowhere.
func (r *c05Run) observedOnly(key string, op c05Op) bool {
	found := false
	for _, o := range c05Observed {
		found = found || o.Key == key
	}
	t := strings.TrimRight(op.P, "/")
	if !found || t == op.P || t == "" {
		return false
	}
	fi, err := os.Lstat(r.pB(t))
	if err != nil || fi.Mode()&os.ModeSymlink == 0 {
		return false
	}
	_, err = os.Stat(r.pB(t))
	return errors.Is(err, os.ErrNotExist)
}

// ---------------------------------------------------------------------------------------------
// a real client/server pair over in-memory pipes

type c05Conn struct {
	io.Reader
	io.WriteCloser
}

func c05StartPair(opts ...sftp.ServerOption) (*sftp.Client, func(), error) {
	cli, stop, _, err := c05StartPairEnd(opts...)
	return cli, stop, err
}

// c05ServerEnd is what is known about the end of a pair's server: done is closed when Serve has returned, err is
// what it returned, byHarness is set when the harness itself ended the pair (stop / kill).
type c05ServerEnd struct {
	done      chan struct{}
	err       error
	byHarness atomic.Bool
}

// describe says, for a failure text, how the server of the pair is doing.
func (e *c05ServerEnd) describe() string {
	if e == nil {
		return "no server"
	}
	select {
	case <-e.done:
		if e.err == nil {
			return "Serve has returned nil"
		}
		return fmt.Sprintf("Serve has returned %T: %v", e.err, e.err)
	default:
		return "Serve has not returned"
	}
}

func c05StartPairEnd(opts ...sftp.ServerOption) (*sftp.Client, func(), *c05ServerEnd, error) {
	c2sR, c2sW := io.Pipe()
	s2cR, s2cW := io.Pipe()
	srv, err := peers.NewOSServer(c05Conn{c2sR, s2cW}, opts...)
	if err != nil {
		return nil, nil, nil, err
	}
	end := &c05ServerEnd{done: make(chan struct{})}
	done := end.done
	go func() {
		end.err = srv.Serve()
		s2cW.Close()
		c2sR.Close()
		close(done)
	}()
	type res struct {
		c   *sftp.Client
		err error
	}
	ch := make(chan res, 1)
	go func() {
		c, err := sftp.NewClientPipe(s2cR, c2sW)
		ch <- res{c, err}
	}()
	kill := func() {
		end.byHarness.Store(true)
		c2sW.Close()
		lib.WaitCleanup("c05/server-exit", 5*time.Second, done) // clean-up wait, bounded by its own budget (lib/budget.go)
		s2cW.Close()
		c2sR.Close()
	}
	select {
	case r := <-ch:
		if r.err != nil {
			kill()
			return nil, nil, nil, r.err
		}
		return r.c, func() {
			end.byHarness.Store(true)
			// clean-up, not an oracle: Client.Close waits for the receiver, which waits for the server to end its output
			closed := make(chan struct{})
			go func() { r.c.Close(); close(closed) }()
			lib.WaitCleanup("c05/client-close", 5*time.Second, closed)
			// nobody reads the server's output any more: a server blocked in a write (a client that gave up on the
			// connection stops reading) must see the pipe closed, or it never ends
			s2cR.Close()
			kill()
		}, end, nil
	case <-time.After(lib.HangWait(20 * time.Second)):
		lib.SpendHang(c05Phase(), lib.HangWait(20*time.Second))
		kill()
		return nil, nil, nil, errors.New("client handshake timed out")
	}
}

// ---------------------------------------------------------------------------------------------
// one run = one pair of twin trees + one client/server pair

type c05Run struct {
	mode             string // abs | rel | cwd
	cons             string // cwd: where the process is while the server is constructed (root | elsewhere)
	rootC, home      string // cwd: a third copy of the tree (cons elsewhere); where the process is between operations
	cwd              string // cwd: the process directory of the operations, relative to either root ("" = the root); physical
	base             string
	parentA, parentB string // snapshots are taken here (one level above the roots, so that links leading out are seen)
	rootA, rootB     string
	cli              *sftp.Client
	stop             func()
	end              *c05ServerEnd // the server of the pair in use
	escSeen          int           // refusals of the transport guard (lib.Escapes) that concern this run, seen so far
	opts             []sftp.ServerOption
	cutoff, horizon  time.Time // modification times between the two are "recent" (produced by the run itself)
	restarts         int
}

func c05NewRun(mode, cons string, tree []c05Ent) (*c05Run, error) {
	base, err := lib.MkScratch("vh-c05-")
	if err != nil {
		return nil, err
	}
	if b, err := filepath.EvalSymlinks(base); err == nil {
		base = b
	}
	r := &c05Run{mode: mode, cons: cons, base: base, parentA: base + "/A", parentB: base + "/B", cutoff: time.Now().Add(-time.Hour), horizon: time.Now().Add(time.Hour)}
	r.rootA, r.rootB = r.parentA+"/r", r.parentB+"/r"
	for _, d := range []string{r.parentA, r.parentB, r.rootA, r.rootB} {
		if err := os.Mkdir(d, 0o755); err != nil {
			os.RemoveAll(base)
			return nil, err
		}
	}
	c05Build(r.rootA, tree)
	c05Build(r.rootB, tree)
	if mode == "rel" {
		r.opts = append(r.opts, sftp.WithServerWorkingDirectory(r.rootA))
	}
	if mode == "cwd" {
		if err := r.cwdSetup(tree); err != nil {
			os.RemoveAll(base)
			return nil, err
		}
	}
	r.cli, r.stop, err = r.startPair()
	if err != nil {
		os.RemoveAll(base)
		return nil, err
	}
	return r, nil
}

// connLost reports whether the client has given up on its connection (every further call would fail whatever it is).
func (r *c05Run) connLost() bool {
	o := c05Guard(func() c05Out { _, err := r.cli.RealPath("."); return c05Res(err) })
	return o.Cat == "hang" || errors.Is(o.err, sftp.ErrSSHFxConnectionLost)
}

// restart replaces a client/server pair whose connection is gone by a new one on the same tree.
func (r *c05Run) restart() error {
	r.stop()
	r.stop = nil
	var err error
	r.cli, r.stop, err = r.startPair()
	r.restarts++
	return err
}

func (r *c05Run) close() {
	if r.stop != nil {
		r.stop()
	}
	r.leave()
	os.RemoveAll(r.base)
}

// escapes says why op must not be run: one of its paths names something outside the scratch directories.
func (r *c05Run) escapes(op c05Op) string {
	baseA, baseB := "", ""
	switch r.mode {
	case "rel":
		baseA = r.rootA
	case "cwd": // the paths are judged as they are handed over, from the directory the process will be in
		baseA, baseB = r.cwdDir(r.rootA), r.cwdDir(r.rootB)
	}
	check := func(base, p string) string {
		if ok, why := lib.InScratch(base, p); !ok {
			return why
		}
		return ""
	}
	paths := []string{op.P, op.Q}
	if op.K == "symlink" {
		paths = []string{op.Q}
		tA, tB := c05LinkText(r.rootA, op.P), c05LinkText(r.rootB, op.P)
		if op.TAbs {
			tA, tB = c05Join(r.rootA, op.P), c05Join(r.rootB, op.P)
		}
		if ok, why := lib.LinkTargetInScratch(baseA, r.pA(op.Q), tA); !ok {
			return why
		}
		if ok, why := lib.LinkTargetInScratch(baseB, r.argB(op.Q), tB); !ok {
			return why
		}
	}
	if op.K == "glob" {
		return "" // patterns over the names of the tree, matched by the client against listings
	}
	for _, p := range paths {
		if why := check(baseA, r.pA(p)); why != "" {
			return why
		}
		if why := check(baseB, r.argB(p)); why != "" {
			return why
		}
		// ".." segments (after a symbolic link, too) must not lead to the directories the twin trees hang in: an
		// operation on the scratch directory itself would act on both trees at once
		if p != "" {
			for _, abs := range []string{c05Join(r.rootA, p), c05Join(r.rootB, p)} {
				res, _, _ := lib.ResolveLike(abs)
				for _, q := range []string{res, filepath.Clean(abs)} {
					if q == r.parentA || q == r.parentB || !strings.HasPrefix(q, r.base+"/") {
						return "the path names a directory the twin trees hang in: " + q
					}
				}
			}
		}
	}
	return ""
}

// opensFifo reports whether the operation would open(2) a fifo (on either twin tree): that waits for the fifo's
// other end — in the server as in package os — and what is written to one does not go through WriteAt; opening
// fifos is not among the name-space operations of the property.
func (r *c05Run) opensFifo(op c05Op) bool {
	var rels []string
	switch op.K {
	case "create", "openfile":
		rels = []string{op.P}
	case "removeall": // os.RemoveAll opens the parent directory of its argument with a plain open(2)
		for i := 1; i < len(op.P); i++ {
			if op.P[i] == '/' {
				rels = append(rels, op.P[:i])
			}
		}
	}
	for _, rel := range rels {
		// as written and lexically cleaned (what a working directory, or a defective server, makes of it)
		for _, p := range []string{c05Join(r.rootA, rel), c05Join(r.rootB, rel), path.Join(r.rootA, rel), path.Join(r.rootB, rel)} {
			if fi, err := os.Stat(p); err == nil && fi.Mode()&os.ModeNamedPipe != 0 {
				return true
			}
		}
	}
	return false
}

// pA is the path the client is given, pB the path package os is given.
func (r *c05Run) pA(rel string) string {
	switch r.mode {
	case "rel":
		return rel
	case "cwd":
		return r.fromCwd(rel)
	}
	return c05Join(r.rootA, rel)
}

// argB is the path package os is GIVEN (pB names the same entry for the harness's own looks at tree B): in path mode
// cwd the very string the client gets, interpreted from the same place of the twin tree.
func (r *c05Run) argB(rel string) string {
	if r.mode == "cwd" {
		return r.fromCwd(rel)
	}
	return r.pB(rel)
}
func (r *c05Run) pB(rel string) string { return c05Join(r.rootB, rel) }

// norm removes the only legitimate difference between strings of the two sides: the scratch directory.
func (r *c05Run) norm(s string) string {
	s = strings.ReplaceAll(s, r.parentA, "<BASE>")
	return strings.ReplaceAll(s, r.parentB, "<BASE>")
}

// c05Unroot maps a path reported by either side to a root-relative one.
func c05Unroot(root, p string) string {
	if p == root {
		return "."
	}
	if strings.HasPrefix(p, root+"/") {
		rest := strings.TrimLeft(p[len(root):], "/")
		if rest == "" {
			return "."
		}
		return rest
	}
	return p
}

func (r *c05Run) snapshot(parent string) []string {
	s := c05SnapTree(parent)
	for i := range s {
		s[i] = r.norm(s[i])
	}
	// modification times: exact second when older than the run (seed tree, Chtimes), "recent" otherwise
	filepath.Walk(parent, func(p string, fi os.FileInfo, err error) error {
		if err != nil || fi.Mode()&os.ModeSymlink != 0 {
			return nil
		}
		rel, _ := filepath.Rel(parent, p)
		s = append(s, "MTIME "+rel+" "+r.mtimeClass(fi.ModTime()))
		return nil
	})
	return s
}

func (r *c05Run) mtimeClass(t time.Time) string {
	switch {
	case t.Before(r.cutoff):
		return fmt.Sprintf("old:%d", t.Unix())
	case t.After(r.horizon):
		return fmt.Sprintf("future:%d", t.Unix())
	}
	return "recent"
}

// c05SnapTree is lib.Snapshot(root, false) — same lines — except that files larger than c05BigFile are hashed as
// sparse files (offset and content of every non-zero 4 KiB block), so that a file truncated to 4 GiB costs nothing.
func c05SnapTree(root string) []string {
	var out []string
	filepath.Walk(root, func(p string, fi os.FileInfo, err error) error {
		rel, _ := filepath.Rel(root, p)
		if err != nil {
			out = append(out, rel+" ERR "+err.Error())
			return nil
		}
		line := fmt.Sprintf("%s %s", rel, fi.Mode().String())
		if st, ok := fi.Sys().(*syscall.Stat_t); ok {
			line += fmt.Sprintf(" nlink=%d uid=%d gid=%d", st.Nlink, st.Uid, st.Gid)
		}
		switch {
		case fi.Mode().IsRegular():
			h := sha256.New()
			if fi.Size() <= c05BigFile {
				b, _ := os.ReadFile(p)
				h.Write(b)
			} else if f, err := os.Open(p); err != nil {
				fmt.Fprintf(h, "open: %v", err)
			} else {
				err := c05SparseBlocks(f, fi.Size(), func(off int64, blk []byte) {
					fmt.Fprintf(h, "@%d+%d:", off, len(blk))
					h.Write(blk)
				})
				if err != nil {
					fmt.Fprintf(h, "read: %v", err)
				}
				f.Close()
			}
			line += fmt.Sprintf(" size=%d sha=%s", fi.Size(), hex.EncodeToString(h.Sum(nil)[:6]))
		case fi.Mode()&os.ModeSymlink != 0:
			t, _ := os.Readlink(p)
			line += " -> " + t
		}
		out = append(out, line)
		return nil
	})
	sort.Strings(out)
	return out
}

// timesAfter is what Chtimes left on a tree: access and modification time of the file the path resolves to, read
// with package os on either tree right after the call (before anything else reads the file).
func (r *c05Run) timesAfter(p string) string {
	fi, err := os.Stat(p)
	if err != nil {
		return "after: " + c05Cat(err)
	}
	return fmt.Sprintf("after: atime=%s mtime=%s", r.mtimeClass(c05Atime(fi)), r.mtimeClass(fi.ModTime()))
}

// ---------------------------------------------------------------------------------------------
// executing one operation on each side

type c05Out struct {
	Cat  string   `json:"category"`
	Vals []string `json:"values,omitempty"`
	Err  string   `json:"error,omitempty"`
	err  error
}

func c05Cat(err error) string {
	switch {
	case err == nil:
		return "ok"
	case errors.Is(err, os.ErrNotExist):
		return "not-exist"
	case errors.Is(err, os.ErrPermission):
		return "permission"
	}
	return "other"
}

func c05Res(err error, vals ...string) c05Out {
	o := c05Out{Cat: c05Cat(err), Vals: vals, err: err}
	if err != nil {
		o.Err = err.Error()
		o.Vals = nil
	}
	return o
}

func (r *c05Run) fiLine(fi os.FileInfo) string {
	if fi == nil {
		return "no-info"
	}
	// The access time is not among the values compared: os.FileInfo has no accessor for it, and the os-backed server
	// reports Atime = Mtime (attrs.go fileStatFromInfo). What Chtimes does to the access time is observed on the trees.
	var uid, gid uint32
	switch s := fi.Sys().(type) {
	case *sftp.FileStat:
		uid, gid = s.UID, s.GID
	case *syscall.Stat_t:
		uid, gid = s.Uid, s.Gid
	}
	size := fmt.Sprint(fi.Size())
	if fi.IsDir() {
		size = "-" // os.FileInfo.Size: "system-dependent" for directories (on ext4 it even differs between two directories filled alike)
	}
	// every accessor on its own: IsDir() is a method of the value, not derived from Mode() by the caller
	return fmt.Sprintf("name=%q size=%s mode=%s dir=%v mode.dir=%v mode.regular=%v mode.type=%s mtime=%s uid=%d gid=%d", fi.Name(), size, fi.Mode().String(), fi.IsDir(),
		fi.Mode().IsDir(), fi.Mode().IsRegular(), fi.Mode().Type().String(), r.mtimeClass(fi.ModTime()), uid, gid)
}

func (r *c05Run) listLines(l []os.FileInfo) []string {
	out := make([]string, 0, len(l)+1)
	for _, fi := range l {
		out = append(out, r.fiLine(fi))
	}
	sort.Strings(out)
	return out
}

func c05Writes(flag int) bool { return flag&(os.O_WRONLY|os.O_RDWR) != 0 }

type c05File interface {
	Write([]byte) (int, error)
	Close() error
}

// c05OpenTail performs what follows a successful open: a small write when the file was opened for writing, then Close.
func c05OpenTail(f c05File, flag int, data string) []string {
	var vals []string
	if c05Writes(flag) && data != "" {
		n, err := f.Write([]byte(data))
		vals = append(vals, fmt.Sprintf("write n=%d %s", n, c05Cat(err)))
	}
	vals = append(vals, "close "+c05Cat(f.Close()))
	return vals
}

func (r *c05Run) execA(op c05Op) c05Out {
	c := r.cli
	p, q := r.pA(op.P), r.pA(op.Q)
	switch op.K {
	case "mkdir":
		return c05Res(c.Mkdir(p))
	case "mkdirall":
		return c05Res(c.MkdirAll(p))
	case "create":
		f, err := c.Create(p)
		if err != nil {
			return c05Res(err)
		}
		return c05Res(nil, c05OpenTail(f, os.O_RDWR, op.Data)...)
	case "openfile":
		f, err := c.OpenFile(p, op.Flag)
		if err != nil {
			return c05Res(err)
		}
		return c05Res(nil, c05OpenTail(f, op.Flag, op.Data)...)
	case "remove":
		return c05Res(c.Remove(p))
	case "rmdir":
		return c05Res(c.RemoveDirectory(p))
	case "removeall":
		return c05Res(c.RemoveAll(p))
	case "rename":
		return c05Res(c.Rename(p, q))
	case "posixrename":
		return c05Res(c.PosixRename(p, q))
	case "link":
		return c05Res(c.Link(p, q))
	case "symlink":
		t := c05LinkText(r.rootA, op.P)
		if op.TAbs {
			t = c05Join(r.rootA, op.P)
		}
		return c05Res(c.Symlink(t, q))
	case "readlink":
		t, err := c.ReadLink(p)
		return c05Res(err, "text="+r.norm(t))
	case "stat":
		fi, err := c.Stat(p)
		if err != nil {
			return c05Res(err)
		}
		return c05Res(nil, r.fiLine(fi))
	case "lstat":
		fi, err := c.Lstat(p)
		if err != nil {
			return c05Res(err)
		}
		return c05Res(nil, r.fiLine(fi))
	case "chmod":
		return c05Res(c.Chmod(p, os.FileMode(op.Mode)))
	case "chtimes":
		m := time.Unix(op.N, op.NS)
		a := m
		if op.A != nil {
			a = time.Unix(*op.A, op.NS)
		}
		return c05Res(c.Chtimes(p, a, m))
	case "truncate":
		return c05Res(c.Truncate(p, op.N))
	case "chown":
		uid, gid := op.owner()
		return c05Res(c.Chown(p, uid, gid))
	case "readdir":
		l, err := c.ReadDir(p)
		if err != nil {
			return c05Res(err)
		}
		return c05Res(nil, r.listLines(l)...)
	case "readdirctx":
		ctx, cancel := context.WithCancel(context.Background())
		defer cancel()
		switch op.Ctx {
		case "cancelled":
			cancel()
		case "cancel-soon":
			go func() { runtime.Gosched(); cancel() }()
		}
		l, err := c.ReadDirContext(ctx, p)
		if r.mode == "cwd" && op.Ctx != "live" && op.Ctx != "" {
			// A cancelled call returns while its request may still be on its way: the server (and the transport guard
			// in front of it) would resolve the relative path of that OPENDIR from wherever the process has gone by
			// then.  The process stays here until the server has answered a request sent after it (the server works
			// through everything but READ / WRITE in order, packet-manager.go workerChan).
			c.RealPath(".")
		}
		if op.Ctx != "live" && op.Ctx != "" && errors.Is(err, context.Canceled) {
			// documented: readdirctx/cancelled
			return c05Out{Cat: "ctx-cancelled", Vals: r.listLines(l), Err: err.Error(), err: err}
		}
		if err != nil {
			return c05Res(err)
		}
		return c05Res(nil, r.listLines(l)...)
	case "getwd":
		s, err := c.Getwd()
		return c05Res(err, "path="+r.norm(s))
	case "glob":
		m, err := c.Glob(p)
		if err != nil {
			return c05Res(err)
		}
		out := []string{}
		for _, x := range m {
			if r.mode == "abs" {
				x = c05Unroot(r.rootA, x)
			}
			out = append(out, x)
		}
		return c05Res(nil, out...)
	case "walk":
		out := []string{}
		w := c.Walk(p)
		for n := 0; w.Step() && n < 100000; n++ {
			x := w.Path()
			if r.mode == "abs" {
				x = c05Unroot(r.rootA, x)
			}
			if err := w.Err(); err != nil {
				x += " ERR " + c05Cat(err)
			} else {
				x += " " + r.fiLine(w.Stat())
			}
			out = append(out, x)
		}
		return c05Res(nil, out...)
	case "realpath":
		s, err := c.RealPath(p)
		return c05Res(err, "path="+r.norm(s))
	case "statvfs":
		v, err := c.StatVFS(p)
		if err != nil {
			return c05Res(err)
		}
		sane := v.Bfree <= v.Blocks && v.Bavail <= v.Bfree && v.Ffree <= v.Files && v.Favail <= v.Files && v.Bsize > 0
		return c05Res(nil, fmt.Sprintf("bsize=%d frsize=%d blocks=%d files=%d namemax=%d flag=%d sane=%v", v.Bsize, v.Frsize, v.Blocks, v.Files, v.Namemax, v.Flag, sane))
	}
	return c05Out{Cat: "unknown-op"}
}

func (r *c05Run) execB(op c05Op) c05Out {
	p, q := r.argB(op.P), r.argB(op.Q)
	switch op.K {
	case "mkdir":
		return c05Res(os.Mkdir(p, 0o755)) // documented: mkdir/mode
	case "mkdirall":
		return c05Res(os.MkdirAll(p, 0o755))
	case "create":
		f, err := os.Create(p) // documented: create/mode (umask 022)
		if err != nil {
			return c05Res(err)
		}
		return c05Res(nil, c05OpenTail(f, os.O_RDWR, op.Data)...)
	case "openfile":
		f, err := os.OpenFile(p, op.Flag&^os.O_APPEND, 0o644) // documented: open/no-append, create/mode
		if err != nil {
			return c05Res(err)
		}
		return c05Res(nil, c05OpenTail(f, op.Flag, op.Data)...)
	case "remove", "rmdir": // documented: remove/fallback, rmdir/os.Remove
		return c05Res(os.Remove(p))
	case "removeall":
		return c05Res(os.RemoveAll(p))
	case "rename", "posixrename": // documented: rename/os.Rename
		return c05Res(os.Rename(p, q))
	case "link":
		return c05Res(os.Link(p, q))
	case "symlink":
		t := c05LinkText(r.rootB, op.P) // the link TEXT is what the caller wrote, whatever the working directory
		if op.TAbs {
			t = c05Join(r.rootB, op.P)
		}
		return c05Res(os.Symlink(t, q))
	case "readlink":
		t, err := os.Readlink(p)
		return c05Res(err, "text="+r.norm(t))
	case "stat":
		fi, err := os.Stat(p)
		if err != nil {
			return c05Res(err)
		}
		return c05Res(nil, r.fiLine(fi))
	case "lstat":
		fi, err := os.Lstat(p)
		if err != nil {
			return c05Res(err)
		}
		return c05Res(nil, r.fiLine(fi))
	case "chmod":
		return c05Res(os.Chmod(p, os.FileMode(op.Mode)))
	case "chtimes":
		m := time.Unix(op.N, 0) // documented: times/second-granularity
		a := m
		if op.A != nil {
			a = time.Unix(*op.A, 0)
		}
		return c05Res(os.Chtimes(p, a, m))
	case "truncate":
		return c05Res(os.Truncate(p, op.N))
	case "chown":
		uid, gid := op.owner()
		return c05Res(os.Chown(p, uid, gid))
	case "getwd":
		if r.mode == "rel" {
			return c05Res(nil, "path="+r.norm(r.rootB))
		}
		s, err := os.Getwd() // the server runs in this process
		return c05Res(err, "path="+r.norm(s))
	case "readdir", "readdirctx":
		// opened the way os.ReadDir opens a directory (O_DIRECTORY): a fifo is not waited for, a device is not opened
		f, err := os.OpenFile(p, os.O_RDONLY|syscall.O_DIRECTORY, 0)
		if err != nil {
			return c05Res(err)
		}
		l, err := f.Readdir(-1)
		f.Close()
		if err != nil {
			return c05Res(err)
		}
		return c05Res(nil, r.listLines(l)...)
	case "glob":
		m, err := filepath.Glob(p)
		if err != nil {
			return c05Res(err)
		}
		out := []string{}
		for _, x := range m {
			out = append(out, c05Unroot(r.rootB, x))
		}
		return c05Res(nil, out...)
	case "walk":
		out := []string{}
		filepath.Walk(p, func(x string, fi os.FileInfo, err error) error {
			x = c05Unroot(r.rootB, x)
			if err != nil {
				x += " ERR " + c05Cat(err)
			} else {
				x += " " + r.fiLine(fi)
			}
			out = append(out, x)
			return nil
		})
		return c05Res(nil, out...)
	case "realpath":
		s, err := filepath.Abs(p)
		return c05Res(err, "path="+r.norm(path.Clean(s)))
	case "statvfs":
		var v syscall.Statfs_t
		if err := syscall.Statfs(p, &v); err != nil {
			return c05Res(err)
		}
		sane := v.Bfree <= v.Blocks && v.Bavail <= v.Bfree && v.Ffree <= v.Files && v.Bsize > 0
		return c05Res(nil, fmt.Sprintf("bsize=%d frsize=%d blocks=%d files=%d namemax=%d flag=%d sane=%v", v.Bsize, v.Frsize, v.Blocks, v.Files, v.Namelen, v.Flags, sane))
	}
	return c05Out{Cat: "unknown-op"}
}

// owner returns the ids a chown operation hands to both sides.
func (op c05Op) owner() (uid, gid int) {
	uid, gid = os.Getuid(), os.Getgid()
	if op.UID != nil {
		uid = int(*op.UID)
	}
	if op.GID != nil {
		gid = int(*op.GID)
	}
	return
}

// c05TrimLines keeps the evidence of a failure readable: the first 24 lines, the number of lines and a hash of all.
func c05TrimLines(l []string) []string {
	if len(l) <= 32 {
		return l
	}
	return append(append([]string(nil), l[:24]...), fmt.Sprintf("… %d lines in all, sha=%s", len(l), c05Hash(l)))
}

func c05TrimOut(o c05Out) c05Out {
	o.Vals = c05TrimLines(o.Vals)
	return o
}

// c05Subset reports whether every line of a occurs in b (multiset).
func c05Subset(a, b []string) bool {
	have := map[string]int{}
	for _, l := range b {
		have[l]++
	}
	for _, l := range a {
		if have[l] == 0 {
			return false
		}
		have[l]--
	}
	return true
}

// c05Guard runs a client call with the 20 s liveness deadline and turns a panic of the calling goroutine into an observation.
func c05Guard(f func() c05Out) c05Out {
	ch := make(chan c05Out, 1)
	go func() {
		defer func() {
			if e := recover(); e != nil {
				ch <- c05Out{Cat: "panic", Err: fmt.Sprint(e)}
			}
		}()
		ch <- f()
	}()
	// the 20 s come out of the run's hang budget (lib/budget.go), charged to the phase the check is in
	o, ok := lib.WaitHang(c05Phase(), 20*time.Second, ch)
	if !ok {
		return c05Out{Cat: "hang", Err: "no result after 20 s"}
	}
	return o
}

// c05Phase is the hang class of the calls made now: c05/seq (the generated sequences), c05/shrink (re-runs of a
// failing sequence while it is minimised), c05/composite (the composite-model family).
var c05PhaseV atomic.Value

func c05Phase() string {
	if s, ok := c05PhaseV.Load().(string); ok {
		return s
	}
	return "c05/seq"
}

// ---------------------------------------------------------------------------------------------
// one sequence

type c05Failure struct {
	Key      string
	Sig      string // what differed and the two categories: witnesses of one key with different signatures are all reported
	Step     int
	What     string
	Op       c05Op
	Expected any
	Actual   any
}

type c05Case struct {
	canon      string
	nontrivial bool
}

type c05SeqResult struct {
	in       c05Input
	failures []c05Failure
	cases    []c05Case
	hist     map[string]int
	tieErr   string
	observed *c05Failure // first difference of the sequence that table c05Observed places outside the quantifier
	orderOff int         // glob / readdir results equal as sets but in another order than the os side
}

func c05Hash(lines []string) string {
	h := sha256.Sum256([]byte(strings.Join(lines, "\n")))
	return hex.EncodeToString(h[:8])
}

func c05SameLines(a, b []string) bool {
	if len(a) != len(b) {
		return false
	}
	for i := range a {
		if a[i] != b[i] {
			return false
		}
	}
	return true
}

func c05SortedCopy(a []string) []string {
	b := append([]string(nil), a...)
	sort.Strings(b)
	return b
}

// c05RunSeq executes ops (or generates n of them from gen when gen is not nil) on fresh twin trees.
// With light set, no histogram or case list is kept (used while shrinking).
// Path mode cwd moves the PROCESS: such a sequence runs here only in the child process made for it (c05RunJob).
func c05RunSeq(mode, cons string, tree []c05Ent, ops []c05Op, gen *rand.Rand, n int, light bool) *c05SeqResult {
	res := &c05SeqResult{in: c05Input{Mode: mode, Cons: cons, Tree: tree}, hist: map[string]int{}}
	if mode == "cwd" && !c05InCwdChild {
		res.tieErr = "a sequence of path mode cwd was started outside its child process"
		return res
	}
	run, err := c05NewRun(mode, cons, tree)
	if err != nil {
		res.tieErr = "setup: " + err.Error()
		return res
	}
	defer run.close()
	var g *c05Gen
	if gen != nil {
		g = &c05Gen{rng: gen, rootB: run.rootB, pmode: mode}
	} else {
		n = len(ops)
	}
	snapA, snapB := run.snapshot(run.parentA), run.snapshot(run.parentB)
	if d := lib.DiffSnap(snapB, snapA); len(d) > 0 {
		res.tieErr = "twin trees differ after seeding: " + strings.Join(d, " | ")
		return res
	}
	for step := 0; step < n; step++ {
		var op c05Op
		if g != nil {
			op = g.next()
		} else {
			op = ops[step]
		}
		res.in.Ops = append(res.in.Ops, op)
		if mode == "cwd" {
			// the process directory of this step: still there, and still where it was, in both trees?
			if run.cwdCheck() && !light {
				res.hist["cwd:process-directory-gone,back-to-the-root"]++
			}
			if op.K == "chdir" {
				bucket := fmt.Sprintf("cwd:chdir/depth=%d", 0)
				if run.chdir(op) {
					bucket = fmt.Sprintf("cwd:chdir/depth=%d", run.cwdDepth())
				} else {
					res.in.Ops = res.in.Ops[:len(res.in.Ops)-1]
					bucket = "cwd:chdir/refused:not-a-directory-of-the-tree-or-too-deep"
				}
				if !light {
					res.hist[bucket]++
				}
				continue
			}
		} else if op.K == "chdir" {
			res.in.Ops = res.in.Ops[:len(res.in.Ops)-1]
			continue
		}

		// what the path(s) meet, on tree B before the step
		var shapes []string
		via := false
		leafMissing, leafIsLink, leafIsLinkSlash := false, false, false
		if op.K != "glob" {
			first := op.P
			if op.K == "symlink" {
				first = op.Q
			}
			s, v := c05Shape(run.rootB, first)
			shapes, via = append(shapes, s), v
			if fi, err := os.Lstat(run.pB(first)); err != nil {
				leafMissing = errors.Is(err, os.ErrNotExist)
			} else {
				leafIsLink = fi.Mode()&os.ModeSymlink != 0
			}
			if t := strings.TrimRight(first, "/"); t != first && !leafIsLink {
				if fi, err := os.Lstat(run.pB(t)); err == nil && fi.Mode()&os.ModeSymlink != 0 {
					leafIsLinkSlash = true
				}
			}
			if op.Q != "" && op.K != "symlink" {
				s2, v2 := c05Shape(run.rootB, op.Q)
				shapes = append(shapes, "dst:"+s2)
				via = via || v2
			}
		}

		// RemoveAll whose path runs through a symbolic link that lives inside the directory being removed
		selfRef := false
		if op.K == "removeall" {
			selfRef = c05LinkInsideTarget(run.rootB, op.P)
		}

		// containment (lib/contain.go): an operation whose paths — as the server resolves them on tree A and as
		// package os resolves them on tree B, symbolic links of the trees followed — leave the scratch directory is
		// not run on either side
		if why := run.escapes(op); why != "" {
			res.in.Ops = res.in.Ops[:len(res.in.Ops)-1]
			if !light {
				res.hist[lib.NotRunBucket]++
			}
			continue
		}
		if run.opensFifo(op) {
			res.in.Ops = res.in.Ops[:len(res.in.Ops)-1]
			if !light {
				res.hist["not-run/open-of-a-fifo-waits-for-its-other-end"]++
			}
			continue
		}
		if run.movesCwd(op) {
			res.in.Ops = res.in.Ops[:len(res.in.Ops)-1]
			if !light {
				res.hist["not-run/would-remove-or-move-the-process-directory"]++
			}
			continue
		}
		run.enter('A')
		outA := c05Guard(func() c05Out { return run.execA(op) })
		// A connection that the HARNESS ended is not an outcome of the implementation: when the server of the pair
		// has stopped and the transport guard (peers/guard.go) has refused a frame of this run, the step is not
		// judged — tree A is made a copy of tree B again, a new pair is started, and the step counts as not run.
		if why := run.endedByHarness(outA); why != "" {
			run.leave()
			res.in.Ops = res.in.Ops[:len(res.in.Ops)-1]
			if !light {
				res.hist["not-run/connection-ended-by-the-harness:"+why]++
			}
			if err := run.restart(); err != nil {
				res.tieErr = "restart after the harness ended a connection: " + err.Error()
				return res
			}
			if err := c05Clone(run.parentB, run.parentA); err != nil {
				res.tieErr = "resync: " + err.Error()
				return res
			}
			snapA = run.snapshot(run.parentA)
			if run.restarts >= 8 {
				res.tieErr = "the harness ended the connection of this sequence eight times: " + why
				return res
			}
			continue
		}
		// package os is not under test, but a call of it that does not return (an open(2) that waits) must not cost the run
		osDone := make(chan c05Out, 1)
		if mode == "cwd" && outA.Cat == "hang" {
			// the client call is still running somewhere: the process stays out of the other tree, the os side is not run
			// (the step is reported as a hang whatever package os does)
			osDone <- c05Out{Cat: "not-run"}
		} else {
			run.enter('B')
			go func() { osDone <- run.execB(op) }()
		}
		outB, osOK := lib.WaitHang("c05/package-os-side", 20*time.Second, osDone)
		run.leave()
		if !osOK {
			res.tieErr = "the package os side of " + c05OpText(op) + " did not return within 20 s"
			return res
		}
		if op.K == "chtimes" { // the tree state Chtimes is about, observed before the snapshots read the files
			outA.Vals = append(outA.Vals, run.timesAfter(c05Join(run.rootA, op.P)))
			outB.Vals = append(outB.Vals, run.timesAfter(run.pB(op.P)))
		}
		before := snapB
		snapA, snapB = run.snapshot(run.parentA), run.snapshot(run.parentB)
		changed := !c05SameLines(before, snapB)

		// ---- compare
		what := ""
		switch {
		case outA.Cat == "hang" || outA.Cat == "panic":
			what = outA.Cat
		case outA.Cat == "ctx-cancelled": // documented: readdirctx/cancelled
			if !(outB.Cat == "ok" && c05Subset(outA.Vals, outB.Vals) || outB.Cat != "ok" && len(outA.Vals) == 0) {
				what = "value"
			}
		case errors.Is(outA.err, sftp.ErrSSHFxConnectionLost):
			// (not ended by the harness: see endedByHarness above) — whatever category package os reports, the call did
			// not fail for that reason, and every later call of the pair would fail the same way
			what = "connection"
		case outA.Cat != outB.Cat:
			// documented: removeall/missing-path
			if !(op.K == "removeall" && leafMissing && outB.Cat == "ok" && outA.Cat == "not-exist") {
				what = "category"
			}
		case !c05SameLines(outA.Vals, outB.Vals):
			switch op.K {
			case "glob": // documented: listing-order
				if c05SameLines(c05SortedCopy(outA.Vals), c05SortedCopy(outB.Vals)) {
					res.orderOff++
				} else {
					what = "value"
				}
			case "walk":
				if c05SameLines(c05SortedCopy(outA.Vals), c05SortedCopy(outB.Vals)) {
					what = "order"
				} else {
					what = "value"
				}
			default:
				what = "value"
			}
		}
		diff := lib.DiffSnap(snapB, snapA)
		if what == "" && len(diff) > 0 {
			what = "tree"
			onlyMtime := true
			for _, l := range diff {
				if !strings.HasPrefix(l[1:], "MTIME ") {
					onlyMtime = false
				}
			}
			if onlyMtime {
				what = "mtime"
			}
		}

		if !light {
			nontrivial := outB.Cat != "ok" || changed || via
			opj, _ := json.Marshal(op)
			where := mode
			if mode == "cwd" {
				where = "cwd(server constructed " + cons + ")@" + run.cwd
				res.hist[fmt.Sprintf("cwd:operation/process-directory-depth=%d", run.cwdDepth())]++
				res.hist["cwd:operation/server-constructed="+cons]++
				res.hist["cwd:path/"+run.cwdSpelling(op)]++
			}
			res.cases = append(res.cases, c05Case{where + "|" + string(opj) + "|" + c05Hash(before), nontrivial})
			res.hist["op:"+op.K+"/"+outB.Cat]++
			if op.K == "glob" {
				for _, s := range c05GlobSyntax(op.P) {
					res.hist["glob:pattern/"+s]++
				}
				res.hist[fmt.Sprintf("glob:matches=%s", map[bool]string{true: "0", false: ">0"}[len(outB.Vals) == 0])]++
			}
			res.hist["mode:"+mode]++
			for _, s := range shapes {
				res.hist["shape:"+s]++
			}
			if via {
				res.hist["shape:*via-symlink"]++
			}
			if changed {
				res.hist["effect:tree-changed"]++
			}
			if op.P != "" && op.K != "glob" && op.K != "symlink" && path.Clean(op.P) != op.P {
				res.hist["form:non-canonical-path"]++
			}
			switch op.K {
			case "chtimes":
				a := op.N
				if op.A != nil {
					a = *op.A
				}
				res.hist["attr:chtimes/mtime="+c05TimeLabel(op.N)]++
				res.hist["attr:chtimes/atime="+c05TimeLabel(a)]++
				if a != op.N {
					res.hist["attr:chtimes/atime!=mtime"]++
				}
			case "truncate":
				res.hist["attr:truncate/size="+c05SizeLabel(op.N)]++
			case "chown":
				if op.UID != nil {
					res.hist["attr:chown/uid="+c05IDLabel(*op.UID)]++
				}
				if op.GID != nil {
					res.hist["attr:chown/gid="+c05IDLabel(*op.GID)]++
				}
			case "chmod":
				if os.FileMode(op.Mode)&(os.ModeSetuid|os.ModeSetgid|os.ModeSticky) != 0 {
					res.hist["attr:chmod/"+(os.FileMode(op.Mode)&(os.ModeSetuid|os.ModeSetgid|os.ModeSticky)).String()]++
				}
			case "readdirctx":
				res.hist["ctx:"+op.Ctx+"/"+outA.Cat]++
			case "stat", "lstat":
				if outB.Cat == "ok" && len(outB.Vals) == 1 {
					for _, f := range strings.Fields(outB.Vals[0]) {
						if strings.HasPrefix(f, "mtime=") && f != "mtime=recent" && f != "mtime=old:1000000000" {
							res.hist["attr:stat/"+strings.SplitN(f, ":", 2)[0]+":"+c05TimeLabel(c05AtoI(strings.SplitN(f, ":", 2)[1]))]++
						}
						if strings.HasPrefix(f, "size=") && len(f) > 12 {
							res.hist["attr:stat/size="+c05SizeLabel(c05AtoI(f[5:]))]++
						}
						if (strings.HasPrefix(f, "uid=") || strings.HasPrefix(f, "gid=")) && f[4:] != "0" {
							res.hist["attr:stat/"+f[:4]+c05IDLabel(c05AtoI(f[4:]))]++
						}
					}
				}
			case "readdir":
				if outB.Cat == "ok" && len(outB.Vals) >= 129 {
					res.hist[fmt.Sprintf("bigdir:readdir/entries>=%d", c05Bucket(len(outB.Vals)))]++
				}
			}
		}

		if what != "" {
			f := c05Failure{Step: len(res.in.Ops) - 1, Op: op, // (the index among the operations kept in the input: those not run are not in it)
				Expected: map[string]any{"side": "package os on tree B", "result": c05TrimOut(outB)},
				Actual:   map[string]any{"side": "Client/Server on tree A", "result": c05TrimOut(outA), "tree_diff(-os,+sftp)": c05TrimLines(diff)}}
			f.Key, f.What = run.classify(op, what, outA, outB, diff, leafIsLink, leafIsLinkSlash, selfRef)
			f.Sig = fmt.Sprintf("%s/os=%s,sftp=%s", what, outB.Cat, outA.Cat)
			if errors.Is(outA.err, sftp.ErrSSHFxConnectionLost) || run.serverEnded() {
				// the implementation lost its connection on its own (the harness has not touched the pair, the transport
				// guard has refused nothing): what the server and the goroutines of the package are doing goes with the failure
				if run.end != nil { // give Serve a moment to return, so that what it returns can be shown (a clean-up wait)
					lib.WaitCleanup("c05/server-exit", 2*time.Second, run.end.done)
				}
				state := run.connectionState()
				f.What += "; the connection of the pair is gone without the harness having ended it — server: " + run.end.describe()
				f.Actual.(map[string]any)["connection"] = state
			}
			if run.observedOnly(f.Key, op) {
				// a genuine difference of the unchanged package with its own, exact key (recorded in
				// /verif/known_findings.json); every other instance of the base key stays a plain failure
				res.hist["known-class:"+f.Key+"/dangling-link-trailing-slash"]++
				f.Key += "/dangling-link-trailing-slash"
			}
			res.failures = append(res.failures, f)
			if outA.Cat == "hang" {
				return res // the connection is in an unknown state
			}
			// a client that has given up on its connection fails every further call: the rest of the sequence runs on a new pair
			if outA.Cat != "ok" || op.K == "walk" || op.K == "glob" {
				if run.connLost() {
					res.hist["effect:connection-lost-restarted"]++
					if run.restarts >= 8 {
						return res
					}
					if err := run.restart(); err != nil {
						res.tieErr = "restart after a lost connection: " + err.Error()
						return res
					}
				}
			}
			// resynchronise tree A with tree B so that one defect does not cascade through the rest of the sequence
			if err := c05Clone(run.parentB, run.parentA); err != nil {
				res.tieErr = "resync: " + err.Error()
				return res
			}
			snapA = run.snapshot(run.parentA)
			if d := lib.DiffSnap(snapB, snapA); len(d) > 0 {
				res.tieErr = "resync left the trees different: " + strings.Join(d, " | ")
				return res
			}
		}
	}
	return res
}

// classify gives a failure its stable key. Known defects (DESIGN.md §8) are recognised by their mechanism,
// checked on the spot, so that another violation by the same operation keeps its own key.
func (r *c05Run) classify(op c05Op, what string, a, b c05Out, diff []string, leafIsLink, leafIsLinkSlash, selfRef bool) (key, text string) {
	nonCanonical := func(p string) bool { return p != "" && path.Clean(p) != p }
	switch {
	case what == "hang" || what == "panic":
		return what + "/" + op.K, "client call did not return normally: " + a.Err
	case what == "connection":
		return map[bool]string{true: "process-dir-relative/"}[r.mode == "cwd"] + op.K + "/connection-lost", "the client call failed because the connection between client and server was lost (package os: " + b.Cat + ")"

	// inherent to a path-based RemoveAll (known finding): decided on the pre-operation tree alone, whatever differs
	case op.K == "removeall" && selfRef:
		return "removeall/path-through-link-inside-removed-tree", "the path given to RemoveAll runs through a symbolic link that lives inside the directory being removed: os.RemoveAll works on directory descriptors (openat/unlinkat) and finishes; Client.RemoveAll re-resolves path+\"/\"+name for every request, so once it has removed that link the remaining paths no longer resolve"

	// F14: Client.RemoveAll decides with Stat (follows links)
	case op.K == "removeall" && leafIsLink:
		return "removeall/follows-symlink", "RemoveAll of a symbolic link: os.RemoveAll unlinks the link; Client.RemoveAll Stats through it (deletes the target directory's contents / fails on a dangling or looping link)"

	// the same family with a trailing slash: os.RemoveAll strips it (splitPath) and unlinks the link, the client
	// hands "link/" to Stat/ReadDir/Remove, which the kernel resolves to the target directory (Lstat would not help)
	case op.K == "removeall" && leafIsLinkSlash:
		return "removeall/follows-symlink/trailing-slash", "RemoveAll(\"link/\"): os.RemoveAll strips the slash and unlinks the link; Client.RemoveAll deletes the contents of the directory the link points to and then fails to remove \"link/\""

	// F8: a permission errno wrapped in something else than *os.PathError reaches the client as FAILURE
	case what == "category" && b.Cat == "permission" && a.Cat == "other":
		var pe *os.PathError
		if _, bare := b.err.(syscall.Errno); !bare && !errors.As(b.err, &pe) {
			return "errmap/permission-as-failure", fmt.Sprintf("package os reports a permission error (%T: %v); the client gets a generic failure (%s)", b.err, b.err, a.Err)
		}

	// F15: statvfs@openssh.com does not apply the working directory
	case op.K == "statvfs" && r.mode == "rel":
		var v syscall.Statfs_t
		if c05Cat(syscall.Statfs(op.P, &v)) == a.Cat { // what the server process's own cwd gives
			return "statvfs/ignores-workdir", "StatVFS of a relative path is resolved against the server process's current directory, not the configured working directory"
		}

	// F9: the link text goes through toLocalPath
	case op.K == "symlink" && r.mode == "rel" && !op.TAbs && what == "tree":
		got, _ := os.Readlink(c05Join(r.rootA, op.Q))
		if got == path.Join(r.rootA, op.P) && got != op.P {
			return "symlink/target-rewritten-under-workdir", fmt.Sprintf("Symlink(%q, %q) with a server working directory stores the link text %q (package os stores %q)", op.P, op.Q, r.norm(got), op.P)
		}
	}
	// the working-directory join cleans the path lexically before the kernel sees it
	if r.mode == "rel" && (nonCanonical(op.P) && op.K != "symlink" && op.K != "glob" || nonCanonical(op.Q)) {
		return "workdir/path-cleaned-lexically", "with a server working directory a relative path is path.Join'ed (cleaned: trailing slash, \".\", \"x/..\" removed) before the kernel sees it; package os hands the path to the kernel as written"
	}
	switch {
	case op.K == "removeall" && nonCanonical(op.P):
		return "removeall/non-canonical-path", "os.RemoveAll normalises its argument before touching the tree (strips trailing slashes, refuses a final \".\" with EINVAL); Client.RemoveAll hands the text to STAT/READDIR/REMOVE as written"
	case op.K == "glob" && what == "category" && a.Cat == "ok" && b.Cat == "other" && errors.Is(b.err, filepath.ErrBadPattern):
		// exact mechanism: package os refused the pattern as malformed before looking at the tree; the client found nothing
		// to match the malformed component against, so path.Match never ran on it
		return "glob/malformed-pattern-not-refused-when-nothing-is-matched", "filepath.Glob validates the whole pattern up front (ErrBadPattern); Client.Glob reports a malformed pattern only when path.Match runs on a directory entry, and returns nil, nil when the malformed component meets no entry (missing or empty directory, directory part without matches)"
	case op.K == "remove" && what == "category" && a.Cat == "not-exist" && b.Cat != "not-exist" && b.Cat != "ok":
		if _, err := os.Stat(r.pB(op.P)); errors.Is(err, os.ErrNotExist) {
			return "remove/error-from-stat-fallback", "REMOVE and RMDIR both failed with a non-ENOENT error (as os.Remove does), but Client.Remove then Stats the path and returns the STAT error (not-exist) instead"
		}
	}
	// path mode cwd: a difference seen with paths relative to the process directory gets a key of its own (whatever
	// is recognised by its mechanism above keeps its key)
	pre, with := "", ""
	if r.mode == "cwd" && what != "order" {
		pre = "process-dir-relative/"
		with = fmt.Sprintf(" (server without a working directory, constructed while the process was in %s; the call was made with the process in <root>/%s and got the path(s) %q %q, as package os did from the same place of its tree)",
			map[string]string{"root": "the root of the served tree", "elsewhere": "another directory"}[r.cons], r.cwd, r.pA(op.P), r.pA(op.Q))
	}
	switch what {
	case "category":
		return fmt.Sprintf("%s%s/category/os=%s,sftp=%s", pre, op.K, b.Cat, a.Cat), "outcome category differs from package os" + with
	case "value":
		return pre + op.K + "/value", "returned values differ from package os" + with
	case "order":
		return op.K + "/order-not-lexical", "same entries visited, but not in the (lexical) order of the os side"
	case "mtime":
		return pre + op.K + "/mtime", "modification times differ between the trees" + with
	}
	return pre + op.K + "/tree", "the served tree differs from the os tree after the step" + with
}

// c05LinkInsideTarget decides the class "the path given to RemoveAll runs through a symbolic link that lives inside
// the directory being removed". It resolves rel (relative to root) on the tree as it is NOW (call it before the
// operation) component by component with Lstat/Readlink the way the kernel does: a symbolic link in a non-final
// position is followed (its text is spliced in front of the remaining components; an absolute text restarts at
// "/"; ".." is the parent of the directory reached; at most 40 links), and the physical location (real directory +
// name) of every link followed is recorded — links met while following another link's text included. The final
// component is not followed (RemoveAll Lstats it). The result is true iff the final component is a real directory
// with real path T and at least one recorded location lies strictly inside T.
func c05LinkInsideTarget(root, rel string) bool {
	type comp struct {
		name  string
		final bool
	}
	split := func(s string, final bool) []comp {
		var out []comp
		for _, n := range strings.Split(s, "/") {
			if n != "" {
				out = append(out, comp{n, false})
			}
		}
		if final && len(out) > 0 {
			out[len(out)-1].final = true
		}
		return out
	}
	// the root itself is resolved the same way (it is real in practice: the scratch base is EvalSymlinks'ed)
	pending := append(split(root, false), split(rel, true)...)
	if len(pending) == 0 || !pending[len(pending)-1].final {
		return false
	}
	cur := "" // real path of the directory reached ("" = "/")
	var links []string
	for hops := 0; len(pending) > 0; {
		c := pending[0]
		pending = pending[1:]
		switch c.name {
		case ".":
			if c.final {
				return false // os.RemoveAll refuses a final "."; not this class
			}
			continue
		case "..":
			if c.final {
				return false
			}
			if i := strings.LastIndexByte(cur, '/'); i >= 0 {
				cur = cur[:i]
			}
			continue
		}
		loc := cur + "/" + c.name
		fi, err := os.Lstat(loc)
		if err != nil {
			return false // missing: nothing is removed through a link
		}
		switch {
		case fi.Mode()&os.ModeSymlink != 0:
			if c.final {
				return false // the link itself is removed, not a directory
			}
			if hops++; hops > 40 {
				return false // ELOOP
			}
			text, err := os.Readlink(loc)
			if err != nil || text == "" {
				return false
			}
			links = append(links, loc)
			if text[0] == '/' {
				cur = ""
			}
			pending = append(split(text, false), pending...)
		case fi.IsDir():
			if c.final {
				for _, l := range links {
					if strings.HasPrefix(l, loc+"/") {
						return true
					}
				}
				return false
			}
			cur = loc
		default:
			return false // a non-directory: as the final component it is unlinked, elsewhere the path does not resolve
		}
	}
	return false
}

// ---------------------------------------------------------------------------------------------
// shrinking: delta debugging on fresh twin trees

func c05Reproduces(in c05Input, key, sig string) bool {
	res := c05RunInput(in, true)
	for _, f := range res.failures {
		if f.Key == key && f.Sig == sig {
			return true
		}
	}
	return false
}

func c05Shrink(in c05Input, key, sig string, step int, until time.Time) c05Input {
	cur := c05Input{Mode: in.Mode, Cons: in.Cons, Tree: append([]c05Ent(nil), in.Tree...), Ops: append([]c05Op(nil), in.Ops[:step+1]...)}
	if len(cur.Ops) == 0 {
		cur.Ops = []c05Op{}
	}
	if !c05Reproduces(cur, key, sig) {
		return in // not reproducible from a fresh start with the prefix alone: keep everything
	}
	budget := 600
	try := func(c c05Input) bool {
		if budget <= 0 || lib.Stopped("c05/shrink") || time.Now().After(until) {
			return false
		}
		budget--
		return c05Reproduces(c, key, sig)
	}
	for round := 0; round < 3; round++ {
		before := len(cur.Ops) + len(cur.Tree)
		// operations: chunks of decreasing size (the last operation is the failing one; it may be removed as well
		// when an earlier one fails with the same key)
		for size := len(cur.Ops) / 2; size >= 1; size /= 2 {
			for i := 0; i+size <= len(cur.Ops); {
				c := cur
				c.Ops = append(append([]c05Op(nil), cur.Ops[:i]...), cur.Ops[i+size:]...)
				if len(c.Ops) > 0 && try(c) {
					cur = c
				} else {
					i += size
				}
			}
		}
		// filled directories: the smallest entry count, then the shortest names, that still reproduce (bisection; the
		// failing region is taken to be upward closed)
		for i := range cur.Tree {
			if cur.Tree[i].K != "fill" || round > 0 {
				continue
			}
			bisect := func(get func(*c05Ent) *int, lo int) {
				hi := *get(&cur.Tree[i])
				for lo < hi {
					mid := lo + (hi-lo)/2
					c := cur
					c.Tree = append([]c05Ent(nil), cur.Tree...)
					*get(&c.Tree[i]) = mid
					if try(c) {
						hi = mid
					} else {
						lo = mid + 1
					}
				}
				c := cur
				c.Tree = append([]c05Ent(nil), cur.Tree...)
				*get(&c.Tree[i]) = hi
				if hi != *get(&cur.Tree[i]) && try(c) {
					cur = c
				}
			}
			bisect(func(e *c05Ent) *int { return &e.N }, 0)
			bisect(func(e *c05Ent) *int { return &e.L }, 1)
		}
		// seed tree entries, last first
		for i := len(cur.Tree) - 1; i >= 0; i-- {
			c := cur
			c.Tree = append(append([]c05Ent(nil), cur.Tree[:i]...), cur.Tree[i+1:]...)
			if try(c) {
				cur = c
			}
		}
		if len(cur.Ops)+len(cur.Tree) == before {
			break
		}
	}
	if cur.Tree == nil {
		cur.Tree = []c05Ent{}
	}
	return cur
}

// ---------------------------------------------------------------------------------------------
// the check

var c05WantedShapes = []string{
	"dangling-symlink", "dir-symlink", "file-symlink", "symlink-loop", "file-where-dir-expected", "non-empty-dir", "empty-dir",
	"missing-parent", "missing-leaf", "file", "hardlinked-file", "through-dangling-symlink", "file-where-dir-expected-via-symlink",
	"socket", "fifo", "char-device", "block-device", "special-file-where-dir-expected", "special-file-symlink",
	"*via-symlink", "dst:non-empty-dir", "dst:file", "dst:dir-symlink", "dst:dangling-symlink", "dst:missing-parent", "dst:file-where-dir-expected",
}

func checkC05(c *lib.Ctx) {
	r := c.R
	r.Rule = "twin trees (seeded random small tree: dirs, files, relative/absolute/dangling/looping symlinks, hard links, one entry in eight a SPECIAL FILE — unix socket, fifo, character or block device node (mknod, device number 0:0; what the scratch file system allows is in the histogram storable:kind/*) —; one entry in five already carries boundary times, one in eight a boundary owner, some files a sparse boundary size) under one scratch dir; tree A served by a real os-backed Server to a real Client over pipes, tree B operated with package os; PRNG sequences of 25 operation kinds (the 23 of the property plus ReadDirContext with a live / cancelled / concurrently cancelled context, and Getwd) over the names a b c d with nesting <= 3 (paths biased to existing entries, their children, dir-symlinks, dangling links, non-empty dirs, files used as directories, special files themselves and used as directories), absolute paths, working-directory-relative paths (WithServerWorkingDirectory), and PROCESS-DIRECTORY-RELATIVE paths (path mode cwd, c05_cwd.go: the server constructed WITHOUT a working directory — while the process is in the root of the served tree, or in a third copy of the tree — and every call made after the process has chdir'ed into its current place of the served tree, package os getting the very same relative string after a chdir into the same place of the twin tree; the place changes through 'chdir' steps, 7 in 100, into directories at most two levels down, through links to directories, back to the root, so paths are spelled 'x', '../x', '../../x', '.'; such sequences run one at a time in child processes); one ABSOLUTE or process-directory-relative path in eight is spelled NON-CANONICALLY (trailing slash on files / directories / links of every kind, './', '/./', '//', a final '.', 'x/../p' over anything, 'link/../name' and 'link/..' after a symbolic link to a directory, 'e/../e') — the server has no working directory there and the kernel resolves what the client wrote ('link/../x' is the x next to the link's target for the kernel and for package os, never <dir of link>/x); relative paths with a working directory, and RemoveAll / Walk in either mode, get such spellings only with VERIF_C05_NONCANON=1 (c05Gen.spell says why); operations that would open(2) a fifo are not run (they wait for its other end); Glob patterns: three in four are BUILT from syntax atoms (c05_globpat.go: one to three components of 1..3 atoms — name characters, *, ?, classes [ab] [a-c] [^a] [\\]a] [*] [[a], escapes \\a \\* \\? \\[ \\\\ —, one pattern in four with NO unescaped magic at all (escaped and plain names only), 12 in 100 malformed ([ [] [a [a- [a-] []a] [^] [-a] trailing backslash) placed where the malformed component meets a non-empty listing, redundant separators), the rest from a table of twelve; the histogram glob:pattern/* counts the features; attribute values are drawn from boundary tables with probability 0.4 (Chtimes seconds 0, 1, 2^31-1, 2^31, 2^32-1, atime != mtime in half of the calls), 0.15 (Truncate to 0, 1, 2^31-1, 2^31, 2^32-1, 2^32, 2^32+1: sparse files), 0.7 (Chown uid/gid 0, 1, 65534, 65535, 65536, 2^31-1, 2^31, 2^32-2, -1), Chmod with setuid/setgid/sticky in one call of four each; after every step: outcome category, returned values (every accessor of every FileInfo: Name, Size of non-directories, Mode, IsDir, Mode().IsDir, Mode().IsRegular, Mode().Type, ModTime to the second, owner; Walk with the FileInfo of every visit), access and modification time left by Chtimes, snapshot of both trees (names, types, modes, sizes, nlink, owners, contents — large files by their non-zero blocks —, link texts, mtimes that are not of the run itself). DIRECTED sequences (c05_attr.go), each in both path modes: every boundary time set through Chtimes on a file / directory / through a link (both times, only one of the two, two different boundaries) and already present on the entries, every boundary size set by Truncate and already present, every setuid/setgid/sticky combination set and already present, every boundary owner set and already present — each followed by Stat, Lstat, ReadDir, ReadDirContext, Walk, Glob and by unrelated changes; FILE KINDS: for each of socket / fifo / character device / block device a tree holding such entries (plain, hard-linked, behind a symbolic link, inside sub-directories, with boundary owner / time / setgid) under Stat, Lstat, ReadLink, ReadDir, ReadDirContext, Walk, Glob, RealPath, StatVFS, MkdirAll / Mkdir / Create / Rename / Link / Symlink THROUGH them, Chmod / Chtimes / Chown / Truncate, Link / Rename / PosixRename / Remove / RemoveDirectory OF them, RemoveAll of the directories holding them; NON-CANONICAL PATHS (abs mode, and mode cwd twice: server constructed in the root and the process staying there / constructed elsewhere and the process moving every seven operations): 41 spellings x every operation kind but RemoveAll in six sequences (look, list, attr, create, rename, remove) over a tree where 'a/up/..' is not 'a'; mode cwd also: from each of eight places (root, a, a/sub, through ld, b, through la, through a/up, root) Getwd, RealPath, Stat/Lstat of eleven entries, ReadDir, Glob, Walk, StatVFS, ReadLink, and a round of Mkdir, MkdirAll, Create, OpenFile, Symlink, Link, Rename, PosixRename, Chmod, Chtimes, Truncate, Chown, Remove, RemoveDirectory, RemoveAll with plain names; GLOB SYNTAX: a tree whose names hold * ? [ ] \\ ^ - themselves (files, directories, links) under 130 patterns — no magic, every magic character escaped in the whole pattern / in its directory part, escapes next to wildcards, wildcards and classes in either part, malformed ones; directories of 129 / 1024 / 1100 entries (files, sub-directories, links) with names of 1 / 120 / 200 / 255 bytes listed by ReadDir, ReadDirContext (live, cancelled), through a link, Walk, Glob, then RemoveAll (thorough: 14 entry counts 0..4100 x 10 name lengths, all 36 atime/mtime pairs, more sizes and modes). One case = (path mode, operation, tree state before); non-trivial = the os outcome is an error category, or the tree changes, or a path goes through a symbolic link. quick: 150 generated sequences of 20..40 operations (half abs, half rel) + 60 of mode cwd + 184 directed; thorough: 6000 of 60..120, 1000 of 200..400, 2000 of mode cwd + the directed ones. Every failing sequence is delta-debugged on fresh twin trees (operations, entry count and name length of filled directories by bisection, then seed-tree entries) within a time bound before it is reported; up to three witnesses with different signatures per key; a client that has lost its connection is replaced so that the rest of the sequence is judged on its own"
	old := syscall.Umask(0o022) // documented: create/mode
	defer syscall.Umask(old)
	ids := []string{}
	for _, d := range c05Documented {
		ids = append(ids, d.ID)
	}
	r.Note("documented differences not reported (table c05Documented): %s", strings.Join(ids, ", "))

	if c.Replay != "" {
		var fam c05cInput
		if err := lib.ReadReplay(c.Replay, &fam); err == nil && fam.Family == c05cFamily {
			c05cReplay(c, fam)
			return
		}
		var in c05Input
		if err := lib.ReadReplay(c.Replay, &in); err != nil {
			r.Fail(lib.Failure{Kind: "tie", Key: "replay", What: err.Error()})
			return
		}
		defer c05CwdShutdown()
		res := c05RunInput(in, false)
		c05Merge(r, res, nil)
		for _, f := range res.failures {
			r.Fail(lib.Failure{Kind: "oracle", Key: f.Key, What: fmt.Sprintf("step %d %s: %s", f.Step, c05OpText(f.Op), f.What), Input: in, Expected: f.Expected, Actual: f.Actual})
		}
		return
	}

	// quick: 150 sequences of 20..40 operations; thorough: 6000 of 60..120 and 1000 long ones of 200..400
	// path mode cwd (relative paths, server without a working directory, the process moving about): quick 60 more
	// generated sequences, thorough 2000, run one at a time in child processes of their own (c05_cwd.go)
	nSeq, maxOps, nLong, nCwd := 150, 40, 0, 60
	started := time.Now()
	deadline := time.Now().Add(30 * time.Second)
	if c.Tier == "thorough" {
		nSeq, maxOps, nLong, nCwd = 7000, 120, 1000, 2000
		deadline = time.Now().Add(9 * time.Minute)
	}
	type job struct {
		mode string
		cons string
		seed int64
		n    int
		in   *c05Input // a directed sequence (c05_attr.go, c05_cwd.go); nil: generated from seed
		fam  string
	}
	c05ProbeStorable(r)
	defer c05CwdShutdown()
	directed := append(c05DirectedSeqs(c.Tier), c05CwdSeqs(c.Tier)...)
	onlyCwd := os.Getenv("VERIF_C05_ONLY") == "cwd" // for looking into path mode cwd alone (the result then says so)
	if onlyCwd {
		nSeq, nLong, directed = 0, 0, c05CwdSeqs(c.Tier)
		r.Note("VERIF_C05_ONLY=cwd: only the sequences of path mode cwd were run")
		r.MarkIncomplete("VERIF_C05_ONLY=cwd")
	}
	jobs := make([]job, nSeq, nSeq+nCwd+len(directed))
	for i := range jobs {
		mode := "abs"
		if i%2 == 1 {
			mode = "rel"
		}
		m := maxOps
		if i >= nSeq-nLong {
			m = 400
		}
		jobs[i] = job{mode: mode, seed: c.Rand.Int63(), n: m/2 + c.Rand.Intn(m/2+1)}
	}
	for i := 0; i < nCwd; i++ {
		jobs = append(jobs, job{mode: "cwd", cons: []string{"root", "elsewhere"}[i%2], seed: c.Rand.Int63(), n: maxOps/2 + c.Rand.Intn(maxOps/2+1)})
	}
	nSeq += nCwd
	for i := range directed {
		jobs = append(jobs, job{mode: directed[i].in.Mode, in: &directed[i].in, fam: directed[i].fam})
	}
	nRandom := nSeq
	nSeq = len(jobs)
	results := make([]*c05SeqResult, nSeq)
	workers := runtime.NumCPU()
	if workers > 16 {
		workers = 16
	}
	var wg sync.WaitGroup
	// two queues: the sequences that run in this process, and those of path mode cwd, which have workers of their own
	// (one child process each)
	next, nextCwd := make(chan int, nSeq), make(chan int, nSeq)
	put := func(i int) {
		if jobs[i].mode == "cwd" {
			nextCwd <- i
		} else {
			next <- i
		}
	}
	for i := nRandom; i < nSeq; i++ { // the directed sequences first: they are few, and the largest ones take longest
		put(i)
	}
	for i := 0; i < nRandom; i++ {
		put(i)
	}
	close(next)
	close(nextCwd)
	for w := 0; w < workers+c05CwdProcs; w++ {
		wg.Add(1)
		next := next
		if w >= workers {
			next = nextCwd
		}
		go func() {
			defer wg.Done()
			for i := range next {
				if time.Now().After(deadline) || c.Stop("c05/seq") {
					continue
				}
				if in := jobs[i].in; in != nil {
					results[i] = c05RunInput(*in, false)
					results[i].hist["directed:"+jobs[i].fam]++
					continue
				}
				results[i] = c05RunJob(c05Job{Mode: jobs[i].mode, Cons: jobs[i].cons, Gen: true, Seed: jobs[i].seed, N: jobs[i].n})
			}
		}()
	}
	wg.Wait()

	c05PhaseV.Store("c05/shrink")
	seqTime := time.Since(started)
	// minimising is bounded in time as a whole and per witness (a defect that fails many large cases must not cost
	// more than that; what is not minimised is reported as the failing prefix of its sequence)
	shrinkAll, shrinkOne := 45*time.Second, 12*time.Second
	if c.Tier == "thorough" {
		shrinkAll, shrinkOne = 5*time.Minute, 40*time.Second
	}
	shrinkEnd := time.Now().Add(shrinkAll)
	shrunk := map[string]map[string]bool{}
	skippedSeqs := 0
	orderOff := 0
	cwdSampled := 0
	for i, res := range results {
		if res == nil {
			skippedSeqs++
			continue
		}
		orderOff += res.orderOff
		c05Merge(r, res, &i)
		if res.in.Mode == "cwd" && cwdSampled < 2 && len(res.in.Ops) > 0 && jobs[i].in == nil {
			cwdSampled++
			ops := res.in.Ops
			if len(ops) > 12 {
				ops = ops[:12]
			}
			r.Sample(map[string]any{"mode": "cwd", "server_constructed": res.in.Cons, "tree": res.in.Tree, "first_ops": ops, "ops_total": len(res.in.Ops)})
		}
		for _, f := range res.failures {
			r.Hist("failure:" + f.Key)
			// up to three minimised witnesses per key, each with a different signature; the rest is counted in the histogram
			if shrunk[f.Key] == nil {
				shrunk[f.Key] = map[string]bool{}
			}
			if len(shrunk[f.Key]) >= 3 || shrunk[f.Key][f.Sig] {
				continue
			}
			shrunk[f.Key][f.Sig] = true
			if late := time.Now().After(shrinkEnd); late || strings.HasPrefix(f.Key, "hang/") {
				// every re-run of a hanging sequence costs a hang deadline: the sequence is cut after the hanging call and
				// reported as it is, not minimised; so is every sequence once the time for minimising is used up (a defect
				// that shows under very many keys must not cost two more runs per key)
				step := min(max(f.Step, 0), len(res.in.Ops)-1)
				cut := c05Input{Mode: res.in.Mode, Cons: res.in.Cons, Tree: append([]c05Ent{}, res.in.Tree...), Ops: append([]c05Op{}, res.in.Ops[:step+1]...)}
				what := f.What
				if late {
					r.Hist("failure-not-minimised:time-for-minimising-used-up")
					what += " (the sequence up to the failing step, not minimised: the time for minimising was used up)"
				}
				r.Fail(lib.Failure{Kind: "oracle", Key: f.Key, What: fmt.Sprintf("%s [%s paths]: %s", c05OpText(f.Op), cut.Mode, what), Input: cut, Expected: f.Expected, Actual: f.Actual})
				continue
			}
			until := time.Now().Add(shrinkOne)
			if until.After(shrinkEnd) {
				until = shrinkEnd
			}
			min := c05Shrink(res.in, f.Key, f.Sig, f.Step, until)
			// re-run the minimal input for the evidence shown with it
			exp, act, what, stepText := f.Expected, f.Actual, f.What, c05OpText(f.Op)
			if rr := c05RunInput(min, true); rr != nil {
				for _, g := range rr.failures {
					if g.Key == f.Key && g.Sig == f.Sig {
						exp, act, what, stepText = g.Expected, g.Actual, g.What, c05OpText(g.Op)
						break
					}
				}
			}
			r.Fail(lib.Failure{Kind: "oracle", Key: f.Key, What: fmt.Sprintf("%s [%s paths]: %s", stepText, min.Mode, what), Input: min, Expected: exp, Actual: act})
		}
	}
	r.Note("%d generated and %d directed sequences in %.1f s; minimising the failing ones %.1f s", nRandom, nSeq-nRandom, seqTime.Seconds(), time.Since(started).Seconds()-seqTime.Seconds())
	if skippedSeqs > 0 {
		r.Skip("%d of %d sequences not run: time budget of the tier exhausted", skippedSeqs, nSeq)
	}
	if orderOff > 0 {
		r.Note("Glob returned the os matches in another order %d times (Client.glob does not sort; compared as sets, see documented difference listing-order)", orderOff)
	}
	var missing []string
	for _, s := range c05WantedShapes {
		if r.HistGet("shape:"+s) == 0 {
			missing = append(missing, s)
		}
	}
	if len(missing) > 0 {
		r.Note("tree shapes never met in this run: %s", strings.Join(missing, ", "))
	}

	if onlyCwd {
		return
	}
	// family composite-model: the composites against their Lean model and the os reference semantics (c05_composite.go)
	r.Rule += c05cRule
	c05PhaseV.Store("c05/composite")
	checkC05Composite(c)
}

func c05AtoI(s string) int64 {
	var n int64
	fmt.Sscan(s, &n)
	return n
}

func c05Bucket(n int) int {
	for _, b := range []int{4096, 2048, 1025, 1024, 257, 256, 129} {
		if n >= b {
			return b
		}
	}
	return 0
}

func c05OpText(op c05Op) string {
	b, _ := json.Marshal(op)
	return string(b)
}

// c05Merge folds one sequence's counters into the result (in sequence order, so that the report is deterministic).
func c05Merge(r *lib.Result, res *c05SeqResult, idx *int) {
	if res.tieErr != "" {
		r.Fail(lib.Failure{Kind: "tie", Key: "harness", What: res.tieErr, Input: res.in})
	}
	for _, cs := range res.cases {
		r.Case(cs.canon, cs.nontrivial)
	}
	for _, k := range lib.SortedKeys(res.hist) {
		r.HistAdd(k, res.hist[k])
	}
	if o := res.observed; o != nil && r.HistGet("observed-outside-quantifier:"+o.Key) == res.hist["observed-outside-quantifier:"+o.Key] {
		r.Note("observed, outside the quantifier (table c05Observed), not reported: %s at %s [%s paths]: os %v, sftp %v", o.Key, c05OpText(o.Op), res.in.Mode, o.Expected, o.Actual)
	}
	if idx != nil && *idx < 4 {
		ops := res.in.Ops
		if len(ops) > 8 {
			ops = ops[:8]
		}
		r.Sample(map[string]any{"mode": res.in.Mode, "tree": res.in.Tree, "first_ops": ops, "ops_total": len(res.in.Ops)})
	}
}
