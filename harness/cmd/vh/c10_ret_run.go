package main

import (
	"crypto/sha256"
	"encoding/json"
	"fmt"
	"os"
	"time"

	"github.com/pkg/sftp"

	"verifharness/peers"
	"verifharness/wire"
)

type c10rFail struct {
	Key      string  `json:"key"`
	What     string  `json:"what"`
	Step     int     `json:"step"`
	Min      c10rScn `json:"min"` // smallest scenario that still shows it (re-run to confirm)
	Expected any     `json:"expected,omitempty"`
	Actual   any     `json:"actual,omitempty"`
}

type c10rRes struct {
	Fails   []c10rFail     `json:"fails,omitempty"`
	Cases   []string       `json:"cases,omitempty"` // 16 hex digits of the canonical text's hash; "!" prefix = non-trivial
	Hist    map[string]int `json:"hist,omitempty"`
	Ambig   int            `json:"ambig,omitempty"`
	Tie     string         `json:"tie,omitempty"`
	Samples []any          `json:"samples,omitempty"`
}

func c10rChild(idx int, raw json.RawMessage) (any, bool) {
	var scn c10rScn
	if err := json.Unmarshal(raw, &scn); err != nil {
		return c10rRes{Tie: "bad scenario: " + err.Error()}, false
	}
	res := c10rRun(scn)
	// minimise: keep only the steps that set up the failing step's handle, confirm by re-running
	for i := range res.Fails {
		f := &res.Fails[i]
		f.Min = c10rPrefix(scn, f.Step)
		small := c10rSmall(scn, f.Step)
		if len(small.Steps) < len(f.Min.Steps) {
			r2 := c10rRun(small)
			for _, g := range r2.Fails {
				if g.Key == f.Key {
					f.Min = small
					break
				}
			}
		}
	}
	return res, false
}

func c10rPrefix(scn c10rScn, step int) c10rScn {
	out := scn
	out.Steps = append([]c10rStep(nil), scn.Steps[:step+1]...)
	return out
}

// c10rSmall: the step that opened the failing step's slot (the last open/opendir into it before the step) + the step.
func c10rSmall(scn c10rScn, step int) c10rScn {
	out := scn
	out.Steps = nil
	st := scn.Steps[step]
	if c10rUsesSlot(st.Op) {
		for j := step - 1; j >= 0; j-- {
			o := scn.Steps[j]
			if (o.Op == "open" || o.Op == "opendir") && o.Slot == st.Slot {
				out.Steps = append(out.Steps, o)
				break
			}
			if o.Op == "close" && o.Slot == st.Slot {
				break
			}
		}
	}
	out.Steps = append(out.Steps, st)
	return out
}

func c10rUsesSlot(op string) bool {
	switch op {
	case "read", "write", "readdir", "fstat", "fsetstat", "close":
		return true
	}
	return false
}

func c10rKey(st c10rStep, slot *c10rSlot, aspect string) string {
	k := "ret/" + st.Op
	if c10rUsesSlot(st.Op) {
		if slot == nil {
			k += "/nohandle"
		} else {
			k += "/" + slot.kind
		}
	}
	return k + "/" + aspect
}

func c10rNontrivial(st c10rStep) bool {
	if st.HRet.Err != "" || st.CRet.Err != "" {
		return true
	}
	for _, o := range st.ORet {
		if o.Err != "" || (o.N != "" && o.N != "full") {
			return true
		}
	}
	return st.Len > 32768
}

func c10rRun(scn c10rScn) (res c10rRes) {
	res.Hist = map[string]int{}
	core := &c10rCore{obj: scn.Cfg.Obj}
	h, err := c10rHandlers(core, scn.Cfg)
	if err != nil {
		res.Tie = err.Error()
		return
	}
	var sopts []sftp.RequestServerOption
	env := &c10rEnv{cfg: scn.Cfg, via: scn.Via, base: "/"}
	if scn.Cfg.Start != "" {
		sopts = append(sopts, sftp.WithStartDirectory(scn.Cfg.Start))
		env.base = sftp.VerifCleanPath(scn.Cfg.Start)
	}
	if scn.Cfg.Alloc {
		sopts = append(sopts, sftp.WithRSAllocator())
	}
	if scn.Cfg.MaxTx != 0 {
		sopts = append(sopts, sftp.WithRSMaxTxPacket(scn.Cfg.MaxTx))
	}
	cfgText, _ := json.Marshal(scn.Cfg)
	slots := map[int]*c10rSlot{}

	var srv *peers.Srv
	var pair *vhPair
	if scn.Via == "raw" {
		srv = peers.StartRS(h, sopts...)
		if v, err := hHandshake(srv, cliCase.Load()); err != nil || v.Typ != wire.Version {
			res.Tie = fmt.Sprint("handshake with the request server failed: ", err)
			return
		}
		defer func() {
			srv.CloseInput()
			if _, ok := hCleanupSrv(srv, "c10ret/server-exit", 10*time.Second); !ok {
				res.Hist["shutdown-not-finished-in-10s"]++
			}
		}()
	} else {
		var copts []sftp.ClientOption
		if scn.Cfg.CliMaxPkt != 0 {
			copts = append(copts, sftp.MaxPacketUnchecked(scn.Cfg.CliMaxPkt))
		}
		pair, err = vhStartRS(h, copts, sopts...)
		if err != nil {
			res.Tie = "client/server pair: " + err.Error()
			return
		}
		defer pair.Close()
	}

	for i, st := range scn.Steps {
		slot := slots[st.Slot]
		if !c10rUsesSlot(st.Op) {
			slot = nil
		}
		core.arm(st)
		var got c10rOut
		var hung bool
		if scn.Via == "raw" {
			got, hung = c10rDoRaw(srv, uint32(i+10), st, slot)
		} else {
			if c10rUsesSlot(st.Op) && slot == nil {
				continue // the Client has no way to use a handle it does not hold
			}
			ok := cliWithin(20*time.Second, func() { got = c10rDoClient(pair.Client, st, slot) })
			hung = !ok
		}
		canon := sha256.Sum256([]byte(fmt.Sprintf("%s|%s|%v|", scn.Via, cfgText, slot != nil && true) + c10rStepText(st, slot)))
		tag := fmt.Sprintf("%x", canon[:8])
		if c10rNontrivial(st) {
			tag = "!" + tag
		}
		res.Cases = append(res.Cases, tag)
		res.Hist[c10rKey(st, slot, scn.Via)]++
		if hung {
			res.Fails = append(res.Fails, c10rFail{Key: c10rKey(st, slot, "hang"), What: "no reply within 20 s", Step: i})
			return
		}
		calls := core.take()
		probs, amb := c10rJudge(env, st, slot, calls, got, 0)
		if amb {
			res.Ambig++
		}
		for _, p := range probs {
			res.Fails = append(res.Fails, c10rFail{Key: c10rKey(st, slot, p.Aspect), What: p.What, Step: i, Expected: p.Expected,
				Actual: map[string]any{"reply": got, "handler_calls": calls, "detail": p.Actual}})
		}
		if len(res.Samples) < 2 && c10rNontrivial(st) && len(probs) == 0 && (st.Op == "read" || st.Op == "readdir" || st.Op == "stat") {
			res.Samples = append(res.Samples, map[string]any{"via": scn.Via, "cfg": scn.Cfg, "step": st, "handler_calls": calls, "client_saw": got})
		}
		// handle table
		switch st.Op {
		case "open", "opendir":
			if got.Kind == "handle" {
				kind := "List"
				if st.Op == "open" {
					kind, _ = c10rOpenMethod(st.Pflags, scn.Cfg.OpenFW)
				}
				slots[st.Slot] = &c10rSlot{kind: kind, path: env.clean(lib10UnHex(st.P)), handle: got.handle, file: gotFile(got)}
			} else {
				delete(slots, st.Slot)
			}
		case "close":
			delete(slots, st.Slot)
		}
	}
	return
}

func c10rStepText(st c10rStep, slot *c10rSlot) string {
	b, _ := json.Marshal(st)
	k := ""
	if slot != nil {
		k = slot.kind
	}
	return k + string(b)
}

// the Client leg smuggles the *sftp.File through the outcome
var c10rFiles = map[string]*sftp.File{}

func gotFile(o c10rOut) *sftp.File { return c10rFiles[o.handle] }

func c10rDoRaw(srv *peers.Srv, id uint32, st c10rStep, slot *c10rSlot) (c10rOut, bool) {
	hd := "no-such-handle"
	if slot != nil {
		hd = slot.handle
	}
	p, p2 := lib10UnHex(st.P), lib10UnHex(st.P2)
	attrs := []byte(lib10UnHex(st.Attrs))
	var f []byte
	ext := func(name string, body wire.B) []byte {
		return wire.Req(wire.Extended, id, append(wire.B{}.Str(name), body...))
	}
	switch st.Op {
	case "open":
		f = wire.Req(wire.Open, id, wire.B{}.Str(p).U32(st.Pflags).U32(st.AFlags).Raw(attrs))
	case "opendir":
		f = wire.Req(wire.Opendir, id, wire.B{}.Str(p))
	case "read":
		f = wire.Req(wire.Read, id, wire.B{}.Str(hd).U64(st.Off).U32(st.Len))
	case "write":
		data := make([]byte, st.Len)
		c10rPattern(data, int64(st.Off), st.Salt)
		f = wire.Req(wire.Write, id, wire.B{}.Str(hd).U64(st.Off).Bytes(data))
	case "readdir":
		f = wire.Req(wire.Readdir, id, wire.B{}.Str(hd))
	case "close":
		f = wire.Req(wire.Close, id, wire.B{}.Str(hd))
	case "fstat":
		f = wire.Req(wire.Fstat, id, wire.B{}.Str(hd))
	case "fsetstat":
		f = wire.Req(wire.Fsetstat, id, wire.B{}.Str(hd).U32(st.AFlags).Raw(attrs))
	case "stat":
		f = wire.Req(wire.Stat, id, wire.B{}.Str(p))
	case "lstat":
		f = wire.Req(wire.Lstat, id, wire.B{}.Str(p))
	case "readlink":
		f = wire.Req(wire.Readlink, id, wire.B{}.Str(p))
	case "realpath":
		f = wire.Req(wire.Realpath, id, wire.B{}.Str(p))
	case "mkdir":
		f = wire.Req(wire.Mkdir, id, wire.B{}.Str(p).U32(st.AFlags).Raw(attrs))
	case "rmdir":
		f = wire.Req(wire.Rmdir, id, wire.B{}.Str(p))
	case "remove":
		f = wire.Req(wire.Remove, id, wire.B{}.Str(p))
	case "setstat":
		f = wire.Req(wire.Setstat, id, wire.B{}.Str(p).U32(st.AFlags).Raw(attrs))
	case "rename":
		f = wire.Req(wire.Rename, id, wire.B{}.Str(p).Str(p2))
	case "symlink":
		f = wire.Req(wire.Symlink, id, wire.B{}.Str(p).Str(p2))
	case "statvfs":
		f = ext("statvfs@openssh.com", wire.B{}.Str(p))
	case "posixrename":
		f = ext("posix-rename@openssh.com", wire.B{}.Str(p).Str(p2))
	case "link":
		f = ext("hardlink@openssh.com", wire.B{}.Str(p).Str(p2))
	default:
		return c10rOut{Kind: "problem", Problem: "harness: op " + st.Op + " has no raw form"}, false
	}
	rep, err := hCall(srv, cliCase.Load(), f)
	if err != nil {
		if err == peers.ErrTimeout {
			return c10rOut{}, true
		}
		return c10rOut{Kind: "problem", Problem: "no reply: " + err.Error()}, false
	}
	return c10rDecode(rep, id), false
}

func c10rErrOut(err error) c10rOut {
	o := c10rOut{Kind: "status", Status: c10KindOfClientErr(err)}
	if _, m, _, ok := sftp.VerifStatusFields(err); ok {
		o.Msg = m
	}
	return o
}

func c10rEntOfInfo(fi os.FileInfo, name string) c10rEnt {
	e := c10rEnt{Name: lib10Hex(name), Size: uint64(fi.Size()), Mtime: uint32(fi.ModTime().Unix())}
	m := fi.Mode()
	e.Mode = uint32(m.Perm())
	switch {
	case m&os.ModeDir != 0:
		e.Mode |= 0o040000
	case m&os.ModeSymlink != 0:
		e.Mode |= 0o120000
	case m.IsRegular():
		e.Mode |= 0o100000
	default:
		e.Mode |= 0o7000000 // some other type: never equal to what the handlers give
	}
	if fs, ok := fi.Sys().(*sftp.FileStat); ok && fs != nil {
		e.HasID, e.UID, e.GID = true, fs.UID, fs.GID
		for _, x := range fs.Extended {
			e.Ext = append(e.Ext, [2]string{x.ExtType, x.ExtData})
		}
	}
	return e
}

func c10rOSFlags(pflags uint32) int {
	var f int
	switch {
	case pflags&wire.FRead != 0 && pflags&wire.FWrite != 0:
		f = os.O_RDWR
	case pflags&wire.FWrite != 0:
		f = os.O_WRONLY
	default:
		f = os.O_RDONLY
	}
	if pflags&wire.FAppend != 0 {
		f |= os.O_APPEND
	}
	if pflags&wire.FCreat != 0 {
		f |= os.O_CREATE
	}
	if pflags&wire.FTrunc != 0 {
		f |= os.O_TRUNC
	}
	if pflags&wire.FExcl != 0 {
		f |= os.O_EXCL
	}
	return f
}

// c10rClientOK: can the real Client express this step?
func c10rClientOK(st c10rStep) bool {
	switch st.Op {
	case "open":
		return st.Pflags&(wire.FRead|wire.FWrite) != 0 && sftp.VerifToPflags(c10rOSFlags(st.Pflags)) == st.Pflags && st.AFlags == 0
	case "setstat", "fsetstat":
		return st.AFlags == wire.APerm || st.AFlags == wire.ASize
	case "opendir", "readdir", "remove":
		return false
	case "read":
		return st.Len > 0 // Client.ReadAt into an empty buffer sends nothing
	case "mkdir":
		return st.AFlags == 0
	}
	return true
}

func c10rDoClient(cl *sftp.Client, st c10rStep, slot *c10rSlot) c10rOut {
	p, p2 := lib10UnHex(st.P), lib10UnHex(st.P2)
	var f *sftp.File
	if slot != nil {
		f = slot.file
	}
	attrs := []byte(lib10UnHex(st.Attrs))
	be := func(b []byte) (v uint64) {
		for _, x := range b {
			v = v<<8 | uint64(x)
		}
		return
	}
	simple := func(err error) c10rOut { return c10rErrOut(err) }
	switch st.Op {
	case "open":
		file, err := cl.OpenFile(p, c10rOSFlags(st.Pflags))
		if err != nil {
			return c10rErrOut(err)
		}
		h := fmt.Sprintf("file-%p", file)
		c10rFiles[h] = file
		return c10rOut{Kind: "handle", handle: h}
	case "read":
		buf := make([]byte, st.Len)
		n, err := f.ReadAt(buf, int64(st.Off))
		o := c10rData(buf[:max(n, 0)])
		e := c10rErrOut(err)
		o.Status, o.Msg = e.Status, e.Msg
		return o
	case "write":
		data := make([]byte, st.Len)
		c10rPattern(data, int64(st.Off), st.Salt)
		n, err := f.WriteAt(data, int64(st.Off))
		if err == nil && n != len(data) {
			return c10rOut{Kind: "problem", Problem: fmt.Sprintf("WriteAt returned %d, nil for %d bytes", n, len(data))}
		}
		return simple(err)
	case "close":
		return simple(f.Close())
	case "listdir":
		fis, err := cl.ReadDir(p)
		o := c10rOut{Kind: "names"}
		for _, fi := range fis {
			o.Ents = append(o.Ents, c10rEntOfInfo(fi, fi.Name()))
		}
		e := c10rErrOut(err)
		o.Status, o.Msg = e.Status, e.Msg
		return o
	case "stat", "lstat", "fstat":
		var fi os.FileInfo
		var err error
		switch st.Op {
		case "stat":
			fi, err = cl.Stat(p)
		case "lstat":
			fi, err = cl.Lstat(p)
		default:
			fi, err = f.Stat()
		}
		if err != nil {
			return c10rErrOut(err)
		}
		return c10rOut{Kind: "attrs", Ents: []c10rEnt{c10rEntOfInfo(fi, "")}}
	case "readlink":
		s, err := cl.ReadLink(p)
		if err != nil {
			return c10rErrOut(err)
		}
		return c10rOut{Kind: "name1", Str: lib10Hex(s)}
	case "realpath":
		s, err := cl.RealPath(p)
		if err != nil {
			return c10rErrOut(err)
		}
		return c10rOut{Kind: "name1", Str: lib10Hex(s)}
	case "statvfs":
		v, err := cl.StatVFS(p)
		if err != nil {
			return c10rErrOut(err)
		}
		a := [11]uint64{v.Bsize, v.Frsize, v.Blocks, v.Bfree, v.Bavail, v.Files, v.Ffree, v.Favail, v.Fsid, v.Flag, v.Namemax}
		return c10rOut{Kind: "vfs", VFS: &a}
	case "posixrename":
		return simple(cl.PosixRename(p, p2))
	case "rename":
		return simple(cl.Rename(p, p2))
	case "link":
		return simple(cl.Link(p, p2))
	case "symlink":
		return simple(cl.Symlink(p, p2))
	case "mkdir":
		return simple(cl.Mkdir(p))
	case "rmdir":
		return simple(cl.RemoveDirectory(p))
	case "setstat":
		if st.AFlags == wire.APerm {
			return simple(cl.Chmod(p, os.FileMode(be(attrs))&0o777))
		}
		return simple(cl.Truncate(p, int64(be(attrs))))
	case "fsetstat":
		if st.AFlags == wire.APerm {
			return simple(f.Chmod(os.FileMode(be(attrs)) & 0o777))
		}
		return simple(f.Truncate(int64(be(attrs))))
	}
	return c10rOut{Kind: "problem", Problem: "harness: op " + st.Op + " has no Client form"}
}
